import Monorail.Model.Graph
import Monorail.Model.Exec
/-!
# From a selection of targets to the plan `run` executes

`handle_run` obtains target groups in one of three ways and `get_plan` lays them out command by
command:

* no `-t`: the groups of all targets, pruned to the targets `analyze` reports as changed (every
  target when there is no checkpoint);
* `-t T..` : one single-target group per named target, the graph is ignored;
* `-t T.. --deps` : the groups of the dependency closure of the named targets.

`planOf` is the list of groups the executor walks: for every command in order, every target group in
order, one task per member. A task is identified by `(command index, target)`, encoded as
`command * n + target` with `n` the number of configured targets. Import-free.
-/
namespace Monorail

inductive Selection where
  | changed (ch : List Nat)
  | named (ts : List Nat)
  | deps (roots : List Nat)

def selectGroups (g : Graph) : Selection → Except GraphErr (List (List Nat))
  | .changed ch =>
    match labeledGroups g (List.range g.size) with
    | .ok lgs => .ok (prune (fun t => ch.contains t) lgs)
    | .error e => .error e
  | .named ts => .ok (ts.map (fun t => [t]))
  | .deps roots => labeledGroups g roots

def taskId (n c t : Nat) : Nat := c * n + t

def cmdGroups (n : Nat) (disp : Nat → Nat → Disp) (c : Nat) (groups : List (List Nat)) : List Group :=
  groups.map (fun grp => grp.map (fun t => ⟨taskId n c t, disp c t⟩))

/-- `get_plan`: every command in order over every target group in order -/
def planOf (n ncmd : Nat) (disp : Nat → Nat → Disp) (groups : List (List Nat)) : List Group :=
  (List.range ncmd).flatMap (fun c => cmdGroups n disp c groups)

end Monorail
