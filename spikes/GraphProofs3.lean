import Mathlib.Data.Finset.Card
import Mathlib.Logic.Relation
import Mathlib.Order.WellFounded
import Spike.GraphProofs2
namespace G
open Relation

theorem dep_lt (g : Graph) {x a : Nat} (h : Dep g x a) : x < g.adj.length := by
  unfold Dep Graph.out at h
  by_contra hx
  have hn : g.adj[x]? = none := List.getElem?_eq_none (Nat.le_of_not_lt hx)
  simp [List.getD, hn] at h

/-- "no cycle" in the readable sense: no node reaches itself through ≥ 1 dependency edges -/
def NoCycle (g : Graph) : Prop := ∀ v, ¬ TransGen (Dep g) v v

/-- BRIDGE: in a graph (finitely many nodes by construction) no cycle ⇒ depends-on is well founded. -/
theorem wf_of_noCycle (g : Graph) (h : NoCycle g) : WellFounded (Dep g) := by
  classical
  let m : Nat → Nat := fun x =>
    ((Finset.range g.adj.length).filter (fun z => TransGen (Dep g) z x)).card
  have key : ∀ x y, Dep g x y → m x < m y := by
    intro x y hxy
    apply Finset.card_lt_card
    rw [Finset.ssubset_iff_of_subset]
    · refine ⟨x, ?_, ?_⟩
      · simp only [Finset.mem_filter, Finset.mem_range]
        exact ⟨dep_lt g hxy, TransGen.single hxy⟩
      · simp only [Finset.mem_filter, Finset.mem_range, not_and]
        intro _; exact h x
    · intro z hz
      simp only [Finset.mem_filter, Finset.mem_range] at hz ⊢
      exact ⟨hz.1, TransGen.tail hz.2 hxy⟩
  exact Subrelation.wf (fun {a b} hab => key a b hab) (measure m).wf

/-- C03 in its readable form: an acyclic graph always layers completely. -/
theorem complete_of_noCycle (g : Graph) (vis : List Nat) (h : NoCycle g) :
    (layers g vis).2 = [] := complete g vis (wf_of_noCycle g h)

#print axioms complete_of_noCycle
#print axioms order_aux
#print axioms cyclic_left
end G
