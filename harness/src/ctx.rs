use crate::model::Model;
use crate::report::Report;
use crate::rng::Rng;
use crate::scratch::Scratch;

pub struct Ctx {
    pub rng: Rng,
    pub model: Model,
    pub scratch: Scratch,
    pub thorough: bool,
    pub report: Report,
    pub corpus_dir: std::path::PathBuf,
    /// multiplies the number of generated cases (the `check` driver raises it when it searches for
    /// a failing input after a proof obligation or a correspondence broke)
    pub budget: u64,
    /// lower-case id of the property this run decides
    pub prop: String,
    /// the case being evaluated is written here first, so that a hang can be reported with a replay
    pub current_case_file: std::path::PathBuf,
}

/// map an implementation error message to the small enum shared with the model
pub fn classify(e: &str) -> &'static str {
    if e.contains("Duplicate label") {
        "dup_label"
    } else if e.contains("Cycle detected") {
        "cycle"
    } else if e.contains("has no files") || e.contains("No such file") {
        "no_files"
    } else if e.starts_with("json:") {
        "json"
    } else {
        "other"
    }
}
