/-! Insertion sort with duplicate removal over an arbitrary strict order given as a Bool relation
(`sort(); dedup()` / a sorted `HashSet` dump). Import-free. -/
namespace Monorail

def insertBy {α : Type} [DecidableEq α] (lt : α → α → Bool) (x : α) : List α → List α
  | [] => [x]
  | y :: ys => if lt x y then x :: y :: ys else if x = y then y :: ys else y :: insertBy lt x ys

def sortDedupBy {α : Type} [DecidableEq α] (lt : α → α → Bool) (l : List α) : List α :=
  l.foldr (insertBy lt) []

end Monorail
