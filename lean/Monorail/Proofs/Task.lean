import Monorail.Model.Task
/-! helper lemmas for the task composition: the fold over a schedule projects to each reader's fold -/
namespace Monorail

theorem tfold_o (ok : Nat → Bool) (evs : List (Side × REv)) (s : TaskSt) :
    (evs.foldl (tstep ok) s).o = (eventsOf .out evs).foldl (rstep ok) s.o := by
  induction evs generalizing s with
  | nil => rfl
  | cons x rest ih =>
    obtain ⟨sd, ev⟩ := x
    cases sd <;> simp [eventsOf, tstep, ih] <;> rfl

theorem tfold_e (ok : Nat → Bool) (evs : List (Side × REv)) (s : TaskSt) :
    (evs.foldl (tstep ok) s).e = (eventsOf .err evs).foldl (rstep ok) s.e := by
  induction evs generalizing s with
  | nil => rfl
  | cons x rest ih =>
    obtain ⟨sd, ev⟩ := x
    cases sd <;> simp [eventsOf, tstep, ih] <;> rfl

end Monorail
