import Monorail.Proofs.Graph
import Monorail.Props.C10
import Monorail.Proofs.Kahn
/-!
# C03 — target groups are a valid dependency layering of every acyclic graph (graph level)

`groups g roots` is the model of `Dag::get_groups` after `set_subtree_visibility` from every root;
`labeledGroups` is the order every API shows (dependencies first). The theorems hold for every
graph of any size, every root set and every `changed` predicate.
-/
namespace Monorail
open Relation

/-- no visible node lies on a cycle -/
def AcyclicOn (g : Graph) (vis : List Nat) : Prop := ∀ v ∈ vis, ¬ Reach1 g v v

theorem noCycle_depOn {g : Graph} {vis : List Nat} (h : AcyclicOn g vis) :
    ∀ v, ¬ TransGen (DepOn g vis) v v := by
  intro v hv
  have hmem : v ∈ vis := by
    obtain ⟨b, hb, _⟩ := TransGen.head'_iff.mp hv
    exact hb.1
  exact h v hmem (transGen_of_depOn hv)

/-- **C03 (succeeds).** If no visible node lies on a cycle, grouping succeeds. -/
theorem c03_succeeds (g : Graph) (roots : List Nat) (h : AcyclicOn g (closure g roots)) :
    ∃ gs, groups g roots = .ok gs := by
  have := complete_of_noCycle g (closure g roots) (noCycle_depOn h)
  exact ⟨(layers g (closure g roots)).1, by simp [groups_eq, this]⟩

/-- **C03 (partition).** The groups contain exactly the requested nodes — the dependency closure of
the roots — each exactly once. -/
theorem c03_partition {g : Graph} {roots : List Nat} {gs : List (List Nat)}
    (h : groups g roots = .ok gs) : gs.flatten.Perm (closure g roots) := by
  rw [groups_eq] at h
  split at h
  · rename_i he
    cases h
    have hp := perm_aux g (closure g roots).length (closure g roots)
    have hl : (layers g (closure g roots)).2 = [] := by simpa [List.isEmpty_iff] using he
    unfold layers at hl ⊢
    rw [hl] at hp
    simpa using hp
  · cases h

theorem c03_nodup {g : Graph} {roots : List Nat} {gs : List (List Nat)}
    (h : groups g roots = .ok gs) : gs.flatten.Nodup :=
  (c03_partition h).nodup_iff.mpr (closure_nodup g roots)

theorem c03_mem {g : Graph} (hr : InRange g) {roots : List Nat} {gs : List (List Nat)}
    (h : groups g roots = .ok gs) (x : Nat) :
    x ∈ gs.flatten ↔ ∃ r ∈ roots, r < g.size ∧ Reach g r x := by
  rw [(c03_partition h).mem_iff, mem_closure g hr]

/-- **C03 (no empty group).** -/
theorem c03_nonempty {g : Graph} {roots : List Nat} {gs : List (List Nat)}
    (h : groups g roots = .ok gs) : ∀ l ∈ gs, l ≠ [] := by
  rw [groups_eq] at h
  split at h
  · cases h; exact layers_nonempty g _ _
  · cases h

theorem before_reverse {gs : List (List Nat)} {a b : Nat} (h : Before gs a b) :
    Before gs.reverse b a := by
  obtain ⟨pre, A, mid, B, post, rfl, ha, hb⟩ := h
  exact ⟨post.reverse, B, mid.reverse, A, pre.reverse, by simp, hb, ha⟩

/-- **C03 (order).** In the order every API shows (dependencies first), each requested target is in
a strictly later group than every target it depends on. -/
theorem c03_order {g : Graph} (hr : InRange g) {roots : List Nat} {lgs : List (List Nat)}
    (h : labeledGroups g roots = .ok lgs) {u v : Nat} (hu : u ∈ closure g roots)
    (huv : v ∈ g.out u) : Before lgs v u := by
  unfold labeledGroups at h
  cases hg : groups g roots with
  | error e => simp [hg] at h
  | ok gs =>
    simp only [hg] at h
    cases h
    apply before_reverse
    have hv : v ∈ closure g roots := closure_closed g hr roots u hu v huv
    have hvf : v ∈ gs.flatten := (c03_partition hg).mem_iff.mpr hv
    obtain ⟨l, hl, hvl⟩ := List.mem_flatten.mp hvf
    rw [groups_eq] at hg
    split at hg
    · cases hg
      exact order_aux g _ _ u v hu huv ⟨l, hl, hvl⟩
    · cases hg

theorem prune_append (c : Nat → Bool) (a b : List (List Nat)) :
    prune c (a ++ b) = prune c a ++ prune c b := by
  simp [prune]

/-- **C03 (pruning).** Pruning to the changed targets keeps exactly the changed members … -/
theorem c03_prune_mem (c : Nat → Bool) (gs : List (List Nat)) (x : Nat) :
    x ∈ (prune c gs).flatten ↔ x ∈ gs.flatten ∧ c x = true := by
  simp only [prune, List.mem_flatten, List.mem_filter, List.mem_map]
  constructor
  · rintro ⟨l, ⟨⟨l0, hl0, rfl⟩, _⟩, hx⟩
    have := List.mem_filter.mp hx
    exact ⟨⟨l0, hl0, this.1⟩, this.2⟩
  · rintro ⟨⟨l0, hl0, hx⟩, hc⟩
    refine ⟨l0.filter c, ⟨⟨l0, hl0, rfl⟩, ?_⟩, List.mem_filter.mpr ⟨hx, hc⟩⟩
    simp only [Bool.not_eq_true', List.isEmpty_eq_false_iff]
    intro hnil
    have : x ∈ l0.filter c := List.mem_filter.mpr ⟨hx, hc⟩
    simp [hnil] at this

/-- … leaves no empty group … -/
theorem c03_prune_nonempty (c : Nat → Bool) (gs : List (List Nat)) : ∀ l ∈ prune c gs, l ≠ [] := by
  intro l hl
  simp only [prune, List.mem_filter, Bool.not_eq_true', List.isEmpty_eq_false_iff] at hl
  exact hl.2

/-- … and keeps every changed target after every changed target it depends on. -/
theorem c03_prune_order (c : Nat → Bool) {gs : List (List Nat)} {a b : Nat}
    (h : Before gs b a) (ha : c a = true) (hb : c b = true) : Before (prune c gs) b a := by
  obtain ⟨pre, B, mid, A, post, rfl, hbB, haA⟩ := h
  have hB : (B.filter c) ≠ [] := by
    intro hnil
    have : b ∈ B.filter c := List.mem_filter.mpr ⟨hbB, hb⟩
    simp [hnil] at this
  have hA : (A.filter c) ≠ [] := by
    intro hnil
    have : a ∈ A.filter c := List.mem_filter.mpr ⟨haA, ha⟩
    simp [hnil] at this
  refine ⟨prune c pre, B.filter c, prune c mid, A.filter c, prune c post, ?_,
    List.mem_filter.mpr ⟨hbB, hb⟩, List.mem_filter.mpr ⟨haA, ha⟩⟩
  have e1 : prune c (B :: (mid ++ A :: post)) = B.filter c :: prune c (mid ++ A :: post) := by
    simp [prune, hB]
  have e2 : prune c (A :: post) = A.filter c :: prune c post := by
    simp [prune, hA]
  rw [prune_append, e1, prune_append, e2]

/-! ## Non-vacuity: a diamond with a redundant transitive edge, made visible from one root -/

/-- 0 → {1,2,3}, 1 → 3, 2 → 3, node 4 isolated and not requested -/
def exDiamond : Graph := ⟨[[1, 2, 3], [3], [3], [], []]⟩

example : labeledGroups exDiamond [0] = .ok [[3], [1, 2], [0]] := by decide
example : closure exDiamond [0] = [0, 1, 2, 3] := by decide

end Monorail

namespace Monorail
/-! ## Lifted to configurations through C10's characterisation of the edges -/

/-- the graph `Index::new` builds -/
def graphOf (cfg : Config) : Graph := ⟨adjacency cfg⟩

theorem graphOf_size (cfg : Config) : (graphOf cfg).size = cfg.length := by
  simp [graphOf, Graph.size, adjacency]

theorem graphOf_out (cfg : Config) (i : Nat) : (graphOf cfg).out i = deps cfg i := by
  unfold graphOf Graph.out adjacency
  by_cases hi : i < cfg.length
  · simp [List.getD, hi]
  · have : cfg[i]? = none := List.getElem?_eq_none (Nat.le_of_not_lt hi)
    simp [List.getD, hi, deps, this]

theorem graphOf_inRange {cfg : Config} (hwf : WF cfg) : InRange (graphOf cfg) := by
  intro u v hv
  rw [graphOf_out] at hv
  rw [graphOf_size]
  by_cases hu : u < cfg.length
  · exact c10_deps_lt hwf (List.getElem?_eq_getElem hu) hv
  · have : cfg[u]? = none := List.getElem?_eq_none (Nat.le_of_not_lt hu)
    simp [deps, this] at hv

/-- **C03 (configurations).** For every well-formed configuration, whatever roots were requested:
if grouping succeeds then every requested target `T` is in a strictly later group than every other
configured target `U` it depends on (U encloses T, or T uses a path inside/equal to U). -/
theorem c03_index_order {cfg : Config} (hwf : WF cfg) {roots : List Nat} {lgs : List (List Nat)}
    (h : labeledGroups (graphOf cfg) roots = .ok lgs) {i j : Nat} {T U : Target}
    (hT : cfg[i]? = some T) (hU : cfg[j]? = some U) (hne : j ≠ i) (hd : DependsOn T U)
    (hi : i ∈ closure (graphOf cfg) roots) : Before lgs j i := by
  apply c03_order (graphOf_inRange hwf) h hi
  rw [graphOf_out]
  exact (c10_deps_iff hwf hT j).mpr ⟨U, hU, hne, hd⟩

theorem graphOf_inRange_dir {cfg : Config} (hwf : WFD cfg) : InRange (graphOf cfg) := by
  intro u v hv
  rw [graphOf_out] at hv
  rw [graphOf_size]
  by_cases hu : u < cfg.length
  · exact c10_deps_lt_dir hwf (List.getElem?_eq_getElem hu) hv
  · have : cfg[u]? = none := List.getElem?_eq_none (Nat.le_of_not_lt hu)
    simp [deps, this] at hv

/-- **C03 (configurations, trailing separators).** `c03_index_order` for configurations whose
target paths may be written with one trailing separator. -/
theorem c03_index_order_dir {cfg : Config} (hwf : WFD cfg) {roots : List Nat} {lgs : List (List Nat)}
    (h : labeledGroups (graphOf cfg) roots = .ok lgs) {i j : Nat} {T U : Target}
    (hT : cfg[i]? = some T) (hU : cfg[j]? = some U) (hne : j ≠ i) (hd : DependsOnD T U)
    (hi : i ∈ closure (graphOf cfg) roots) : Before lgs j i := by
  apply c03_order (graphOf_inRange_dir hwf) h hi
  rw [graphOf_out]
  exact (c10_deps_iff_dir hwf hT j).mpr ⟨U, hU, hne, hd⟩

/-- **C03 (configurations, succeeds).** An acyclic well-formed configuration is always grouped,
for every root set, and the groups partition exactly the dependency closure of the roots. -/
theorem c03_index_succeeds {cfg : Config} (roots : List Nat)
    (hac : ∀ v, ¬ Reach1 (graphOf cfg) v v) :
    ∃ lgs, labeledGroups (graphOf cfg) roots = .ok lgs ∧
      lgs.flatten.Perm (closure (graphOf cfg) roots) := by
  obtain ⟨gs, hgs⟩ := c03_succeeds (graphOf cfg) roots (fun v _ => hac v)
  refine ⟨gs.reverse, by simp [labeledGroups, hgs], ?_⟩
  have := c03_partition hgs
  exact (List.Perm.trans (by
    rw [List.flatten_reverse]
    exact (List.reverse_perm _).trans (List.Perm.flatten_congr (by
      induction gs with
      | nil => simp
      | cons a t ih => simp))) this)

end Monorail

namespace Monorail
/-! ## The concrete counter / queue loop of `get_groups` (refinement, `Proofs/Kahn.lean`) -/

theorem sameLayers_flatten : ∀ {cs gs : List (List Nat)}, sameLayers cs gs → cs.flatten.Perm gs.flatten := by
  intro cs
  induction cs with
  | nil => intro gs h; cases gs with | nil => simp | cons b bs => cases h
  | cons a as ih =>
    intro gs h
    cases gs with
    | nil => cases h
    | cons b bs =>
      simp only [sameLayers] at h
      simp only [List.flatten_cons]
      exact List.Perm.append h.1 (ih h.2)

theorem sameLayers_before : ∀ {cs gs : List (List Nat)}, sameLayers cs gs → ∀ {x y : Nat}, Before gs x y → Before cs x y := by
  intro cs
  induction cs with
  | nil =>
    intro gs h x y hb
    cases gs with
    | nil => obtain ⟨pre, B, mid, A, post, heq, _, _⟩ := hb; simp at heq
    | cons b bs => cases h
  | cons a as ih =>
    intro gs h x y hb
    cases gs with
    | nil => cases h
    | cons b bs =>
      simp only [sameLayers] at h
      obtain ⟨pre, B, mid, A, post, heq, hx, hy⟩ := hb
      cases pre with
      | nil =>
        simp only [List.nil_append, List.cons.injEq] at heq
        obtain ⟨rfl, hbs⟩ := heq
        -- x is in the first group; y's group is somewhere in the tail
        have hyb : ∃ l ∈ bs, y ∈ l := ⟨A, by rw [hbs]; simp, hy⟩
        -- find the corresponding group in `as`
        have : ∀ {as bs : List (List Nat)}, sameLayers as bs → (∃ l ∈ bs, y ∈ l) → ∃ l ∈ as, y ∈ l := by
          intro as
          induction as with
          | nil => intro bs hs hh; cases bs with | nil => obtain ⟨l, hl, _⟩ := hh; cases hl | cons _ _ => cases hs
          | cons a' as' ih' =>
            intro bs hs hh
            cases bs with
            | nil => cases hs
            | cons b' bs' =>
              simp only [sameLayers] at hs
              obtain ⟨l, hl, hyl⟩ := hh
              rcases List.mem_cons.mp hl with rfl | hl
              · exact ⟨a', by simp, hs.1.mem_iff.mpr hyl⟩
              · obtain ⟨l', hl', hyl'⟩ := ih' hs.2 ⟨l, hl, hyl⟩
                exact ⟨l', List.mem_cons_of_mem _ hl', hyl'⟩
        obtain ⟨l, hl, hyl⟩ := this h.2 hyb
        obtain ⟨p1, p2, hsplit⟩ := List.append_of_mem hl
        exact ⟨[], a, p1, l, p2, by simp [hsplit], h.1.mem_iff.mpr hx, hyl⟩
      | cons p ps =>
        simp only [List.cons_append, List.cons.injEq] at heq
        obtain ⟨rfl, hbs⟩ := heq
        obtain ⟨pre', B', mid', A', post', heq', hx', hy'⟩ := ih h.2 ⟨ps, B, mid, A, post, hbs, hx, hy⟩
        exact ⟨a :: pre', B', mid', A', post', by simp [heq'], hx', hy'⟩

/-- **C03 (the loop of the code).** The counter / queue loop succeeds on the dependency closure of
the roots exactly when the abstract layering does; its groups are a permutation of the closure and
every requested node is in a strictly earlier group (dependents first, as `get_groups` returns them)
than everything it depends on. -/
theorem c03_kahn {g : Graph} (hr : InRange g) (roots : List Nat) (cs : List (List Nat))
    (h : kahn g (closure g roots) = .ok cs) :
    cs.flatten.Perm (closure g roots) ∧
    ∀ u ∈ closure g roots, ∀ v ∈ g.out u, Before cs u v := by
  obtain ⟨gs, hgs, hsame⟩ := (kahn_groups g roots).2 cs h
  refine ⟨(sameLayers_flatten hsame).trans (c03_partition hgs), ?_⟩
  intro u hu v hv
  apply sameLayers_before hsame
  -- order in `groups` (dependents first) is the reverse of the labeled order
  have hl : labeledGroups g roots = .ok gs.reverse := by simp [labeledGroups, hgs]
  have := c03_order hr hl hu hv
  have hrev := before_reverse this
  simpa using hrev

end Monorail
