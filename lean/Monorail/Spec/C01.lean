import Monorail.Model.Analyze
import Monorail.Spec.C10
/-!
# C01 — specification and decidable oracle

The specification speaks about whole path components (`Within`), never about bytes.

A target `T` is affected by a changed path `p` when `T` does not ignore `p` and `p` lies inside `T`'s
directory, or inside a `uses` path of `T` or of a non-ignoring target nested in `T`.
The property leaves one case open: a `uses` entry that is itself the path of a target which ignores
`p`. `strict = true` does not count such an entry (what the code does); `strict = false` counts it.
The oracle accepts any answer between the two.
-/
namespace Monorail

/-- `T` ignores `p` -/
def Ign (T : Target) (p : Path) : Prop := ∃ g ∈ T.ignores, Within g p

/-- the uses entry `u` is not (the path of) a configured target that ignores `p` -/
def UseCounts (cfg : Config) (p u : Path) : Prop := ¬ ∃ V ∈ cfg, V.path = u ∧ Ign V p

/-- SPEC: change `p` affects target `T` -/
def Affected (strict : Bool) (cfg : Config) (p : Path) (T : Target) : Prop :=
  T ∈ cfg ∧ ¬ Ign T p ∧
    (Within T.path p ∨
      ∃ N ∈ cfg, Within T.path N.path ∧ ¬ Ign N p ∧
        ∃ u ∈ N.uses, Within u p ∧ (strict = true → UseCounts cfg p u))

/-- every path mentioned by the configuration is normal, target paths are distinct -/
def wfAllB (cfg : Config) : Bool :=
  wfB cfg && cfg.all (fun t => t.uses.all normalB && t.ignores.all normalB)

def ignB (T : Target) (p : Path) : Bool := T.ignores.any (fun g => withinB g p)

def useCountsB (cfg : Config) (p u : Path) : Bool := !(cfg.any (fun V => V.path == u && ignB V p))

def affectedB (strict : Bool) (cfg : Config) (p : Path) (T : Target) : Bool :=
  !ignB T p &&
    (withinB T.path p ||
      cfg.any (fun N => withinB T.path N.path && !ignB N p &&
        N.uses.any (fun u => withinB u p && (!strict || useCountsB cfg p u))))

def strictlySorted : List Path → Bool
  | [] => true
  | [_] => true
  | a :: b :: t => pathLt a b && strictlySorted (b :: t)

/-- ORACLE on an observed `targets` list: `none` = accepted, `some reason` = rejected -/
def c01CheckTargets (cfg : Config) (cs : List Path) (obs : List Path) : Option String :=
  if !strictlySorted obs then some "targets not strictly sorted"
  else if obs.any (fun t => !cfg.any (fun T => T.path == t)) then some "reports a path that is not a configured target"
  else match cfg.find? (fun T => cs.any (fun p => affectedB true cfg p T) && !obs.contains T.path) with
    | some _ => some "an affected target is missing"
    | none => match cfg.find? (fun T => obs.contains T.path && !cs.any (fun p => affectedB false cfg p T)) with
      | some _ => some "a target is reported although no change affects it"
      | none => none

/-- ORACLE on the per-change breakdown: summary = union of its non-`ignores` entries -/
def c01CheckBreakdown (obs : List Path) (bd : List (List (Path × Reason))) : Option String :=
  let u := (bd.flatMap id).filterMap (fun e => if e.2 = Reason.ignores then none else some e.1)
  if obs.any (fun t => !u.contains t) then some "summary target missing from the breakdown"
  else if u.any (fun t => !obs.contains t) then some "breakdown entry missing from the summary"
  else none

/-! ### paths that may be written with one trailing separator -/

/-- `T` ignores `p`, an `ignores` entry naming the directory `dirOf g` -/
def IgnD (T : Target) (p : Path) : Prop := ∃ g ∈ T.ignores, Within (dirOf g) p

def UseCountsD (cfg : Config) (p u : Path) : Prop := ¬ ∃ V ∈ cfg, V.path = u ∧ IgnD V p

/-- SPEC when target paths, `uses` and `ignores` entries may carry one trailing separator: the
directory an entry names is `dirOf entry`. On normal paths this is `Affected`. -/
def AffectedD (strict : Bool) (cfg : Config) (p : Path) (T : Target) : Prop :=
  T ∈ cfg ∧ ¬ IgnD T p ∧
    (Within (dirOf T.path) p ∨
      ∃ N ∈ cfg, Within (dirOf T.path) (dirOf N.path) ∧ ¬ IgnD N p ∧
        ∃ u ∈ N.uses, Within (dirOf u) p ∧ (strict = true → UseCountsD cfg p u))

def wfAllDB (cfg : Config) : Bool :=
  wfDB cfg && cfg.all (fun t => t.uses.all (fun u => normalB (dirOf u)) && t.ignores.all (fun g => normalB (dirOf g)))

def slashed (k : Path) : Bool := k.getLast? == some sep

/-- a change is a file: never the directory that a slash-terminated entry names -/
def changeOkB (cfg : Config) (p : Path) : Bool :=
  normalB p && cfg.all (fun T => !(slashed T.path && p == dirOf T.path) &&
    T.uses.all (fun u => !(slashed u && p == dirOf u)) && T.ignores.all (fun g => !(slashed g && p == dirOf g)))

def ignDB (T : Target) (p : Path) : Bool := T.ignores.any (fun g => withinB (dirOf g) p)

def useCountsDB (cfg : Config) (p u : Path) : Bool := !(cfg.any (fun V => V.path == u && ignDB V p))

def affectedDB (strict : Bool) (cfg : Config) (p : Path) (T : Target) : Bool :=
  !ignDB T p &&
    (withinB (dirOf T.path) p ||
      cfg.any (fun N => withinB (dirOf T.path) (dirOf N.path) && !ignDB N p &&
        N.uses.any (fun u => withinB (dirOf u) p && (!strict || useCountsDB cfg p u))))

def c01CheckTargetsD (cfg : Config) (cs : List Path) (obs : List Path) : Option String :=
  if !strictlySorted obs then some "targets not strictly sorted"
  else if obs.any (fun t => !cfg.any (fun T => T.path == t)) then some "reports a path that is not a configured target"
  else match cfg.find? (fun T => cs.any (fun p => affectedDB true cfg p T) && !obs.contains T.path) with
    | some _ => some "an affected target is missing"
    | none => match cfg.find? (fun T => obs.contains T.path && !cs.any (fun p => affectedDB false cfg p T)) with
      | some _ => some "a target is reported although no change affects it"
      | none => none

end Monorail
