import Monorail.Model.Git
import Monorail.Proofs.Sort
/-! Lemmas about the abstract git repository and the change provider. -/
namespace Monorail

theorem mem_insertPath {p q : Path} {l : List Path} : q ∈ insertPath p l ↔ q = p ∨ q ∈ l := by
  induction l with
  | nil => simp [insertPath]
  | cons a as ih =>
    simp only [insertPath]
    split
    · rw [List.mem_cons, ih, List.mem_cons]; exact or_left_comm
    · simp

theorem mem_sortPaths {q : Path} {l : List Path} : q ∈ sortPaths l ↔ q ∈ l := by
  induction l with
  | nil => simp [sortPaths]
  | cons a as ih =>
    simp only [sortPaths, List.foldr_cons, mem_insertPath, List.mem_cons] at ih ⊢
    rw [ih]

theorem sortPaths_eq_nil {l : List Path} : sortPaths l = [] ↔ l = [] := by
  constructor
  · intro h
    cases l with
    | nil => rfl
    | cons a as =>
      have : a ∈ sortPaths (a :: as) := mem_sortPaths.mpr (by simp)
      rw [h] at this; cases this
  · intro h; subst h; rfl

/-- `a ≤ b` in byte order -/
def pathLe (a b : Path) : Prop := pathLt b a = false

theorem pathLe_trans {a b c : Path} (h1 : pathLe a b) (h2 : pathLe b c) : pathLe a c := by
  unfold pathLe at *
  cases hca : pathLt c a with
  | false => rfl
  | true =>
    exfalso
    by_cases hab : a = b
    · subst hab; rw [hca] at h2; cases h2
    · have hlt : pathLt a b = true := pathLt_total b a h1 (fun e => hab e.symm)
      have := pathLt_trans c a b hca hlt
      rw [this] at h2; cases h2

theorem insertPath_sorted {p : Path} {l : List Path} (h : l.Pairwise pathLe) :
    (insertPath p l).Pairwise pathLe := by
  induction l with
  | nil => simp [insertPath]
  | cons a as ih =>
    simp only [insertPath]
    rw [List.pairwise_cons] at h
    split
    · rename_i hap
      rw [List.pairwise_cons]
      refine ⟨?_, ih h.2⟩
      intro b hb
      rcases mem_insertPath.mp hb with rfl | hb
      · -- a < p  hence a ≤ p
        unfold pathLe
        cases hpa : pathLt b a with
        | false => rfl
        | true =>
          have := pathLt_trans _ _ _ hap hpa
          rw [pathLt_irrefl] at this; cases this
      · exact h.1 b hb
    · rename_i hap
      have hpa : pathLe p a := by simpa [pathLe] using hap
      rw [List.pairwise_cons]
      refine ⟨?_, List.pairwise_cons.mpr h⟩
      intro b hb
      rcases List.mem_cons.mp hb with rfl | hb
      · exact hpa
      · exact pathLe_trans hpa (h.1 b hb)

theorem sortPaths_sorted (l : List Path) : (sortPaths l).Pairwise pathLe := by
  induction l with
  | nil => simp [sortPaths]
  | cons a as ih => exact insertPath_sorted ih

/-! ### invariant of reachable repositories -/

structure GitInv (r : GitRepo) : Prop where
  nodup : r.known.Nodup
  work : ∀ p, (r.work p).isSome → p ∈ r.known
  index : ∀ p, (r.index p).isSome → p ∈ r.known
  trees : ∀ t ∈ r.commits, ∀ p, (t p).isSome → p ∈ r.known

theorem know_sub (r : GitRepo) (p : Path) : ∀ q ∈ r.known, q ∈ r.know p := by
  intro q hq
  unfold GitRepo.know
  split
  · exact hq
  · exact List.mem_append_left _ hq

theorem know_mem (r : GitRepo) (p : Path) : p ∈ r.know p := by
  unfold GitRepo.know
  split
  · rename_i h; simpa using h
  · simp

theorem know_nodup (r : GitRepo) (p : Path) (h : r.known.Nodup) : (r.know p).Nodup := by
  unfold GitRepo.know
  split
  · exact h
  · rename_i hn
    rw [List.nodup_append]
    refine ⟨h, by simp, ?_⟩
    intro a ha b hb
    simp at hb; subst hb
    intro hab; subst hab
    exact hn (by simpa using ha)

theorem empty_inv (ign : Path → Bool) : GitInv (GitRepo.empty ign) := by
  refine ⟨by simp [GitRepo.empty], by simp [GitRepo.empty], by simp [GitRepo.empty], ?_⟩
  intro t ht p hp
  simp [GitRepo.empty] at ht
  subst ht; simp at hp

theorem applyGit_inv {r : GitRepo} (h : GitInv r) (op : GitOp) : GitInv (applyGit r op) := by
  cases op with
  | write p b =>
    refine ⟨know_nodup r p h.nodup, ?_, fun q hq => know_sub r p q (h.index q hq),
      fun t ht q hq => know_sub r p q (h.trees t ht q hq)⟩
    intro q hq
    simp only [applyGit, treeSet] at hq
    by_cases hqp : q = p
    · subst hqp; exact know_mem r q
    · simp only [hqp, if_false] at hq
      exact know_sub r p q (h.work q hq)
  | delete p =>
    refine ⟨h.nodup, ?_, h.index, h.trees⟩
    intro q hq
    simp only [applyGit, treeSet] at hq
    by_cases hqp : q = p
    · subst hqp; simp at hq
    · simp only [hqp, if_false] at hq
      exact h.work q hq
  | move p q =>
    simp only [applyGit]
    cases hw : r.work p with
    | none => exact h
    | some b =>
      refine ⟨know_nodup r q h.nodup, ?_, fun x hx => know_sub r q x (h.index x hx),
        fun t ht x hx => know_sub r q x (h.trees t ht x hx)⟩
      intro x hx
      simp only [treeSet] at hx
      by_cases hxq : x = q
      · subst hxq; exact know_mem r x
      · simp only [hxq, if_false] at hx
        by_cases hxp : x = p
        · subst hxp; simp at hx
        · simp only [hxp, if_false] at hx
          exact know_sub r q x (h.work x hx)
  | addAll =>
    refine ⟨h.nodup, h.work, ?_, h.trees⟩
    intro q hq
    simp only [applyGit] at hq
    split at hq
    · exact h.work q hq
    · exact h.index q hq
  | add p =>
    refine ⟨h.nodup, h.work, ?_, h.trees⟩
    intro q hq
    simp only [applyGit, treeSet] at hq
    by_cases hqp : q = p
    · subst hqp; simp only [if_true] at hq; exact h.work q hq
    · simp only [hqp, if_false] at hq; exact h.index q hq
  | commit =>
    refine ⟨h.nodup, h.work, h.index, ?_⟩
    intro t ht q hq
    simp only [applyGit, List.mem_append, List.mem_singleton] at ht
    rcases ht with ht | rfl
    · exact h.trees t ht q hq
    · exact h.index q hq

theorem history_inv (ign : Path → Bool) (ops : List GitOp) :
    GitInv (ops.foldl applyGit (GitRepo.empty ign)) := by
  have : ∀ r, GitInv r → GitInv (ops.foldl applyGit r) := by
    induction ops with
    | nil => intro r h; exact h
    | cons o rest ih => intro r h; exact ih _ (applyGit_inv h o)
  exact this _ (empty_inv ign)

theorem tree_known {r : GitRepo} (h : GitInv r) (c : Nat) (p : Path) (hp : (r.tree c p).isSome) :
    p ∈ r.known := by
  unfold GitRepo.tree at hp
  by_cases hc : c < r.commits.length
  · have hmem : r.commits[c] ∈ r.commits := List.getElem_mem hc
    have : r.commits.getD c (fun _ => none) = r.commits[c] := by simp [List.getD, hc]
    rw [this] at hp
    exact h.trees _ hmem p hp
  · have : r.commits.getD c (fun _ => none) = fun _ => none := by
      simp [List.getD, List.getElem?_eq_none (Nat.le_of_not_lt hc)]
    rw [this] at hp; simp at hp

/-! ### membership in what git prints -/

theorem mem_diffWork {r : GitRepo} (h : GitInv r) (c : Nat) (p : Path) :
    p ∈ r.diffWork c ↔
      ((r.index p).isSome ∨ (r.tree c p).isSome) ∧ r.workView p ≠ r.tree c p := by
  simp only [GitRepo.diffWork, List.mem_filter, Bool.and_eq_true, Bool.or_eq_true, bne_iff_ne, ne_eq]
  constructor
  · rintro ⟨_, h1, h2⟩; exact ⟨h1, h2⟩
  · rintro ⟨h1, h2⟩
    refine ⟨?_, h1, h2⟩
    rcases h1 with hi | ht
    · exact h.index p hi
    · exact tree_known h c p ht

theorem mem_diffCommits {r : GitRepo} (h : GitInv r) (a b : Nat) (p : Path) :
    p ∈ r.diffCommits a b ↔ r.tree a p ≠ r.tree b p := by
  simp only [GitRepo.diffCommits, List.mem_filter, bne_iff_ne, ne_eq]
  constructor
  · rintro ⟨_, h2⟩; exact h2
  · intro h2
    refine ⟨?_, h2⟩
    cases ha : r.tree a p with
    | some x => exact tree_known h a p (by simp [ha])
    | none =>
      cases hb : r.tree b p with
      | some y => exact tree_known h b p (by simp [hb])
      | none => rw [ha, hb] at h2; exact absurd rfl h2

theorem mem_untracked {r : GitRepo} (h : GitInv r) (p : Path) :
    p ∈ r.untracked ↔ (r.work p).isSome ∧ (r.index p).isNone ∧ r.ignored p = false := by
  simp only [GitRepo.untracked, List.mem_filter, Bool.and_eq_true, Bool.not_eq_true']
  constructor
  · rintro ⟨_, ⟨h1, h2⟩, h3⟩; exact ⟨h1, h2, h3⟩
  · rintro ⟨h1, h2, h3⟩; exact ⟨h.work p h1, ⟨h1, h2⟩, h3⟩

end Monorail
