#!/usr/bin/env python3
"""C04 / C05 / C06: real `monorail run` scenarios judged by the Lean oracle (`execOracle`) and
compared with the Lean executor machine (`runExec`) fed with the observed completions."""
import sys
import time
from concurrent.futures import ThreadPoolExecutor

import runobs
import scen
from runobs import Knobs

KNOBS = {
    "C04": [Knobs(fail_rate=0, undefined_rate=5, max_targets=6), Knobs(fail_rate=0, undefined_rate=0, max_targets=6, slow_deps=True),
            Knobs(fail_rate=4, undefined_rate=5, max_targets=5),
            Knobs(fail_rate=0, undefined_rate=0, max_targets=5, sabotage=True),
            Knobs(fail_rate=0, undefined_rate=0, max_targets=6, slash=True),
            Knobs(fail_rate=0, undefined_rate=0, max_targets=6, dense=True)],
    "C05": [Knobs(undefined_rate=20, notexec_rate=3, fail_rate=0), Knobs(undefined_rate=10, fail_rate=6, max_targets=6),
            Knobs(undefined_rate=25, fail_rate=0, custom_dirs=True, max_targets=5),
            Knobs(undefined_rate=30, notexec_rate=0, fail_rate=0, max_targets=4),
            Knobs(undefined_rate=10, fail_rate=0, max_targets=5, checkpoint=True),
            Knobs(undefined_rate=10, fail_rate=0, max_targets=5, slash=True),
            Knobs(undefined_rate=10, fail_rate=0, max_targets=4, listener=True),
            Knobs(undefined_rate=5, fail_rate=0, max_targets=5, checkpoint=True, commit_range=True, force_mode=0),
            Knobs(undefined_rate=5, fail_rate=0, max_targets=6, force_mode=2, dense=True),
            Knobs(undefined_rate=5, fail_rate=0, max_targets=6, force_mode=2, slow_deps=False, dense=True)],
    "C06": [Knobs(fail_rate=15, notexec_rate=8, undefined_rate=15, redirect_rate=10), Knobs(delays=True, fail_rate=0, undefined_rate=10),
            Knobs(fail_rate=30, undefined_rate=5, max_targets=6, redirect_rate=15), Knobs(delays=True, fail_rate=10, notexec_rate=5),
            Knobs(fail_rate=0, undefined_rate=0, notexec_rate=0, chmod=True, max_targets=4),
            Knobs(fail_rate=5, undefined_rate=5, listener=True, max_targets=4),
            Knobs(fail_rate=0, undefined_rate=30, notexec_rate=0, force_fou=True, max_targets=5),
            Knobs(fail_rate=0, undefined_rate=30, notexec_rate=0, force_fou=False, max_targets=5)],
}


def one(prop, seed, model, rep):
    ks = KNOBS[prop]
    sc = runobs.build(seed, ks[seed % len(ks)])
    repo = runobs.install(sc)
    try:
        verdicts, info = runobs.observe(sc, repo, model)
        rep.evaluations += 1
        rep.count("mode_" + ("all" if not sc.named else ("deps" if sc.deps else "named")))
        rep.count("fou" if sc.fail_on_undefined else "no_fou")
        rep.count("commands_%d" % len(sc.command_list()))
        if sc.point_env:
            rep.count("with_injected_delays")
        if getattr(sc, "checkpointed", False):
            rep.count("with_checkpoint")
        if getattr(sc, "chmod_plan", None):
            rep.count("x_bit_changed_mid_run")
        if getattr(sc, "listener_kill", None) is not None:
            rep.count("listener_killed")
        if getattr(sc, "sabotage", None):
            rep.count("log_dirs_wiped_mid_run")
        if "obs" in info:
            rep.count("groups_%d" % min(info["ngroups"], 8))
            rep.count("failed_runs" if info["failed"] else "successful_runs")
            sts = {}
            for r in info["obs"]["results"]:
                sts[r[1] if r[2] is not None or r[1] != "error" else "error_nocode"] = 1
            for s in sts:
                rep.count("status_" + s)
            nontrivial = info["nstarted"] >= 2 and info["ngroups"] >= 2
            if prop == "C06":
                nontrivial = info["nstarted"] >= 1 and (info["failed"] or sc.point_env is not None)
            if nontrivial:
                rep.nontrivial_case({"seed": seed})
            rep.sample({"seed": seed, "invocation": sc.argv(), "plan": info["plan"], "results": info["obs"]["results"],
                        "exit": info["rc"]})
        for p, d in verdicts:
            d.setdefault("scenario", {})["seed"] = seed
            if p == prop:
                rep.oracle_fail(d)
            elif p == "MODEL":
                rep.disagree(d)
            else:
                rep.count("violations_of_" + p)
    finally:
        repo.done()


def main():
    args = scen.parse_args(sys.argv)
    prop = args["prop"]
    t0 = time.time()
    rep = scen.Report()
    model = scen.Model()
    seeds = []
    for c in scen.load_corpus(args["corpus"], prop):
        s = c.get("scenario", c).get("seed")
        if s is not None:
            seeds.append(s)
    rng = scen.Rng(args["seed"])
    n = (1600 if args["tier"] == "thorough" else 240) * args["budget"]
    seeds += [rng.next() for _ in range(n)]
    scen.run_cases(lambda s: one(prop, s, model, rep), seeds, rep, 12)
    scen.finish(args, rep, t0, model)


if __name__ == "__main__":
    main()
