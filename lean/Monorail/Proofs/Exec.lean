import Monorail.Model.Exec
import Monorail.Spec.Exec
import Mathlib.Data.List.Perm.Basic
/-! Lemmas about the scheduling fold and `advance`. -/
namespace Monorail

def rIds (rs : List (Nat × Status)) : List Nat := rs.map (·.1)
def gIds (g : Group) : List Nat := g.map (·.id)
def planIds (plan : List Group) : List Nat := plan.flatMap gIds

/-- what one scheduling step may add for a task -/
def EntryOk (t : Task) (st : Status) : Prop :=
  st = .skipped ∨ (st = .undefined ∧ t.disp = .undefined) ∨ (st = .notExecutable ∧ t.disp = .notExec)

theorem schedMember_perm (fou : Bool) (acc : Sched) (t : Task) :
    ((schedMember fou acc t).spawns ++ rIds (schedMember fou acc t).results).Perm
      (acc.spawns ++ rIds acc.results ++ [t.id]) := by
  unfold schedMember
  split
  · simp [rIds]
  · cases t.disp with
    | run =>
      simp only [rIds]
      rw [List.append_assoc, List.append_assoc]
      exact List.Perm.append_left _ List.perm_append_comm
    | undefined => simp [rIds]
    | notExec => simp [rIds]

theorem foldl_sched_perm (fou : Bool) (g : Group) (acc : Sched) :
    ((g.foldl (schedMember fou) acc).spawns ++ rIds (g.foldl (schedMember fou) acc).results).Perm
      (acc.spawns ++ rIds acc.results ++ gIds g) := by
  induction g generalizing acc with
  | nil => simp [gIds]
  | cons t ts ih =>
    simp only [List.foldl_cons]
    refine (ih _).trans ?_
    have := schedMember_perm fou acc t
    simp only [gIds, List.map_cons]
    rw [show acc.spawns ++ rIds acc.results ++ (t.id :: List.map (fun x => x.id) ts)
        = (acc.spawns ++ rIds acc.results ++ [t.id]) ++ List.map (fun x => x.id) ts by simp]
    exact List.Perm.append_right _ this

theorem schedGroup_perm (fou f : Bool) (g : Group) :
    ((schedGroup fou f g).spawns ++ rIds (schedGroup fou f g).results).Perm (gIds g) := by
  have := foldl_sched_perm fou g { failed := f, spawns := [], results := [] }
  simpa [schedGroup, rIds] using this

/-- invariant of the scheduling fold, relative to the accumulator it started from -/
structure SchedRel (fou : Bool) (g : Group) (a b : Sched) : Prop where
  spawns_ext : ∃ new, b.spawns = a.spawns ++ new ∧ ∀ i ∈ new, ∃ t ∈ g, t.id = i ∧ t.disp = .run
  results_ext : ∃ new, b.results = a.results ++ new ∧
    (∀ e ∈ new, ∃ t ∈ g, t.id = e.1 ∧ EntryOk t e.2) ∧
    (b.failed = true ↔ a.failed = true ∨ ∃ e ∈ new, isFailure fou e.2 = true) ∧
    (a.failed = true → ∀ e ∈ new, e.2 = .skipped) ∧
    (∀ e ∈ new, e.2 = .skipped → b.failed = true)
  latch : a.failed = true → b.spawns = a.spawns

theorem schedRel_refl (fou : Bool) (g : Group) (a : Sched) : SchedRel fou g a a :=
  ⟨⟨[], by simp, by simp⟩, ⟨[], by simp, by simp, by simp, by simp, by simp⟩, fun _ => rfl⟩

theorem schedRel_step (fou : Bool) (g : Group) (a b : Sched) (t : Task) (ht : t ∈ g)
    (h : SchedRel fou g a b) : SchedRel fou g a (schedMember fou b t) := by
  obtain ⟨⟨ns, hs, hsr⟩, ⟨nr, hr, hok, hf, hsk, hks⟩, hl⟩ := h
  unfold schedMember
  by_cases hb : b.failed = true
  · simp only [hb, if_true]
    refine ⟨⟨ns, hs, hsr⟩, ⟨nr ++ [(t.id, .skipped)], by simp [hr], ?_, ?_, ?_, fun _ _ _ => rfl⟩, hl⟩
    · intro e he
      rcases List.mem_append.mp he with he | he
      · exact hok e he
      · simp at he; subst he; exact ⟨t, ht, rfl, Or.inl rfl⟩
    · constructor
      · intro _
        rcases hf.mp hb with h1 | ⟨e, he, hfe⟩
        · exact Or.inl h1
        · exact Or.inr ⟨e, List.mem_append_left _ he, hfe⟩
      · intro _; rfl
    · intro ha e he
      rcases List.mem_append.mp he with he | he
      · exact hsk ha e he
      · simp at he; subst he; rfl
  · have hbf : b.failed = false := by simpa using hb
    have haf : ¬ a.failed = true := fun ha => hb (hf.mpr (Or.inl ha))
    have hnof : ∀ e ∈ nr, ¬ isFailure fou e.2 = true := fun e he hfe => hb (hf.mpr (Or.inr ⟨e, he, hfe⟩))
    simp only [hbf, Bool.false_eq_true, if_false]
    cases hd : t.disp with
    | run =>
      have hnoskip : ∀ e ∈ nr, e.2 ≠ .skipped := fun e he hs' => hb (hks e he hs')
      refine ⟨⟨ns ++ [t.id], by simp [hs], ?_⟩, ⟨nr, hr, hok, ?_, hsk, fun e he hs' => absurd hs' (hnoskip e he)⟩, fun ha => absurd ha haf⟩
      · intro i hi
        rcases List.mem_append.mp hi with hi | hi
        · exact hsr i hi
        · simp at hi; subst hi; exact ⟨t, ht, rfl, hd⟩
      · simpa [hbf] using hf
    | undefined =>
      have hnoskip : ∀ e ∈ nr, e.2 ≠ .skipped := fun e he hs' => hb (hks e he hs')
      refine ⟨⟨ns, hs, hsr⟩, ⟨nr ++ [(t.id, .undefined)], by simp [hr], ?_, ?_, ?_, ?_⟩, fun ha => absurd ha haf⟩
      rotate_right
      · intro e he hs'
        rcases List.mem_append.mp he with he | he
        · exact absurd hs' (hnoskip e he)
        · simp at he; subst he; cases hs'
      · intro e he
        rcases List.mem_append.mp he with he | he
        · exact hok e he
        · simp at he; subst he; exact ⟨t, ht, rfl, Or.inr (Or.inl ⟨rfl, hd⟩)⟩
      · constructor
        · intro hfou
          exact Or.inr ⟨(t.id, .undefined), by simp, by simpa [isFailure] using hfou⟩
        · rintro (h1 | ⟨e, he, hfe⟩)
          · exact absurd h1 haf
          · rcases List.mem_append.mp he with he | he
            · exact absurd hfe (hnof e he)
            · simp at he; subst he; simpa [isFailure] using hfe
      · intro ha; exact absurd ha haf
    | notExec =>
      refine ⟨⟨ns, hs, hsr⟩, ⟨nr ++ [(t.id, .notExecutable)], by simp [hr], ?_, ?_, ?_, fun _ _ _ => rfl⟩, fun ha => absurd ha haf⟩
      · intro e he
        rcases List.mem_append.mp he with he | he
        · exact hok e he
        · simp at he; subst he; exact ⟨t, ht, rfl, Or.inr (Or.inr ⟨rfl, hd⟩)⟩
      · constructor
        · intro _
          exact Or.inr ⟨(t.id, .notExecutable), by simp, by simp [isFailure]⟩
        · intro _; rfl
      · intro ha; exact absurd ha haf

theorem foldl_schedRel (fou : Bool) (g : Group) : ∀ (ts : List Task) (a b : Sched),
    (∀ t ∈ ts, t ∈ g) → SchedRel fou g a b → SchedRel fou g a (ts.foldl (schedMember fou) b) := by
  intro ts
  induction ts with
  | nil => intro a b _ h; exact h
  | cons t rest ih =>
    intro a b hsub h
    simp only [List.foldl_cons]
    exact ih a _ (fun x hx => hsub x (List.mem_cons_of_mem _ hx))
      (schedRel_step fou g a b t (hsub t List.mem_cons_self) h)

theorem schedGroup_rel (fou f : Bool) (g : Group) :
    SchedRel fou g { failed := f, spawns := [], results := [] } (schedGroup fou f g) :=
  foldl_schedRel fou g g _ _ (fun _ h => h) (schedRel_refl fou g _)

/-- the facts about one scheduled group used by the invariants -/
theorem schedGroup_facts (fou f : Bool) (g : Group) :
    (∀ i ∈ (schedGroup fou f g).spawns, ∃ t ∈ g, t.id = i ∧ t.disp = .run) ∧
    (∀ e ∈ (schedGroup fou f g).results, ∃ t ∈ g, t.id = e.1 ∧ EntryOk t e.2) ∧
    ((schedGroup fou f g).failed = true ↔
      f = true ∨ ∃ e ∈ (schedGroup fou f g).results, isFailure fou e.2 = true) ∧
    (f = true → (schedGroup fou f g).spawns = [] ∧ ∀ e ∈ (schedGroup fou f g).results, e.2 = .skipped) ∧
    (∀ e ∈ (schedGroup fou f g).results, e.2 = .skipped → (schedGroup fou f g).failed = true) := by
  obtain ⟨⟨ns, hs, hsr⟩, ⟨nr, hr, hok, hf, hsk, hks⟩, hl⟩ := schedGroup_rel fou f g
  simp only [List.nil_append] at hs hr
  refine ⟨by rw [hs]; exact hsr, by rw [hr]; exact hok, by rw [hr]; exact hf, ?_, by rw [hr]; exact hks⟩
  intro hf1
  exact ⟨hl hf1, by rw [hr]; exact hsk hf1⟩

/-! ### `advance` -/

theorem advance_perm (fou : Bool) : ∀ (rest : List Group) (gi : Nat) (f : Bool),
    ((advance fou rest gi f).spawns ++ rIds (advance fou rest gi f).results ++
      planIds (advance fou rest gi f).rest).Perm (planIds rest) := by
  intro rest
  induction rest with
  | nil => intro gi f; simp [advance, planIds, rIds]
  | cons g rest ih =>
    intro gi f
    simp only [advance]
    have hp := schedGroup_perm fou f g
    split
    · rename_i he
      have hnil : (schedGroup fou f g).spawns = [] := by simpa using he
      rw [hnil] at hp
      have := ih (gi + 1) (schedGroup fou f g).failed
      simp only [rIds, List.map_append, planIds, List.flatMap_cons] at this hp ⊢
      -- a.spawns ++ (r.ids ++ a.ids) ++ rest' ~ g.ids ++ rest.ids
      have h2 : ((advance fou rest (gi + 1) (schedGroup fou f g).failed).spawns ++
          (List.map (fun x => x.1) (schedGroup fou f g).results ++
            List.map (fun x => x.1) (advance fou rest (gi + 1) (schedGroup fou f g).failed).results) ++
          List.flatMap gIds (advance fou rest (gi + 1) (schedGroup fou f g).failed).rest).Perm
          (List.map (fun x => x.1) (schedGroup fou f g).results ++
            ((advance fou rest (gi + 1) (schedGroup fou f g).failed).spawns ++
              List.map (fun x => x.1) (advance fou rest (gi + 1) (schedGroup fou f g).failed).results ++
              List.flatMap gIds (advance fou rest (gi + 1) (schedGroup fou f g).failed).rest)) := by
        simp only [List.append_assoc]
        exact List.perm_append_comm_assoc _ _ _
      refine h2.trans ?_
      exact List.Perm.append (by simpa using hp) this
    · simp only [planIds, List.flatMap_cons]
      exact List.Perm.append_right _ hp

theorem advance_facts (fou : Bool) : ∀ (rest : List Group) (gi : Nat) (f : Bool),
    (∀ i ∈ (advance fou rest gi f).spawns, ∃ g ∈ rest, ∃ t ∈ g, t.id = i ∧ t.disp = .run) ∧
    (∀ e ∈ (advance fou rest gi f).results, ∃ g ∈ rest, ∃ t ∈ g, t.id = e.1 ∧ EntryOk t e.2) ∧
    ((advance fou rest gi f).failed = true ↔
      f = true ∨ ∃ e ∈ (advance fou rest gi f).results, isFailure fou e.2 = true) ∧
    (f = true → (advance fou rest gi f).spawns = [] ∧ (advance fou rest gi f).rest = [] ∧
      ∀ e ∈ (advance fou rest gi f).results, e.2 = .skipped) ∧
    ((advance fou rest gi f).spawns = [] → (advance fou rest gi f).rest = []) ∧
    gi ≤ (advance fou rest gi f).gidx := by
  intro rest
  induction rest with
  | nil => intro gi f; simp [advance]
  | cons g rest ih =>
    intro gi f
    obtain ⟨s1, s2, s3, s4, s5⟩ := schedGroup_facts fou f g
    simp only [advance]
    split
    · rename_i he
      obtain ⟨a1, a2, a3, a4, a5, a6⟩ := ih (gi + 1) (schedGroup fou f g).failed
      refine ⟨?_, ?_, ?_, ?_, a5, by simp only []; omega⟩
      · intro i hi
        obtain ⟨g', hg', t, ht, h⟩ := a1 i hi
        exact ⟨g', List.mem_cons_of_mem _ hg', t, ht, h⟩
      · intro e he'
        rcases List.mem_append.mp he' with h | h
        · obtain ⟨t, ht, h⟩ := s2 e h
          exact ⟨g, List.mem_cons_self, t, ht, h⟩
        · obtain ⟨g', hg', t, ht, h⟩ := a2 e h
          exact ⟨g', List.mem_cons_of_mem _ hg', t, ht, h⟩
      · simp only []
        rw [a3, s3]
        constructor
        · rintro ((h | ⟨e, he', hf⟩) | ⟨e, he', hf⟩)
          · exact Or.inl h
          · exact Or.inr ⟨e, List.mem_append_left _ he', hf⟩
          · exact Or.inr ⟨e, List.mem_append_right _ he', hf⟩
        · rintro (h | ⟨e, he', hf⟩)
          · exact Or.inl (Or.inl h)
          · rcases List.mem_append.mp he' with h | h
            · exact Or.inl (Or.inr ⟨e, h, hf⟩)
            · exact Or.inr ⟨e, h, hf⟩
      · intro hf
        have hsf : (schedGroup fou f g).failed = true := s3.mpr (Or.inl hf)
        obtain ⟨b1, b2, b3⟩ := a4 hsf
        refine ⟨b1, b2, ?_⟩
        intro e he'
        rcases List.mem_append.mp he' with h | h
        · exact (s4 hf).2 e h
        · exact b3 e h
    · rename_i he
      refine ⟨?_, ?_, s3, ?_, ?_, Nat.le_refl _⟩
      · intro i hi
        obtain ⟨t, ht, h⟩ := s1 i hi
        exact ⟨g, List.mem_cons_self, t, ht, h⟩
      · intro e he'
        obtain ⟨t, ht, h⟩ := s2 e he'
        exact ⟨g, List.mem_cons_self, t, ht, h⟩
      · intro hf
        exact absurd (by simp [(s4 hf).1]) he
      · intro hnil
        have hn : (schedGroup fou f g).spawns = [] := hnil
        exact absurd (by simp [hn]) he

theorem advance_failed_mono (fou : Bool) (rest : List Group) (gi : Nat) (f : Bool) (hf : f = true) :
    (advance fou rest gi f).failed = true :=
  ((advance_facts fou rest gi f).2.2.1).mpr (Or.inl hf)

theorem advance_skipped (fou : Bool) : ∀ (rest : List Group) (gi : Nat) (f : Bool),
    ∀ e ∈ (advance fou rest gi f).results, e.2 = .skipped → (advance fou rest gi f).failed = true := by
  intro rest
  induction rest with
  | nil => intro gi f e he; simp [advance] at he
  | cons g rest ih =>
    intro gi f e he hsk
    obtain ⟨_, _, _, _, s5⟩ := schedGroup_facts fou f g
    simp only [advance] at he ⊢
    split at he
    · rename_i hempty
      simp only [hempty, if_true]
      rcases List.mem_append.mp he with h | h
      · exact advance_failed_mono fou rest (gi + 1) _ (s5 e h hsk)
      · exact ih (gi + 1) _ e h hsk
    · rename_i hempty
      simp only [hempty]
      exact s5 e he hsk

end Monorail
