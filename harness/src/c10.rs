//! C10: `Index::new` adjacency vs the Lean model `adjacency`, and vs the Lean oracle (spec on
//! path components) evaluated on the implementation's own output.
use crate::ctx::{classify, Ctx};
use crate::gen::{self, ConfigCase, GenOpts};
use serde_json::{json, Value};

#[derive(Debug, Clone, PartialEq)]
pub enum Obs {
    Ok(Vec<Vec<usize>>),
    Err(&'static str),
}

/// Parse `render_dotfile` output: node lines, edge lines, and nothing else but the fixed frame.
pub fn parse_dot(dot: &str, cfg: &ConfigCase) -> Result<Vec<Vec<usize>>, String> {
    let n = cfg.targets.len();
    let mut adj = vec![vec![]; n];
    let mut nodes = vec![];
    for line in dot.lines() {
        let l = line.trim();
        if l.is_empty() || l == "digraph DAG {" || l == "}" || l.starts_with("//")
            || l == "node [shape=circle, style=filled, color=lightblue];"
            || l == "edge [color=gray];" {
            continue;
        }
        let body = l.strip_suffix(';').ok_or_else(|| format!("unexpected line {:?}", l))?;
        if let Some((a, b)) = body.split_once(" -> ") {
            let a: usize = a.parse().map_err(|_| format!("bad edge {:?}", l))?;
            let b: usize = b.parse().map_err(|_| format!("bad edge {:?}", l))?;
            if a >= n || b >= n {
                return Err(format!("edge to unknown node {:?}", l));
            }
            if adj[a].contains(&b) {
                return Err(format!("duplicate edge {:?}", l));
            }
            adj[a].push(b);
        } else if let Some((i, rest)) = body.split_once(" [label=\"") {
            let i: usize = i.parse().map_err(|_| format!("bad node {:?}", l))?;
            let label = rest.strip_suffix("\"]").ok_or_else(|| format!("bad node {:?}", l))?;
            nodes.push((i, label.to_string()));
        } else {
            return Err(format!("unexpected line {:?}", l));
        }
    }
    let want: Vec<(usize, String)> = cfg.targets.iter().enumerate().map(|(i, t)| (i, t.path.clone())).collect();
    if nodes != want {
        return Err(format!("node lines {:?} are not one per configured target", nodes));
    }
    for a in adj.iter_mut() {
        a.sort();
    }
    Ok(adj)
}

pub fn eval_impl(ctx: &mut Ctx, cfg: &ConfigCase) -> Obs {
    let work = ctx.scratch.case_dir();
    cfg.materialise(&work);
    let r = monorail::verif::index_render(&cfg.to_config_json(), &work);
    ctx.scratch.done(&work);
    match r {
        Ok(dot) => match parse_dot(&dot, cfg) {
            Ok(adj) => Obs::Ok(adj),
            Err(e) => {
                ctx.report.notes.push(format!("render: {}", e));
                Obs::Err("render")
            }
        },
        Err(e) => Obs::Err(classify(&e)),
    }
}

pub enum Verdict {
    Pass,
    OracleFail(Value),
    Disagree(Value),
}

pub fn judge(ctx: &mut Ctx, cfg: &ConfigCase) -> (Verdict, Obs, Value) {
    let obs = eval_impl(ctx, cfg);
    if obs == Obs::Err("render") {
        let detail = json!({
            "kind": "target render output is not exactly one node per target and one edge per dependency",
            "config": cfg.to_model(),
            "detail": ctx.report.notes.last(),
        });
        return (Verdict::OracleFail(detail), obs, json!({"wf": false, "oracle": "fail"}));
    }
    let mut req = json!({"op": "c10", "targets": cfg.to_model()});
    if let Obs::Ok(adj) = &obs {
        req["obs"] = json!(adj);
    }
    let resp = ctx.model.ask(&req);
    let model = &resp["model"];
    let model_obs = if let Some(ok) = model.get("ok") {
        Obs::Ok(serde_json::from_value(ok.clone()).unwrap())
    } else {
        match model["err"].as_str().unwrap() {
            "dup_label" => Obs::Err("dup_label"),
            "cycle" => Obs::Err("cycle"),
            _ => Obs::Err("other"),
        }
    };
    if resp["oracle"] == "fail" {
        let w = &resp["witness"];
        let (i, j) = (w[0].as_u64().unwrap() as usize, w[1].as_u64().unwrap() as usize);
        let detail = json!({
            "kind": "dependency relation differs from the declared one",
            "config": cfg.to_model(),
            "target": cfg.targets[i].path, "other": cfg.targets[j].path,
            "implementation_adjacency": format!("{:?}", obs),
            "expected": "edge present iff `other` encloses `target` or one of its uses, on whole components",
        });
        return (Verdict::OracleFail(detail), obs, resp);
    }
    if model_obs != obs {
        let detail = json!({
            "kind": "model and implementation adjacency differ",
            "config": cfg.to_model(),
            "model": format!("{:?}", model_obs),
            "implementation": format!("{:?}", obs),
            "wf": resp["wf"],
        });
        return (Verdict::Disagree(detail), obs, resp);
    }
    (Verdict::Pass, obs, resp)
}

fn shrink(ctx: &mut Ctx, cfg: &ConfigCase, want_oracle: bool) -> ConfigCase {
    let mut cur = cfg.clone();
    'outer: loop {
        for cand in gen::shrink_config(&cur) {
            let (v, _, _) = judge(ctx, &cand);
            let keep = match v {
                Verdict::OracleFail(_) => want_oracle,
                Verdict::Disagree(_) => !want_oracle,
                Verdict::Pass => false,
            };
            if keep {
                cur = cand;
                continue 'outer;
            }
        }
        return cur;
    }
}

fn handle_case(ctx: &mut Ctx, cfg: &ConfigCase, origin: &str) {
    ctx.report.evaluations += 1;
    let (v, obs, resp) = judge(ctx, cfg);
    match &obs {
        Obs::Ok(adj) => {
            let edges: usize = adj.iter().map(|a| a.len()).sum();
            ctx.report.count(&format!("edges_{}", edges.min(6)));
            if cfg.targets.len() >= 2 && edges >= 1 && resp["wf"] == true {
                ctx.report.nontrivial_case(&cfg.to_model());
            }
        }
        Obs::Err(k) => ctx.report.count(&format!("impl_err_{}", k)),
    }
    ctx.report.count(&format!("targets_{}", cfg.targets.len().min(12)));
    ctx.report.count(if resp["wf"] == true { "wf" } else { "not_wf" });
    ctx.report.count(&format!("oracle_{}", resp["oracle"].as_str().unwrap_or("?")));
    ctx.report.count(&format!("origin_{}", origin));
    ctx.report.sample(json!({"config": cfg.to_model(), "implementation": format!("{:?}", obs)}));
    match v {
        Verdict::Pass => {}
        Verdict::OracleFail(_) => {
            if ctx.report.oracle_failures.len() < 5 {
                let small = shrink(ctx, cfg, true);
                if let (Verdict::OracleFail(d), _, _) = judge(ctx, &small) {
                    ctx.report.oracle_failures.push(d);
                }
            }
            ctx.report.count("oracle_failures");
        }
        Verdict::Disagree(_) => {
            if ctx.report.disagreements.len() < 5 {
                let small = shrink(ctx, cfg, false);
                if let (Verdict::Disagree(d), _, _) = judge(ctx, &small) {
                    ctx.report.disagreements.push(d);
                }
            }
            ctx.report.count("disagreements");
        }
    }
}

/// every configuration of ≤ `n` targets over a small universe of paths and uses
fn exhaustive(ctx: &mut Ctx, n: usize) {
    let paths = ["a", "ab", "a/b", "a/b/c", "ab/c", "b", "b/"];
    let uses = ["", "a", "ab", "a/b/f", "b/x", "abc", "b", "b/"];
    let mut count = 0u64;
    // choose n distinct paths in every order, each with one uses choice
    let mut idx = vec![0usize; n];
    loop {
        let distinct = (0..n).all(|i| (0..i).all(|j| idx[i] != idx[j]));
        if distinct {
            let mut u = vec![0usize; n];
            loop {
                let cfg = ConfigCase {
                    targets: (0..n)
                        .map(|k| gen::TargetSpec {
                            path: paths[idx[k]].to_string(),
                            uses: if uses[u[k]].is_empty() { vec![] } else { vec![uses[u[k]].to_string()] },
                            ignores: vec![],
                        })
                        .collect(),
                };
                handle_case(ctx, &cfg, "exhaustive");
                count += 1;
                let mut k = 0;
                while k < n {
                    u[k] += 1;
                    if u[k] < uses.len() { break; }
                    u[k] = 0;
                    k += 1;
                }
                if k == n { break; }
            }
        }
        let mut k = 0;
        while k < n {
            idx[k] += 1;
            if idx[k] < paths.len() { break; }
            idx[k] = 0;
            k += 1;
        }
        if k == n { break; }
    }
    ctx.report.exhaustive.push(format!(
        "all ordered choices of {} distinct target paths from {:?}, each with one uses entry from {:?}: {} configurations",
        n, paths, uses, count
    ));
}

pub fn run(ctx: &mut Ctx) {
    // corpus first
    for c in crate::corpus::load(&ctx.corpus_dir, "C10") {
        let cfg = ConfigCase::from_model(&c["config"]);
        handle_case(ctx, &cfg, "corpus");
    }
    if ctx.budget == 0 {
        return; // replay mode: corpus only
    }
    exhaustive(ctx, 2);
    if ctx.thorough {
        exhaustive(ctx, 3);
    }
    let n = if ctx.thorough { 40_000 } else { 3_000 } * ctx.budget;
    let opts = GenOpts { max_targets: if ctx.thorough { 40 } else { 12 }, allow_dups: true, allow_odd: true, allow_slash: true };
    for _ in 0..n {
        let mut r = ctx.rng.fork();
        let cfg = gen::config(&mut r, &opts);
        handle_case(ctx, &cfg, "random");
    }
}
