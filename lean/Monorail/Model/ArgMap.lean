/-!
# `run`'s argument table (`ArgMap`) and executable resolution

`Table` mirrors `ArgMap.table : HashMap<target, HashMap<command, Vec<arg>>>` as association lists;
`mergeCmd` is `entry(command).or_default().append(args)`, `mergeTarget` is
`entry(target).or_default()` followed by one `mergeCmd` per key of the source file.
An argmap file is an association list `command ↦ args` with distinct keys (a JSON object after
`serde_json` parsing). Import-free.
-/
namespace Monorail

abbrev CmdArgs := List (String × List String)
abbrev Table := List (String × CmdArgs)

def lookupArgs (m : CmdArgs) (c : String) : List String :=
  match m with
  | [] => []
  | (k, v) :: rest => if k = c then v else lookupArgs rest c

/-- `self_commands.entry(c).or_default().append(args)` -/
def mergeCmd (dst : CmdArgs) (c : String) (args : List String) : CmdArgs :=
  match dst with
  | [] => [(c, args)]
  | (k, v) :: rest => if k = c then (k, v ++ args) :: rest else (k, v) :: mergeCmd rest c args

/-- merge one source map (the content of one argmap file) into a command map -/
def mergeFile (dst : CmdArgs) (src : CmdArgs) : CmdArgs :=
  src.foldl (fun d kv => mergeCmd d kv.1 kv.2) dst

/-- `ArgMap::merge` for a single target key -/
def mergeTarget (tbl : Table) (t : String) (src : CmdArgs) : Table :=
  match tbl with
  | [] => [(t, mergeFile [] src)]
  | (k, m) :: rest => if k = t then (k, mergeFile m src) :: rest else (k, m) :: mergeTarget rest t src

/-- `ArgMap::get_args` (a missing entry and an empty list both mean "no arguments") -/
def getArgs (tbl : Table) (t c : String) : List String :=
  match tbl with
  | [] => []
  | (k, m) :: rest => if k = t then lookupArgs m c else getArgs rest t c

/-- what `run` was asked -/
structure ArgInput where
  useBase : Bool
  argmaps : List String          -- `--argmaps`, in the order given
  args : List String             -- `--args`
  commands : List String         -- `--commands` (sequences not included, as in the code)
  namedTargets : List String     -- `-t`

/-- the file an argmap name stands for inside the target's argmap directory: `format!("{}.json", m)`
(appended, not substituted: a name may contain dots) -/
def argmapFile (n : String) : String := n ++ ".json"

/-- the argmap files of a target: name ↦ parsed content, `none` when the file does not exist -/
abbrev TargetFiles := String → Option CmdArgs

/-- `merge_target_argmaps` for one target: base first (unless disabled), then each requested name -/
def mergeTargetArgmaps (inp : ArgInput) (tbl : Table) (t : String) (files : TargetFiles) : Table :=
  let names := (if inp.useBase then ["base"] else []) ++ inp.argmaps
  names.foldl (fun tb n => match files n with
    | some src => mergeTarget tb t src
    | none => tb) tbl

inductive ArgErr where
  | argsManyCommands
  | argsManyTargets
deriving Repr, DecidableEq

/-- `merge_run_input`: `--args` needs exactly one command and exactly one named target -/
def mergeRunInput (inp : ArgInput) (tbl : Table) : Except ArgErr Table :=
  if inp.args.isEmpty then .ok tbl
  else if inp.commands.length != 1 then .error .argsManyCommands
  else match inp.namedTargets with
    | [t] => .ok (mergeTarget tbl t [(inp.commands.headD "", inp.args)])
    | _ => .error .argsManyTargets

/-- the whole table `handle_run` builds for the targets taking part (in the order visited) -/
def buildTable (inp : ArgInput) (targets : List String) (files : String → TargetFiles) :
    Except ArgErr Table :=
  mergeRunInput inp (targets.foldl (fun tb t => mergeTargetArgmaps inp tb t (files t)) [])

/-- the entry of argmap file `n` for command `c`; a file that does not exist contributes nothing -/
def fileEntry (files : TargetFiles) (c n : String) : List String :=
  match files n with
  | some src => lookupArgs src c
  | none => []

/-- SPEC: the documented argument list of `(target, command)` -/
def argvSpec (inp : ArgInput) (files : String → TargetFiles) (t c : String) : List String :=
  ((if inp.useBase then ["base"] else []) ++ inp.argmaps).flatMap (fileEntry (files t) c) ++
    (if inp.namedTargets = [t] ∧ inp.commands = [c] then inp.args else [])

/-! ## executable resolution -/

/-- `get_plan`'s choice: the definition's path when one is given and non-empty (relative to the
repository root), otherwise the first file of the commands directory whose stem is the command -/
def resolveCommand (defPath : Option String) (dirFiles : List (String × String)) (c : String) :
    Option String :=
  match defPath with
  | some p => if p ≠ "" then some p else (dirFiles.find? (fun f => f.1 = c)).map (·.2)
  | none => (dirFiles.find? (fun f => f.1 = c)).map (·.2)

end Monorail
