import Monorail.Driver.Util
import Monorail.Model.ArgMap
open Lean
namespace Monorail.Driver

def strsOf (a : Array Json) : Except String (List String) := a.toList.mapM (fun x => x.getStr?)

def cmdArgsOf (j : Json) : Except String CmdArgs := do
  let o ← j.getObj?
  o.toList.mapM (fun (k, v) => do let a ← v.getArr?; let l ← strsOf a; pure (k, l))

def jStrs (l : List String) : Json := Json.arr (l.map Json.str).toArray

/-- request {"op":"c11","useBase":b,"argmaps":[..],"args":[..],"commands":[..],"named":[..],
             "targets":[..],"files":{"<target>":{"<name>":{"<cmd>":[..]}}},"query":[[t,c]..]} -/
def handleC11 (j : Json) : Except String Json := do
  let inp : ArgInput := {
    useBase := (← getBool j "useBase"),
    argmaps := (← strsOf (← getArr j "argmaps")),
    args := (← strsOf (← getArr j "args")),
    commands := (← strsOf (← getArr j "commands")),
    namedTargets := (← strsOf (← getArr j "named")) }
  let targets ← strsOf (← getArr j "targets")
  let filesJ ← j.getObjVal? "files"
  let filesO ← filesJ.getObj?
  let table : List (String × List (String × CmdArgs)) ← filesO.toList.mapM (fun (t, v) => do
    let o ← v.getObj?
    let fs ← o.toList.mapM (fun (n, c) => do let ca ← cmdArgsOf c; pure (n, ca))
    pure (t, fs))
  let files : String → TargetFiles := fun t n =>
    match table.find? (fun e => e.1 = t) with
    | some e => (e.2.find? (fun f => f.1 = n)).map (·.2)
    | none => none
  let query ← (← getArr j "query").toList.mapM (fun q => do
    let a ← q.getArr?
    let t ← (a[0]!).getStr?
    let c ← (a[1]!).getStr?
    pure (t, c))
  let spec := query.map (fun (t, c) => argvSpec inp files t c)
  let model : Json := match buildTable inp targets files with
    | .ok tbl => Json.mkObj [("ok", Json.arr (query.map (fun (t, c) => jStrs (getArgs tbl t c))).toArray)]
    | .error .argsManyCommands => Json.mkObj [("err", Json.str "args_commands")]
    | .error .argsManyTargets => Json.mkObj [("err", Json.str "args_targets")]
  pure (Json.mkObj [("model", model), ("spec", Json.arr (spec.map jStrs).toArray)])

end Monorail.Driver
