import Monorail.Model.ConfigLoad
/-!
# C17 — a generated config is usable iff source, output and lockfile are untouched
-/
namespace Monorail

variable {V : Type}

/-- the printer and the parser agree on what `generate` writes -/
def Faithful (render : V → Nat → FileBytes) (parse : FileBytes → Option (ParsedCfg V)) (srcId : Nat) : Prop :=
  ∀ v c, parse (render v c) = some { value := v, hasSource := true, sourcePath := srcId, sourceChecksum := some c }

/-- **C17 (accept).** After `config generate`, as long as the source file, the generated file and
the lockfile are what `generate` read and wrote, loading + checking succeeds — for sources and
generated files of every size (the whole file is read). -/
theorem c17_accept (H : FileBytes → Nat) (render : V → Nat → FileBytes)
    (parse : FileBytes → Option (ParsedCfg V)) (srcId : Nat) (hf : Faithful render parse srcId)
    (v : V) (d d' : Disk) (hg : generate H render v srcId d = some d') :
    loadAndCheck H parse d' = .ok v := by
  unfold generate at hg
  cases hs : d.sources srcId with
  | none => simp [hs] at hg
  | some src =>
    simp only [hs] at hg
    cases hg
    have hp := hf v (H src)
    simp [loadAndCheck, readAll, hp, hs]

/-- **C17 (source edits are detected).** If the source file's bytes change in any way (any offset,
truncation, append) and `H` is collision free, every API that loads the configuration fails. -/
theorem c17_detect_source (H : FileBytes → Nat) (hinj : Function.Injective H)
    (render : V → Nat → FileBytes) (parse : FileBytes → Option (ParsedCfg V)) (srcId : Nat)
    (hf : Faithful render parse srcId) (v : V) (d d' : Disk)
    (hg : generate H render v srcId d = some d') (src src' : FileBytes)
    (hsrc : d.sources srcId = some src) (hne : src' ≠ src) :
    ∃ e, loadAndCheck H parse { d' with sources := fun i => if i = srcId then some src' else d'.sources i } = .error e := by
  unfold generate at hg
  simp only [hsrc] at hg
  cases hg
  have : H src' ≠ H src := fun e => hne (hinj e)
  have hp := hf v (H src)
  exact ⟨.sourceModified, by simp [loadAndCheck, readAll, hp, this]⟩

/-- **C17 (a removed source is detected).** -/
theorem c17_detect_source_missing (H : FileBytes → Nat)
    (render : V → Nat → FileBytes) (parse : FileBytes → Option (ParsedCfg V)) (srcId : Nat)
    (hf : Faithful render parse srcId) (v : V) (d d' : Disk)
    (hg : generate H render v srcId d = some d') :
    loadAndCheck H parse { d' with sources := fun i => if i = srcId then none else d'.sources i } = .error .sourceMissing := by
  unfold generate at hg
  cases hs : d.sources srcId with
  | none => simp [hs] at hg
  | some src =>
    simp only [hs] at hg
    cases hg
    have hp := hf v (H src)
    simp [loadAndCheck, readAll, hp]

/-- **C17 (edits of the generated file are detected).** If the generated file's bytes change in any
way and `H` is collision free, loading fails: either the file no longer parses, or — as long as it
still declares a source, which no single-byte edit, truncation or append can undo — one of the two
checksum comparisons fails. -/
theorem c17_detect_generated (H : FileBytes → Nat) (hinj : Function.Injective H)
    (render : V → Nat → FileBytes) (parse : FileBytes → Option (ParsedCfg V)) (srcId : Nat)
    (v : V) (d d' : Disk) (hg : generate H render v srcId d = some d') (gen' : FileBytes)
    (hne : some gen' ≠ d'.generated)
    (hsrc : ∀ cfg, parse gen' = some cfg → cfg.hasSource = true) :
    ∃ e, loadAndCheck H parse { d' with generated := some gen' } = .error e := by
  unfold generate at hg
  cases hs : d.sources srcId with
  | none => simp [hs] at hg
  | some src =>
    simp only [hs] at hg
    cases hg
    have hne' : gen' ≠ render v (H src) := fun e => hne (by simp [e])
    cases hp : parse gen' with
    | none => exact ⟨.invalid, by simp [loadAndCheck, readAll, hp]⟩
    | some cfg =>
      have hhas := hsrc cfg hp
      cases hsrc2 : d.sources cfg.sourcePath with
      | none => exact ⟨.sourceMissing, by simp [loadAndCheck, readAll, hp, hhas, hsrc2]⟩
      | some s3 =>
        cases hck : cfg.sourceChecksum with
        | none => exact ⟨.noChecksum, by simp [loadAndCheck, readAll, hp, hhas, hsrc2, hck]⟩
        | some rs =>
          by_cases h1 : H s3 = rs
          · have h2 : H gen' ≠ H (render v (H src)) := fun e => hne' (hinj e)
            exact ⟨.generatedModified, by simp [loadAndCheck, readAll, hp, hhas, hsrc2, hck, h1, h2]⟩
          · exact ⟨.sourceModified, by simp [loadAndCheck, readAll, hp, hhas, hsrc2, hck, h1]⟩

/-- **C17 (an edited lockfile checksum is detected).** -/
theorem c17_detect_lock (H : FileBytes → Nat)
    (render : V → Nat → FileBytes) (parse : FileBytes → Option (ParsedCfg V)) (srcId : Nat)
    (hf : Faithful render parse srcId) (v : V) (d d' : Disk)
    (hg : generate H render v srcId d = some d') (lk' : Nat) (hne : some lk' ≠ d'.lock) :
    loadAndCheck H parse { d' with lock := some lk' } = .error .generatedModified := by
  unfold generate at hg
  cases hs : d.sources srcId with
  | none => simp [hs] at hg
  | some src =>
    simp only [hs] at hg
    cases hg
    have : H (render v (H src)) ≠ lk' := fun e => hne (by simp [e])
    have hp := hf v (H src)
    simp [loadAndCheck, readAll, hp, hs, this]

/-- **C17 (no action on failure).** Every API other than `config generate` checks before it acts:
when loading or checking fails, the action is not performed. -/
theorem c17_no_action {A : Type} (H : FileBytes → Nat) (parse : FileBytes → Option (ParsedCfg V)) (d : Disk)
    (action : V → A) (e : LoadErr) (h : loadAndCheck H parse d = .error e) :
    handle H parse d action = .error e := by
  simp [handle, h]

/-! ## The unrepaired loader rejected every generated file larger than its buffer -/
example : fillBufOnce 8192 (List.replicate 9000 32) ≠ readAll (List.replicate 9000 32) := by
  intro h
  have h1 : (fillBufOnce 8192 (List.replicate 9000 32)).length = 8192 := by
    unfold fillBufOnce
    rw [List.length_take, List.length_replicate]
    decide
  have h2 : (readAll (List.replicate 9000 32)).length = 9000 := by
    unfold readAll
    rw [List.length_replicate]
  rw [h, h2] at h1
  omega

/-! ## Non-vacuity: a toy instance (identity-like digest, printer = parser inverse) -/
example :
    let H : FileBytes → Nat := fun b => b.foldl (fun a x => a * 257 + x + 1) 0
    let render : Nat → Nat → FileBytes := fun v c => [v, c]
    let parse : FileBytes → Option (ParsedCfg Nat) := fun b => match b with
      | [v, c] => some { value := v, hasSource := true, sourcePath := 0, sourceChecksum := some c }
      | _ => none
    let d : Disk := { generated := none, sources := fun i => if i = 0 then some [1, 2, 3] else none, lock := none }
    (generate H render 7 0 d).map (fun d' => (match loadAndCheck H parse d' with | .ok v => some v | .error _ => none)) = some (some 7) := by
  decide

end Monorail
