import Monorail.Model.Path
/-!
# The index built by `core::Index::new`

`Config` is the list of targets in declaration order. `deps cfg i` mirrors the second pass of
`Index::new`: the trie hits of the target's own path (minus itself), then for each `uses` entry the
trie hits of that entry written with one trailing separator (minus itself), mapped to node numbers through `label2node`, sorted and
de-duplicated (`nodes.sort(); nodes.dedup()`).
-/
namespace Monorail

structure Target where
  path : Path
  uses : List Path
  ignores : List Path
deriving Repr, DecidableEq

abbrev Config := List Target

/-- `label2node`: the declaration index of the target with this path -/
def indexOf? (cfg : Config) (p : Path) : Option Nat :=
  match cfg with
  | [] => none
  | t :: ts => if t.path = p then some 0 else (indexOf? ts p).map (· + 1)

/-- `Index::new` rejects a configuration that declares a path twice (`DuplicateLabel`) -/
def hasDupPath : Config → Bool
  | [] => false
  | t :: ts => ts.any (fun u => u.path = t.path) || hasDupPath ts

/-- stored keys of `targets_trie` that survive `is_path_prefix` for query `q` -/
def searchTargets (cfg : Config) (q : Path) : List Path :=
  (cfg.map (·.path)).filter (fun k => hit k q)

/-- node numbers of the targets hit by `q`, except the target `self` -/
def hitNodes (cfg : Config) (q self : Path) : List Nat :=
  ((searchTargets cfg q).filter (fun k => k ≠ self)).filterMap (indexOf? cfg)

/-- insert into a strictly increasing list, dropping duplicates -/
def insertUniq (x : Nat) : List Nat → List Nat
  | [] => [x]
  | y :: ys => if x < y then x :: y :: ys else if x = y then y :: ys else y :: insertUniq x ys

/-- `sort(); dedup()` -/
def sortDedup (l : List Nat) : List Nat := l.foldr insertUniq []

/-- adjacency entry of target `i`: the nodes it depends on -/
def deps (cfg : Config) (i : Nat) : List Nat :=
  match cfg[i]? with
  | none => []
  | some t => sortDedup (hitNodes cfg t.path t.path ++ t.uses.flatMap (fun u => hitNodes cfg (slashQ u) t.path))

/-- the adjacency list of the whole graph -/
def adjacency (cfg : Config) : List (List Nat) := (List.range cfg.length).map (deps cfg)

inductive IndexErr where
  | dupLabel
  | cycle
deriving Repr, DecidableEq

/-- LEGACY adjacency (raw byte-prefix trie hits), kept for the documented counter-examples -/
def hitNodesLegacy (cfg : Config) (q self : Path) : List Nat :=
  (((cfg.map (·.path)).filter (fun k => hitLegacy k q)).filter (fun k => k ≠ self)).filterMap (indexOf? cfg)

def depsLegacy (cfg : Config) (i : Nat) : List Nat :=
  match cfg[i]? with
  | none => []
  | some t => sortDedup (hitNodesLegacy cfg t.path t.path ++ t.uses.flatMap (fun u => hitNodesLegacy cfg u t.path))

end Monorail
