import Monorail.Proofs.Graph
import Monorail.Props.C03
import Monorail.Spec.C03
import Monorail.Proofs.Dfs
/-!
# C09 — cyclic graphs are always rejected (graph level)
-/
namespace Monorail
open Relation

/-- **C09 (reject).** If some visible node lies on a cycle, grouping fails with the cycle error —
for every graph, every root set. (That it never hangs is by construction: `groups` is a total
function whose recursion is structural in the fuel, accepted by Lean's termination checker.) -/
theorem c09_reject (g : Graph) (hr : InRange g) (roots : List Nat) {v : Nat}
    (hv : v ∈ closure g roots) (hc : Reach1 g v v) : groups g roots = .error .cycle := by
  classical
  -- the nodes on a cycle through `v`
  let C := (List.range g.size).filter (fun x => decide (Reach1 g v x ∧ Reach1 g x v))
  have hvC : v ∈ C := by
    simp only [C, List.mem_filter, List.mem_range, decide_eq_true_eq]
    exact ⟨closure_lt g roots v hv, hc, hc⟩
  have hsub : ∀ x ∈ C, x ∈ closure g roots := by
    intro x hx
    simp only [C, List.mem_filter, List.mem_range, decide_eq_true_eq] at hx
    have hreach : Reach g v x := hx.2.1.to_reflTransGen
    exact (mem_closure g hr roots x).mpr (by
      obtain ⟨r, hrr, hlt, hrv⟩ := (mem_closure g hr roots v).mp hv
      exact ⟨r, hrr, hlt, hrv.trans hreach⟩)
  have hC : ∀ x ∈ C, ∃ u ∈ C, x ∈ g.out u := by
    intro x hx
    simp only [C, List.mem_filter, List.mem_range, decide_eq_true_eq] at hx
    obtain ⟨_, hvx, hxv⟩ := hx
    obtain ⟨u, hvu, hux⟩ := TransGen.tail'_iff.mp hvx
    refine ⟨u, ?_, hux⟩
    simp only [C, List.mem_filter, List.mem_range, decide_eq_true_eq]
    refine ⟨dep_lt g hux, ?_, TransGen.head hux hxv⟩
    rcases reflTransGen_iff_eq_or_transGen.mp hvu with rfl | h
    · exact hc
    · exact h
  have hleft := cyclic_left g (closure g roots) C (List.ne_nil_of_mem hvC) hsub hC
  rw [groups_eq]
  have : (layers g (closure g roots)).2.isEmpty = false := by
    cases hl : (layers g (closure g roots)).2 with
    | nil => exact absurd hl hleft
    | cons a t => rfl
  simp [this]

/-- the labeled order fails in the same way -/
theorem c09_reject_labeled (g : Graph) (hr : InRange g) (roots : List Nat) {v : Nat}
    (hv : v ∈ closure g roots) (hc : Reach1 g v v) : labeledGroups g roots = .error .cycle := by
  simp [labeledGroups, c09_reject g hr roots hv hc]

/-- **C03/C09 (dichotomy).** Grouping succeeds exactly when no visible node lies on a cycle. -/
theorem c09_iff (g : Graph) (hr : InRange g) (roots : List Nat) :
    (∃ gs, groups g roots = .ok gs) ↔ ∀ v ∈ closure g roots, ¬ Reach1 g v v := by
  constructor
  · rintro ⟨gs, hgs⟩ v hv hc
    rw [c09_reject g hr roots hv hc] at hgs
    cases hgs
  · intro h
    have := complete_of_noCycle g (closure g roots) (by
      intro v hv
      have hmem : v ∈ closure g roots := by
        obtain ⟨b, hb, _⟩ := TransGen.head'_iff.mp hv
        exact hb.1
      exact h v hmem (transGen_of_depOn hv))
    exact ⟨(layers g (closure g roots)).1, by simp [groups_eq, this]⟩

/-! ## Non-vacuity: a 3-cycle behind an acyclic entry node; an unrelated root is unaffected -/

/-- 0 → 1 → 2 → 3 → 1, node 4 isolated -/
def exCycle : Graph := ⟨[[1], [2], [3], [1], []]⟩

example : groups exCycle [0] = .error .cycle := by decide
example : groups exCycle [4] = .ok [[4]] := by decide

end Monorail

namespace Monorail
open Relation
/-! ## Lifted to configurations, and the oracle's cycle test is the specification -/

/-- **C09 (configurations).** For every well-formed configuration: if a requested target (or
anything it transitively depends on) lies on a dependency cycle — through `uses` alone or through
`uses` combined with nesting, both are edges by C10 — then grouping fails with the cycle error. -/
theorem c09_index_reject {cfg : Config} (hwf : WF cfg) (roots : List Nat) {v : Nat}
    (hv : v ∈ closure (graphOf cfg) roots) (hc : Reach1 (graphOf cfg) v v) :
    labeledGroups (graphOf cfg) roots = .error .cycle :=
  c09_reject_labeled (graphOf cfg) (graphOf_inRange hwf) roots hv hc

/-- **C09 (configurations, trailing separators).** -/
theorem c09_index_reject_dir {cfg : Config} (hwf : WFD cfg) (roots : List Nat) {v : Nat}
    (hv : v ∈ closure (graphOf cfg) roots) (hc : Reach1 (graphOf cfg) v v) :
    labeledGroups (graphOf cfg) roots = .error .cycle :=
  c09_reject_labeled (graphOf cfg) (graphOf_inRange_dir hwf) roots hv hc

/-- the oracle's test "`v` is reachable from one of its own dependencies" is "`v` lies on a cycle" -/
theorem reach1_iff_closure (g : Graph) (hr : InRange g) (v : Nat) :
    Reach1 g v v ↔ v ∈ closure g (g.out v) := by
  rw [mem_closure g hr]
  constructor
  · intro h
    obtain ⟨b, hb, hbv⟩ := TransGen.head'_iff.mp h
    exact ⟨b, hb, hr v b hb, hbv⟩
  · rintro ⟨b, hb, _, hbv⟩
    exact TransGen.head' hb hbv

theorem cyclicB_iff (g : Graph) (hr : InRange g) (vis : List Nat) :
    cyclicB g vis = true ↔ ∃ v ∈ vis, Reach1 g v v := by
  simp only [cyclicB, List.any_eq_true, List.contains_iff_mem]
  constructor
  · rintro ⟨v, hv, h⟩; exact ⟨v, hv, (reach1_iff_closure g hr v).mpr h⟩
  · rintro ⟨v, hv, h⟩; exact ⟨v, hv, (reach1_iff_closure g hr v).mp h⟩

/-- **C09 (model meets oracle).** The model fails exactly when the oracle's cycle test fires. -/
theorem c09_model_meets_oracle (g : Graph) (hr : InRange g) (roots : List Nat) :
    groups g roots = .error .cycle ↔ cyclicB g (closure g roots) = true := by
  rw [cyclicB_iff g hr]
  constructor
  · intro h
    by_contra hn
    have : ∀ v ∈ closure g roots, ¬ Reach1 g v v := fun v hv hc => hn ⟨v, hv, hc⟩
    obtain ⟨gs, hgs⟩ := (c09_iff g hr roots).mpr this
    rw [h] at hgs; cases hgs
  · rintro ⟨v, hv, hc⟩
    exact c09_reject g hr roots hv hc

/-- **C09 (the loop of the code).** The concrete counter / queue loop of `get_groups` (refined to
the abstract layering in `Proofs/Kahn.lean`) fails with the cycle error exactly when a node reachable
from the roots lies on a cycle. -/
theorem c09_kahn (g : Graph) (hr : InRange g) (roots : List Nat) :
    kahn g (closure g roots) = .error .cycle ↔ ∃ v ∈ closure g roots, Reach1 g v v := by
  rw [(kahn_groups g roots).1]
  constructor
  · intro h
    by_contra hn
    obtain ⟨gs, hgs⟩ := (c09_iff g hr roots).mpr (fun v hv hc => hn ⟨v, hv, hc⟩)
    rw [h] at hgs; cases hgs
  · rintro ⟨v, hv, hc⟩
    exact c09_reject g hr roots hv hc

/-- **C03 / C09 (the code path, end to end).** `Index::new`'s visibility walks from every requested
root (the concrete iterative depth-first walk with its `active` set, `Model/Dfs.lean`) followed by
the concrete counter / queue loop of `get_groups`:

* fails with the cycle error exactly when the abstract `groups` does - i.e. (by `c09_iff`) exactly
  when some node reachable from the roots lies on a cycle - whether the walk or the loop finds it;
* otherwise returns exactly what the loop returns on the reachability closure, which `c03_kahn`
  shows to be a partition of the closure in dependency order.

The walk's own loop terminates (its fuel is proved sufficient). -/
theorem c09_index_dfs (g : Graph) (hr : InRange g) (roots : List Nat) (hroots : ∀ r ∈ roots, r < g.size) :
    (indexGroups g roots = .error .cycle ↔ groups g roots = .error .cycle) ∧
    (∀ cs, indexGroups g roots = .ok cs → kahn g (closure g roots) = .ok cs) := by
  have hv := visibleOf_spec hr roots [] hroots List.nodup_nil
  unfold indexGroups
  generalize visibleOf g roots [] = res at hv
  cases hv with
  | ok vis' hmem hnd _ =>
    have hperm : vis'.Perm (closure g roots) := by
      apply (List.perm_ext_iff_of_nodup hnd (closure_nodup g roots)).mpr
      intro x
      rw [hmem x, mem_closure g hr roots x]
      constructor
      · rintro (hx | ⟨r, hrr, hx⟩)
        · cases hx
        · exact ⟨r, hrr, hroots r hrr, hx⟩
      · rintro ⟨r, hrr, _, hx⟩
        exact Or.inr ⟨r, hrr, hx⟩
    simp only
    rw [kahn_perm g hperm]
    exact ⟨(kahn_groups g roots).1, fun cs h => h⟩
  | cycle c hreach hcyc =>
    obtain ⟨r, hrr, hx⟩ := hreach
    have hc : c ∈ closure g roots := (mem_closure g hr roots c).mpr ⟨r, hrr, hroots r hrr, hx⟩
    have hg := c09_reject g hr roots hc hcyc
    refine ⟨?_, ?_⟩
    · simp [hg]
    · intro cs h; simp at h

/-- `a` uses a path inside `a/b`, which is nested in `a`: a cycle through uses + nesting -/
def exNestCycle : Config :=
  [ { path := [97], uses := [[97,47,98,47,120]], ignores := [] },
    { path := [97,47,98], uses := [], ignores := [] },
    { path := [99], uses := [], ignores := [] } ]

example : labeledGroups (graphOf exNestCycle) [0, 1, 2] = .error .cycle := by decide
example : labeledGroups (graphOf exNestCycle) [2] = .ok [[2]] := by decide
example : indexGroups (graphOf exNestCycle) [0, 1, 2] = .error .cycle ∧ indexGroups (graphOf exNestCycle) [2] = .ok [[2]] := by decide
/-- the pinned tree's walk (one `active` set, never cleared) reported a cycle for this diamond -/
example : setVisibleLegacy ⟨[[1, 2], [3], [3], []]⟩ 0 = .error (.cycle 3) ∧
    setVisible ⟨[[1, 2], [3], [3], []]⟩ [] 0 = .ok [2, 3, 1, 0] := by decide
/-- a diamond is not a cycle for the walk (the pinned tree's `active` set said it was) -/
example : indexGroups ⟨[[1, 2], [3], [3], []]⟩ [0] = .ok [[0], [2, 1], [3]] := by decide

end Monorail
