import Monorail.Props.C07
/-!
# C19 — the checkpoint store reflects the last update; without one everything is changed
-/
namespace Monorail

/-- an event of a history: a git operation, or an operation on the checkpoint store -/
inductive HistEv where
  | git (op : GitOp)
  | ck (op : CkOp)

structure HistSt where
  repo : GitRepo
  ck : Option Checkpoint          -- what `checkpoint show` returns (`none` = it fails)
  lastReturn : Option Checkpoint  -- what the most recent successful update returned, if no delete since

def histStep (s : HistSt) : HistEv → HistSt
  | .git op => { s with repo := applyGit s.repo op }
  | .ck (.update id p) =>
    let c := checkpointUpdate s.repo s.ck id p
    { s with ck := some c, lastReturn := some c }
  | .ck (.updateUnborn _) => s       -- `git rev-parse HEAD` fails: nothing is written
  | .ck .delete => { s with ck := none, lastReturn := none }
  | .ck .outDeleteAll => { s with ck := none, lastReturn := none }

def histRun (ign : Path → Bool) (evs : List HistEv) : HistSt :=
  evs.foldl histStep { repo := GitRepo.empty ign, ck := none, lastReturn := none }

/-- **C19 (show = last update).** After any sequence of updates (with and without `--id` /
`--pending`), deletes and out-deletes interleaved with commits and edits, `checkpoint show` returns
exactly what the most recent successful update returned — and fails when there has been none since
the last delete. -/
theorem c19_show (ign : Path → Bool) (evs : List HistEv) :
    (histRun ign evs).ck = (histRun ign evs).lastReturn := by
  unfold histRun
  have : ∀ s : HistSt, s.ck = s.lastReturn → (evs.foldl histStep s).ck = (evs.foldl histStep s).lastReturn := by
    induction evs with
    | nil => intro s h; exact h
    | cons e rest ih =>
      intro s h
      simp only [List.foldl_cons]
      apply ih
      cases e with
      | git op => exact h
      | ck op => cases op <;> first | rfl | exact h
  exact this _ rfl

/-- **C19 (HEAD is recorded).** Without `--id` an update records the commit HEAD resolves to at that
moment; with `--id` it records the given id. -/
theorem c19_head (r : GitRepo) (old : Option Checkpoint) (pending : Bool) :
    (checkpointUpdate r old none pending).id = some r.head ∧
    ∀ i, (checkpointUpdate r old (some i) pending).id = some i :=
  ⟨rfl, fun _ => rfl⟩

/-- **C19 (nothing to record).** An update without `--id` issued while HEAD resolves to no commit
(an orphan branch before its first commit, a repository without commits) fails and leaves the stored
checkpoint - and what `checkpoint show` returns - exactly as it was. -/
theorem c19_unborn (s : HistSt) (p : Bool) : histStep s (.ck (.updateUnborn p)) = s := rfl

/-- **C19 (delete).** After `checkpoint delete` or `out delete --all` there is no checkpoint, whatever
happened before. -/
theorem c19_delete (s : HistSt) :
    (histStep s (.ck .delete)).ck = none ∧ (histStep s (.ck .outDeleteAll)).ck = none := ⟨rfl, rfl⟩

/-- **C19 (without a checkpoint everything is changed).** `analyze` then reports every configured
target (sorted), whatever the repository looks like. -/
theorem c19_all_targets (cfg : Config) (t : Path) :
    t ∈ (analyzeAll cfg).targets ↔ ∃ T ∈ cfg, T.path = t := by
  simp [analyzeAll, mem_sortDedupBy]

theorem c19_all_sorted (cfg : Config) :
    (analyzeAll cfg).targets.Pairwise (fun a b => pathLt a b = true) :=
  sortDedupBy_sorted pathLt_strict _

/-! ## Non-vacuity -/
example :
    let evs := [HistEv.git (.write [97] 1), .git .addAll, .git .commit, .ck (.update none false),
      .git (.write [97] 2), .ck (.update (some 0) true), .git .commit]
    ((histRun (fun _ => false) evs).ck.map (·.id)) = some (some 0) ∧
    ((histRun (fun _ => false) (evs ++ [.ck .delete])).ck.isNone) := by decide

end Monorail
