import Monorail.Model.Path
import Monorail.Model.Sort
/-!
# An abstract git repository, the change provider, and the checkpoint store

Contents are abstract blobs (`Nat`, equal ids ⇔ equal bytes); SHA-256 is modelled as the identity on
blob ids (collision freeness is the assumption), a missing file has the empty digest. History is
linear (`commits`, HEAD = the last one). `known` lists every path ever written, without
duplicates, so that the path sets git prints are computable filters of it.

git commands as used by the (repaired) code:
* `git diff --name-only --no-renames -z <c>`      → `diffWork`   (working tree vs commit `c`)
* `git diff --name-only --no-renames -z <a> <b>`  → `diffCommits`
* `git ls-files --others --exclude-standard -z`   → `untracked`
* `git rev-parse HEAD`                            → `head`
-/
namespace Monorail

abbrev Blob := Nat
abbrev Tree := Path → Option Blob

structure GitRepo where
  known : List Path
  commits : List Tree
  index : Tree
  work : Tree
  ignored : Path → Bool

def GitRepo.empty (ignored : Path → Bool) : GitRepo :=
  { known := [], commits := [fun _ => none], index := fun _ => none, work := fun _ => none, ignored := ignored }

def GitRepo.head (r : GitRepo) : Nat := r.commits.length - 1

def GitRepo.tree (r : GitRepo) (c : Nat) : Tree := r.commits.getD c (fun _ => none)

def treeSet (t : Tree) (p : Path) (v : Option Blob) : Tree := fun q => if q = p then v else t q

inductive GitOp where
  | write (p : Path) (b : Blob)      -- create or modify a working-tree file
  | delete (p : Path)                -- remove it from the working tree
  | move (p q : Path)                -- rename in the working tree
  | addAll                           -- git add -A
  | add (p : Path)                   -- git add p
  | commit                           -- git commit (of the index)
deriving Repr, DecidableEq

def GitRepo.know (r : GitRepo) (p : Path) : List Path :=
  if r.known.contains p then r.known else r.known ++ [p]

def applyGit (r : GitRepo) : GitOp → GitRepo
  | .write p b => { r with known := r.know p, work := treeSet r.work p (some b) }
  | .delete p => { r with work := treeSet r.work p none }
  | .move p q =>
    match r.work p with
    | some b => { r with known := r.know q, work := treeSet (treeSet r.work p none) q (some b) }
    | none => r
  | .addAll =>
    -- stage every tracked path and every non-ignored working-tree file (deletions included)
    { r with index := fun p => if (r.index p).isSome || !r.ignored p then r.work p else r.index p }
  | .add p => { r with index := treeSet r.index p (r.work p) }
  | .commit => { r with commits := r.commits ++ [r.index] }

/-- what the working tree holds for a path git tracks (an untracked file counts as absent) -/
def GitRepo.workView (r : GitRepo) (p : Path) : Option Blob :=
  if (r.index p).isSome then r.work p else none

/-- paths git prints for `git diff --name-only <c>` -/
def GitRepo.diffWork (r : GitRepo) (c : Nat) : List Path :=
  r.known.filter (fun p => ((r.index p).isSome || (r.tree c p).isSome) && r.workView p != r.tree c p)

def GitRepo.diffCommits (r : GitRepo) (a b : Nat) : List Path :=
  r.known.filter (fun p => r.tree a p != r.tree b p)

def GitRepo.untracked (r : GitRepo) : List Path :=
  r.known.filter (fun p => (r.work p).isSome && (r.index p).isNone && !r.ignored p)

/-! ## checkpoint and change provider -/

/-- digest of the current working-tree content of a path (`get_file_checksum`; missing ⇒ empty) -/
def GitRepo.digest (r : GitRepo) (p : Path) : Option Blob := r.work p

structure Checkpoint where
  id : Option Nat                                   -- commit (none = the empty id of a default checkpoint)
  pending : Option (List (Path × Option Blob))      -- path ↦ digest recorded by `update --pending`

def pendingLookup (m : List (Path × Option Blob)) (p : Path) : Option (Option Blob) :=
  match m with
  | [] => none
  | (q, d) :: rest => if q = p then some d else pendingLookup rest p

/-- `get_git_diff_changes`: which diff is taken for (`--begin`, `--end`, checkpoint id) -/
def GitRepo.diffChanges (r : GitRepo) (ck : Checkpoint) (begin end_ : Option Nat) : List Path :=
  let b := match begin with | some x => some x | none => ck.id
  match b with
  | some a => match end_ with
    | some e => r.diffCommits a e
    | none => r.diffWork a
  | none => r.diffWork r.head

/-- insertion into a list sorted by byte order, keeping duplicates (`Vec::sort`) -/
def insertPath (p : Path) : List Path → List Path
  | [] => [p]
  | q :: qs => if pathLt q p then q :: insertPath p qs else p :: q :: qs

def sortPaths (l : List Path) : List Path := l.foldr insertPath []

/-- drop the paths whose current digest equals the one recorded in the pending map -/
def GitRepo.pendingFilter (r : GitRepo) (ck : Checkpoint) (all : List Path) : List Path :=
  match ck.pending with
  | some m => if m.isEmpty then all else all.filter (fun p => pendingLookup m p != some (r.digest p))
  | none => all

/-- `get_git_all_changes`: untracked first, then the diff, pending-filtered, sorted (no dedup) -/
def GitRepo.changes (r : GitRepo) (ck : Checkpoint) (begin end_ : Option Nat) : List Path :=
  sortPaths (r.pendingFilter ck (r.untracked ++ r.diffChanges ck begin end_))

/-- the checkpoint an update starts from: the stored one, or a fresh empty one -/
def baseCk (old : Option Checkpoint) : Checkpoint :=
  match old with
  | some c => c
  | none => { id := none, pending := none }

/-- the id an update records: the given one, else what HEAD resolves to -/
def newIdOf (r : GitRepo) (id : Option Nat) : Option Nat :=
  match id with
  | some i => some i
  | none => some r.head

/-- what `--pending` sees: all changes against a default checkpoint, i.e. [HEAD, working tree] -/
def GitRepo.pendingChanges (r : GitRepo) : List Path := r.changes { id := none, pending := none } none none

/-- `checkpoint update [-i id] [--pending]`: the old pending map is kept when `--pending` is absent or
nothing is pending -/
def checkpointUpdate (r : GitRepo) (old : Option Checkpoint) (id : Option Nat) (pending : Bool) : Checkpoint :=
  { id := newIdOf r id,
    pending :=
      if pending && !r.pendingChanges.isEmpty then some (r.pendingChanges.map (fun p => (p, r.digest p)))
      else (baseCk old).pending }

inductive CkOp where
  | update (id : Option Nat) (pending : Bool)
  | updateUnborn (pending : Bool)   -- `update` without `--id` while HEAD resolves to no commit: fails
  | delete
  | outDeleteAll
deriving Repr, DecidableEq

end Monorail
