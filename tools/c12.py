#!/usr/bin/env python3
"""C12: latest-run addressing and bounded retention over run histories.

Real histories of `monorail run` (different commands / targets / outputs / failures per run) with
max_retained_runs in {1,2,3,5,10,11}, with and without a checkpoint (change-detected and
empty runs); after every run `result show`, `log show`, `log show --id N` for
every N and the run directory listing are compared with the Lean model of the store."""
import sys
import time
from concurrent.futures import ThreadPoolExecutor

import scen
import storeobs

TARGETS = [{"path": "app", "uses": ["lib"]}, {"path": "lib"}, {"path": "web"}, {"path": "tool x"}]
COMMANDS = ["build", "test", "lint"]


def history(seed, max_runs, length, model, rep):
    rng = scen.Rng(seed)
    use_ck = seed % 2 == 0     # half of the histories run with a checkpoint: runs without -t are change-detected
    repo = scen.Repo(TARGETS, max_retained_runs=max_runs, git=use_ck)
    case = {"seed": seed, "max": max_runs, "length": length}
    try:
        for t in TARGETS:
            for c in COMMANDS:
                if not (t["path"] == "web" and c == "lint"):   # one undefined pair
                    repo.install(t["path"], c)
        if use_ck:
            repo.commit_all()
            rc, j, out, err = repo.mono("checkpoint", "update")
            if rc != 0:
                rep.disagree({"kind": "checkpoint update failed", "case": case, "stderr": err[-300:]})
                return
        runs = []      # model runs: doc id = run number, logs keyed by small ints
        expect = []    # per run: (doc canonical, {key: content})
        keyids = {}
        for n in range(1, length + 1):
            cmds = sorted(set(rng.pick(COMMANDS) for _ in range(rng.range(1, 2))))
            named = []
            if rng.chance(1, 2):
                named = sorted(set(rng.pick(["app", "lib", "web"]) for _ in range(rng.range(1, 2))))
            plan = {}
            logs = {}
            will = named if named else [t["path"] for t in TARGETS]
            if use_ck and runs and rng.chance(1, 6):
                # the checkpoint is deleted (and taken again later): the recorded runs are not its business
                rcd, _, _, errd = repo.mono("checkpoint", "delete")
                rep.count("checkpoint_deleted")
                md = model.ask({"op": "store", "max": max_runs, "runs": runs})
                obs_d = storeobs.show_all(repo, max_runs)
                want_d = expect[md["resultShow"] - 1][0] if md["resultShow"] else None
                if obs_d["result"] != want_d:
                    rep.oracle_fail({"kind": "store read APIs disagree with the history", "case": case, "after_run": n - 1,
                                     "what": "result show is not the document of the most recent run after `checkpoint delete`",
                                     "observed": obs_d["result"], "expected": want_d})
                    return
                if rng.chance(1, 2):
                    repo.mono("checkpoint", "update")
            if use_ck and not named:
                # change-detected run: nothing changed since the checkpoint (an empty run, which is
                # still a completed run), or some targets edited just now
                if rng.chance(1, 2):
                    for t in sorted(set(rng.pick(TARGETS)["path"] for _ in range(rng.range(1, 2)))):
                        with open(repo.dir + "/" + t + "/file.txt", "a") as f:
                            f.write("edit before run %d\n" % n)
                else:
                    repo.git("checkout", "-q", "--", ".")
                rca, ja, _, erra = repo.mono("analyze")
                if rca != 0 or ja is None:
                    rep.disagree({"kind": "analyze failed", "case": case, "stderr": erra[-300:]})
                    return
                will = ja.get("targets", [])
                rep.count("change_detected_runs")
                if not will:
                    rep.count("empty_runs")
            for c in cmds:
                for t in will:
                    if t == "web" and c == "lint":
                        continue
                    s = {}
                    steps = []
                    if rng.chance(3, 4):
                        body = ("run %d %s %s out\n" % (n, c, t)).encode() * rng.range(1, 3)
                        steps.append([0, 1, body.hex()])
                        logs[("stdout", t, c)] = body
                    if rng.chance(1, 3):
                        body = ("run %d %s %s err" % (n, c, t)).encode()
                        steps.append([0, 2, body.hex()])
                        logs[("stderr", t, c)] = body
                    if steps:
                        s["steps"] = steps
                    plan["%s|%s" % (c, t)] = s
            # occasionally a failing run: it still completes and is recorded
            if rng.chance(1, 4) and plan:
                k = rng.pick(sorted(plan.keys()))
                plan[k]["exit"] = 3
            repo.set_plan(plan)
            if max_runs >= 2 and rng.chance(1, 6) and runs:
                # an invocation that errors out before executing anything is not a completed run:
                # the latest completed run must stay addressable (it does rebuild the next slot)
                rc, j, out, err = repo.mono("run", "-s", "no-such-sequence", "-c", "build")
                rep.count("aborted_invocations")
                runs.append({"doc": 0, "logs": [], "abort": True})
                expect.append((None, {}, set()))
                m = model.ask({"op": "store", "max": max_runs, "runs": runs})
                obs = storeobs.show_all(repo, max_runs)
                last = m["resultShow"]
                if rc != 2 or obs["result"] != (expect[last - 1][0] if last else None):
                    rep.oracle_fail({"kind": "an invocation that failed before executing changed what result show returns",
                                     "case": case, "after_event": n, "rc": rc, "observed": obs["result"],
                                     "expected": expect[last - 1][0] if last else None})
                    return
                continue
            args = ["run", "-c"] + cmds + (["-t"] + named if named else [])
            rc, j, out, err = repo.mono(*args)
            rep.evaluations += 1
            if rc not in (0, 1) or j is None:
                rep.disagree({"kind": "run failed unexpectedly", "case": case, "run": n, "rc": rc, "stderr": err[-300:]})
                return
            # a failure cancels the rest of its group: logs of tasks that did not run to completion are not compared
            started_ok = set()
            for r in j["results"]:
                for g in r["target_groups"]:
                    for t, e in g.items():
                        if e["status"] in ("success",) or (e["status"] == "error" and e.get("code") is not None):
                            started_ok.add((t, r["command"]))
            logs = {k: v for k, v in logs.items() if (k[1], k[2]) in started_ok}
            uncertain = {(s, t, c) for (t, c) in [(t, r["command"]) for r in j["results"] for g in r["target_groups"] for t, e in g.items()
                                                  if e["status"] == "error" and e.get("code") is None] for s in ("stdout", "stderr")}
            for k in logs:
                keyids.setdefault(k, len(keyids) + 1)
            runs.append({"doc": len(expect) + 1, "logs": [[keyids[k], n] for k in sorted(logs)]})
            expect.append((storeobs.canon_doc(j), logs, uncertain))
            m = model.ask({"op": "store", "max": max_runs, "runs": runs})
            obs = storeobs.show_all(repo, max_runs)
            want_doc = expect[m["resultShow"] - 1][0] if m["resultShow"] else None

            def strip(d, unc):
                return None if d is None else {k: v for k, v in d.items() if k not in unc}
            fail = None
            if obs["result"] != want_doc:
                fail = {"what": "result show is not the document of the most recent run", "observed": obs["result"], "expected": want_doc}
            elif strip(obs["logs"], expect[-1][2]) != expect[-1][1]:
                fail = {"what": "log show is not exactly the most recent run's logs",
                        "observed": {str(k): v.decode("utf-8", "replace") for k, v in (obs["logs"] or {}).items()},
                        "expected": {str(k): v.decode() for k, v in expect[-1][1].items()}}
            else:
                for i in range(1, max_runs + 2):
                    slot = m["slots"].get(str(i))
                    if slot is None:
                        if obs["by_id"][i] is not None and obs["by_id"][i] != {}:
                            fail = {"what": "log show --id of a slot that should not exist returns logs", "id": i}
                        continue
                    rn = slot["result"]
                    if rn is None:
                        continue   # a slot rebuilt by an aborted invocation: empty
                    if strip(obs["by_id"][i], expect[rn - 1][2]) != expect[rn - 1][1]:
                        fail = {"what": "log show --id does not show the retained run", "id": i, "run": rn,
                                "observed": {str(k): v.decode("utf-8", "replace") for k, v in (obs["by_id"][i] or {}).items()},
                                "expected": {str(k): v.decode() for k, v in expect[rn - 1][1].items()}}
                        break
                if not fail and obs["dirs"] != sorted(m["slots"].keys()):
                    fail = {"what": "run directories differ from the retained slots", "observed": obs["dirs"], "expected": sorted(m["slots"].keys())}
                if not fail and len(obs["dirs"]) > max_runs:
                    fail = {"what": "more than max_retained_runs run directories exist", "observed": obs["dirs"]}
            if fail:
                fail.update({"kind": "store read APIs disagree with the history", "case": case, "after_run": n})
                rep.oracle_fail(fail)
                return
            if n > max_runs:
                rep.nontrivial_case({"seed": seed, "n": n})
            rep.count("runs_failed" if j["failed"] else "runs_ok")
            rep.count("wrapped" if n > max_runs else "not_wrapped")
        rep.count("max_%d" % max_runs)
        rep.sample({"case": case, "final_slots": m["slots"], "pointer": m["pointer"]})
    finally:
        repo.done()


def lowered_history(seed, model, rep):
    """the retention limit is lowered in the middle of a history: from then on the slots cycle within
    the new limit, the latest run stays addressable, and no directory beyond the largest limit ever
    configured appears"""
    rng = scen.Rng(seed)
    hi, lo = rng.pick([(5, 2), (4, 3), (6, 2), (10, 3)])
    repo = scen.Repo(TARGETS, max_retained_runs=hi, git=False)
    case = {"seed": seed, "mode": "lowered", "from": hi, "to": lo}
    try:
        for t in TARGETS:
            repo.install(t["path"], "build")
        before = rng.range(lo + 1, hi)
        for n in range(1, before + lo * 3 + 2):
            if n == before + 1:
                repo.cfg["max_retained_runs"] = lo
                repo.write_config()
            body = ("run %d\n" % n).encode()
            repo.set_plan({"build|app": {"steps": [[0, 1, body.hex()]]}})
            rc, j, out, err = repo.mono("run", "-c", "build", "-t", "app")
            rep.evaluations += 1
            if rc != 0 or j is None:
                rep.oracle_fail({"kind": "store read APIs disagree with the history", "case": case, "after_run": n,
                                 "what": "run failed", "rc": rc, "stderr": err[-300:]})
                return
            obs = storeobs.show_all(repo, hi)
            ptr = None
            try:
                import json as _j
                ptr = _j.load(open(repo.out_dir + "/tracking/run.json"))["id"]
            except (OSError, ValueError):
                pass
            cur = hi if n <= before else lo
            fail = None
            if obs["result"] != storeobs.canon_doc(j):
                fail = "result show is not the document of the most recent run"
            elif (obs["logs"] or {}).get(("stdout", "app", "build")) != body:
                fail = "log show is not exactly the most recent run's logs"
            elif ptr is None or ptr > cur:
                fail = "the run used a slot beyond max_retained_runs (slot %s, limit %d)" % (ptr, cur)
            elif len(obs["dirs"]) > hi:
                fail = "more run directories than the largest limit ever configured"
            if fail:
                rep.oracle_fail({"kind": "store read APIs disagree with the history", "case": case, "after_run": n, "what": fail,
                                 "pointer": ptr, "dirs": obs["dirs"]})
                return
        rep.count("lowered_histories")
        rep.nontrivial_case(case)
    finally:
        repo.done()


def big_history(seed, model, rep):
    """dozens of targets: the result document is far larger than any I/O buffer; a second run started
    while the first one is executing is refused and changes nothing"""
    rng = scen.Rng(seed)
    n = rng.range(60, 90)
    targets = [{"path": "svc/t%03d" % i} for i in range(n)]
    repo = scen.Repo(targets, max_retained_runs=3, git=False)
    case = {"seed": seed, "mode": "big", "targets": n}
    try:
        for t in targets:
            repo.install(t["path"], "build")
        for step in range(5):
            body = ("big run %d\n" % step).encode()
            repo.set_plan({"build|*": {"steps": [[0, 1, body.hex()]]}})
            args = ["run", "-c", "build"] + (["-t", "svc/t000"] if step % 2 == 0 else [])
            rc, j, out, err = repo.mono(*args, timeout=120)
            rep.evaluations += 1
            rc2, j2, out2, err2 = repo.mono("result", "show")
            if rc != 0 or rc2 != 0 or storeobs.canon_doc(j2) != storeobs.canon_doc(j):
                rep.oracle_fail({"kind": "store read APIs disagree with the history", "case": case, "after_run": step + 1,
                                 "what": "result show is not the document of the most recent run", "document_bytes": len(out),
                                 "run_rc": rc, "show_rc": rc2, "stderr": err2[-300:]})
                return
        # overlap: A executes (slowly), B is started meanwhile
        body_a = b"run A\n"
        repo.set_plan({"build|*": {"sleep_ms": 1200, "steps": [[0, 1, body_a.hex()]]}})
        pa = repo.popen(["run", "-c", "build", "-t", "svc/t001"])
        time.sleep(0.45)
        repo_b_rc, jb, outb, errb = repo.mono("run", "-c", "build", "-t", "svc/t002")
        outa, erra = pa.communicate(timeout=60)
        rep.evaluations += 1
        rep.count("overlapping_runs")
        ja = None
        try:
            import json as _j
            ja = _j.loads(outa.decode().strip().split("\n")[-1])
        except ValueError:
            pass
        obs = storeobs.show_all(repo, 3)
        if pa.returncode != 0 or ja is None:
            rep.count("overlap_inconclusive")
        elif repo_b_rc == 0:
            rep.oracle_fail({"kind": "store read APIs disagree with the history", "case": case,
                             "what": "a run started while another run of the same repository was executing was not refused",
                             "result_is_A": obs["result"] == storeobs.canon_doc(ja)})
            return
        elif obs["result"] != storeobs.canon_doc(ja) or (obs["logs"] or {}).get(("stdout", "svc/t001", "build")) != body_a:
            rep.oracle_fail({"kind": "store read APIs disagree with the history", "case": case,
                             "what": "after an overlapping (refused) run, result show / log show are not those of the completed run"})
            return
        rep.count("big_histories")
        rep.nontrivial_case(case)
    finally:
        repo.done()


def main():
    args = scen.parse_args(sys.argv)
    t0 = time.time()
    rep = scen.Report()
    model = scen.Model()
    cases = [c.get("case", c) for c in scen.load_corpus(args["corpus"], "C12")]
    rng = scen.Rng(args["seed"])
    if args["budget"] > 0:
        n = (40 if args["tier"] == "thorough" else 8) * args["budget"]
        for i in range(n):
            mx = [1, 2, 3, 5, 10, 2, 3, 11][i % 8]     # 10 is the default limit: the pointer gains a digit
            ln = rng.range(2 * mx + 2, 3 * mx + 4) if args["tier"] == "quick" else rng.range(3 * mx + 2, 6 * mx + 6)
            if mx >= 10:
                ln = rng.range(mx + 2, mx + 6) if args["tier"] == "quick" else rng.range(2 * mx + 2, 3 * mx)
            cases.append({"seed": rng.next(), "max": mx, "length": min(ln, 40)})
    lowered = [c for c in cases if c.get("mode") == "lowered"]
    cases = [c for c in cases if c.get("mode") != "lowered"]
    if args["budget"] > 0:
        lowered += [{"seed": rng.next(), "mode": "lowered"} for _ in range((10 if args["tier"] == "thorough" else 2) * args["budget"])]
    scen.run_cases(lambda c: history(c["seed"], c["max"], c["length"], model, rep), cases, rep, 8)
    scen.run_cases(lambda c: lowered_history(c["seed"], model, rep), lowered, rep, 4)
    if args["budget"] > 0:
        scen.run_cases(lambda sd: big_history(sd, model, rep), [rng.next() for _ in range(4 if args["tier"] == "thorough" else 1)], rep, 2)
    scen.finish(args, rep, t0, model)


if __name__ == "__main__":
    main()
