import Monorail.Driver.Util
import Monorail.Spec.C03
import Monorail.Spec.C10
import Monorail.Model.Kahn
import Monorail.Model.Dfs
import Monorail.Model.Select
open Lean
namespace Monorail.Driver

def jGroupsRes : Except GraphErr (List (List Nat)) → Json
  | .ok gs => Json.mkObj [("ok", jNatLists gs)]
  | .error _ => Json.mkObj [("err", Json.str "cycle")]

/-- verdict of the C03/C09 oracle on an observation of `get_groups` (dependents first) -/
def judgeGroups (g : Graph) (roots : List Nat) (obs : Json) : Except String (String × String) := do
  let cyc := cyclicB g (closure g roots)
  match obs.getObjVal? "ok" with
  | .ok (.arr a) =>
    let gs ← natListsOf a
    if cyc then pure ("fail", "cycle_accepted")
    else match c03Check g roots gs with
      | none => pure ("ok", "")
      | some w => pure ("fail", w)
  | _ =>
    let e := (getStr obs "err").toOption.getD "other"
    if e == "cycle" then
      if cyc then pure ("ok", "") else pure ("fail", "acyclic_rejected")
    else pure ("fail", "unexpected error " ++ e)

/-- request {"op":"dag","adj":[[..]],"roots":[..],"obs":{"ok":[[..]]}|{"err":".."}} -/
def handleDag (j : Json) : Except String Json := do
  let adj ← natListsOf (← getArr j "adj")
  let roots ← natsOf (← getArr j "roots")
  let g : Graph := ⟨adj⟩
  let base := [("model", jGroupsRes (groups g roots)), ("closure", jNats (closure g roots)),
    -- the concrete counter/queue loop: comparable with the implementation including the order inside groups
    ("kahn", jGroupsRes (kahn g (closure g roots))),
    -- the whole code path: the concrete depth-first visibility walks, then the loop
    ("index", jGroupsRes (indexGroups g (roots.filter (fun r => r < g.size))))]
  match j.getObjVal? "obs" with
  | .ok obs =>
    let (v, w) ← judgeGroups g roots obs
    pure (Json.mkObj (base ++ [("oracle", Json.str v), ("why", Json.str w)]))
  | _ => pure (Json.mkObj (base ++ [("oracle", Json.str "none")]))

/-- request {"op":"groups","targets":[..],"visible":[labels]|null,"obs":{"ok":[[labels]]}|{"err":..}}
    labeled groups (dependencies first), as labels -/
def handleGroups (j : Json) : Except String Json := do
  let cfg ← configOf j
  let wf := wfDB cfg
  let roots : List Nat ← match j.getObjVal? "visible" with
    | .ok (.arr a) => do
      let ls ← pathsOf a
      pure (ls.filterMap (indexOf? cfg))
    | _ => pure (List.range cfg.length)
  let unknownRoot : Bool := match j.getObjVal? "visible" with
    | .ok (.arr a) => match pathsOf a with
      | .ok ls => ls.any (fun l => (indexOf? cfg l).isNone)
      | _ => false
    | _ => false
  let g : Graph := ⟨adjacency cfg⟩
  let labels (gs : List (List Nat)) : List (List Path) := gs.map (fun grp => grp.filterMap (fun i => (cfg[i]?).map (·.path)))
  let model : Json :=
    if hasDupPath cfg then Json.mkObj [("err", Json.str "dup_label")]
    else if unknownRoot then Json.mkObj [("err", Json.str "unknown_target")]
    else match labeledGroups g roots with
      | .ok gs => Json.mkObj [("ok", jPathLists (labels gs))]
      | .error _ => Json.mkObj [("err", Json.str "cycle")]
  let base := [("wf", Json.bool wf), ("model", model)]
  match j.getObjVal? "obs" with
  | .ok obs =>
    if !wf || unknownRoot then pure (Json.mkObj (base ++ [("oracle", Json.str "skip")]))
    else
      -- translate labels to node numbers and reverse into get_groups order
      let obsN : Json ← match obs.getObjVal? "ok" with
        | .ok (.arr a) => do
          let gs ← a.toList.mapM (fun x => do let r ← x.getArr?; pathsOf r)
          if gs.any (fun grp => grp.any (fun l => (indexOf? cfg l).isNone)) then
            pure (Json.mkObj [("err", Json.str "unknown label in groups")])
          else
            pure (Json.mkObj [("ok", jNatLists (gs.reverse.map (fun grp => grp.filterMap (indexOf? cfg))))])
        | _ => pure obs
      let (v, w) ← judgeGroups g roots obsN
      pure (Json.mkObj (base ++ [("oracle", Json.str v), ("why", Json.str w)]))
  | _ => pure (Json.mkObj (base ++ [("oracle", Json.str "none")]))

/-- request {"op":"select","targets":[..],"mode":"changed"|"named"|"deps","names":[labels]}
    the target groups `handle_run` selects (`Model/Select.lean`), as labels, through the concrete
    abstract layering for the graph part (order inside a group is not compared) -/
def handleSelect (j : Json) : Except String Json := do
  let cfg ← configOf j
  let mode ← getStr j "mode"
  let names ← pathsOf (← getArr j "names")
  let idx := names.filterMap (indexOf? cfg)
  if names.any (fun l => (indexOf? cfg l).isNone) then
    pure (Json.mkObj [("model", Json.mkObj [("err", Json.str "unknown_target")])])
  else
    let g : Graph := ⟨adjacency cfg⟩
    let sel : Selection := if mode == "changed" then .changed idx else if mode == "named" then .named idx else .deps idx
    let labels (gs : List (List Nat)) : List (List Path) := gs.map (fun grp => grp.filterMap (fun i => (cfg[i]?).map (·.path)))
    let model : Json :=
      if hasDupPath cfg then Json.mkObj [("err", Json.str "dup_label")]
      else match selectGroups g sel with
        | .ok gs => Json.mkObj [("ok", jPathLists (labels gs))]
        | .error _ => Json.mkObj [("err", Json.str "cycle")]
    pure (Json.mkObj [("model", model), ("wf", Json.bool (wfDB cfg))])

end Monorail.Driver
