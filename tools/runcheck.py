#!/usr/bin/env python3
"""C04 / C05 / C06: real `monorail run` scenarios judged by the Lean oracle (`execOracle`) and
compared with the Lean executor machine (`runExec`) fed with the observed completions."""
import os
import sys
import time
from concurrent.futures import ThreadPoolExecutor

import runobs
import scen
from runobs import Knobs

KNOBS = {
    "C04": [Knobs(fail_rate=0, undefined_rate=5, max_targets=6), Knobs(fail_rate=0, undefined_rate=0, max_targets=6, slow_deps=True),
            Knobs(fail_rate=4, undefined_rate=5, max_targets=5),
            Knobs(fail_rate=0, undefined_rate=0, max_targets=5, sabotage=True),
            Knobs(fail_rate=0, undefined_rate=0, max_targets=6, slash=True),
            Knobs(fail_rate=0, undefined_rate=0, max_targets=6, dense=True),
            Knobs(fail_rate=0, undefined_rate=0, max_targets=6, checkpoint=True, force_mode=0, nested_only=True)],
    "C05": [Knobs(undefined_rate=20, notexec_rate=3, fail_rate=0), Knobs(undefined_rate=10, fail_rate=6, max_targets=6),
            Knobs(undefined_rate=25, fail_rate=0, custom_dirs=True, max_targets=5),
            Knobs(undefined_rate=30, notexec_rate=0, fail_rate=0, max_targets=4),
            Knobs(undefined_rate=10, fail_rate=0, max_targets=5, checkpoint=True),
            Knobs(undefined_rate=10, fail_rate=0, max_targets=5, slash=True),
            Knobs(undefined_rate=10, fail_rate=0, max_targets=4, listener=True),
            Knobs(undefined_rate=5, fail_rate=0, max_targets=5, checkpoint=True, commit_range=True, force_mode=0),
            Knobs(undefined_rate=5, fail_rate=0, max_targets=6, force_mode=2, dense=True),
            Knobs(undefined_rate=5, fail_rate=0, max_targets=6, force_mode=2, slow_deps=False, dense=True)],
    "C06": [Knobs(fail_rate=15, notexec_rate=8, undefined_rate=15, redirect_rate=10), Knobs(delays=True, fail_rate=0, undefined_rate=10),
            Knobs(fail_rate=30, undefined_rate=5, max_targets=6, redirect_rate=15), Knobs(delays=True, fail_rate=10, notexec_rate=5),
            Knobs(fail_rate=0, undefined_rate=0, notexec_rate=0, chmod=True, max_targets=4),
            Knobs(fail_rate=5, undefined_rate=5, listener=True, max_targets=4),
            Knobs(fail_rate=0, undefined_rate=30, notexec_rate=0, force_fou=True, max_targets=5),
            Knobs(fail_rate=0, undefined_rate=30, notexec_rate=0, force_fou=False, max_targets=5)],
}


def one(prop, seed, model, rep):
    ks = KNOBS[prop]
    sc = runobs.build(seed, ks[seed % len(ks)])
    repo = runobs.install(sc)
    try:
        verdicts, info = runobs.observe(sc, repo, model)
        rep.evaluations += 1
        rep.count("mode_" + ("all" if not sc.named else ("deps" if sc.deps else "named")))
        rep.count("fou" if sc.fail_on_undefined else "no_fou")
        rep.count("commands_%d" % len(sc.command_list()))
        if sc.point_env:
            rep.count("with_injected_delays")
        if getattr(sc, "checkpointed", False):
            rep.count("with_checkpoint")
        if getattr(sc, "chmod_plan", None):
            rep.count("x_bit_changed_mid_run")
        if getattr(sc, "listener_kill", None) is not None:
            rep.count("listener_killed")
        if getattr(sc, "sabotage", None):
            rep.count("log_dirs_wiped_mid_run")
        if "obs" in info:
            rep.count("groups_%d" % min(info["ngroups"], 8))
            rep.count("failed_runs" if info["failed"] else "successful_runs")
            sts = {}
            for r in info["obs"]["results"]:
                sts[r[1] if r[2] is not None or r[1] != "error" else "error_nocode"] = 1
            for s in sts:
                rep.count("status_" + s)
            nontrivial = info["nstarted"] >= 2 and info["ngroups"] >= 2
            if prop == "C06":
                nontrivial = info["nstarted"] >= 1 and (info["failed"] or sc.point_env is not None)
            if nontrivial:
                rep.nontrivial_case({"seed": seed})
            rep.sample({"seed": seed, "invocation": sc.argv(), "plan": info["plan"], "results": info["obs"]["results"],
                        "exit": info["rc"]})
        for p, d in verdicts:
            d.setdefault("scenario", {})["seed"] = seed
            if p == prop:
                rep.oracle_fail(d)
            elif p == "MODEL":
                rep.disagree(d)
            else:
                rep.count("violations_of_" + p)
    finally:
        repo.done()


def dup_case(seed, model, rep):
    """sequences that share or repeat a step, and -c naming a step again: the commands run in the
    documented order - expanded sequences first, then --commands, each in the order given - however
    often a name occurs"""
    rng = scen.Rng(seed)
    targets = [{"path": "base"}, {"path": "mid", "uses": ["base"]}, {"path": "top", "uses": ["mid"]}][:rng.range(1, 3)]
    names = ["prep", "build", "test", "lint"]
    seqs = {"compile": [rng.pick(names), rng.pick(names)], "check": [rng.pick(names), rng.pick(names), rng.pick(names)][:rng.range(1, 3)]}
    use = rng.pick([["compile", "check"], ["check", "compile"], ["compile"], ["compile", "compile"]])
    extra = [rng.pick(names) for _ in range(rng.range(0, 2))]
    expected = [c for sname in use for c in seqs[sname]] + extra
    repo = scen.Repo(targets, sequences=seqs, git=False)
    case = {"scenario": {"seed": seed, "mode": "dup_commands", "sequences": seqs, "use": use, "commands": extra}}
    try:
        for t in targets:
            for c in names:
                repo.install(t["path"], c)
        repo.set_plan({"*": {"sleep_ms": 15}})
        args = ["run", "-s"] + use + (["-c"] + extra if extra else [])
        rc, j, out, err = repo.mono(*args, timeout=120)
        rep.evaluations += 1
        rep.count("repeated_command_names" if len(set(expected)) < len(expected) else "distinct_command_names")
        if rc != 0 or j is None:
            rep.count("violations_of_C06")
            return
        doc = [r["command"] for r in j["results"]]
        # what the processes did: executables ordered by start time, consecutive equal commands merged
        starts = sorted(repo.traces(), key=lambda t: t["start_ns"])
        seen = []
        for t in starts:
            if not seen or seen[-1] != t["command"]:
                seen.append(t["command"])
        want_seen = []
        for c in expected:
            if not want_seen or want_seen[-1] != c:
                want_seen.append(c)
        if doc != expected or seen != want_seen or len(starts) != len(expected) * len(targets):
            rep.oracle_fail({"kind": "commands were not executed in the documented order", "scenario": case["scenario"],
                             "expected": expected, "result_document": doc, "started_in_order": seen, "executables_started": len(starts)})
            return
        if len(set(expected)) < len(expected):
            rep.nontrivial_case(case["scenario"])
    finally:
        repo.done()


def unstartable_case(seed, model, rep):
    """a command file that has its x bit but that the kernel refuses to execute (a script saved with
    CRLF line endings: `#!/bin/sh\r` names no interpreter). Whatever the run makes of it - a fatal
    error, or an entry in the result document - it is not a success: no executable of a later group
    or a later command is started, and a document that carries an `error` entry says failed=true
    and goes with exit status 1."""
    rng = scen.Rng(seed)
    targets = [{"path": "base"}, {"path": "side"}, {"path": "mid", "uses": ["base"]}, {"path": "top", "uses": ["mid"]}]
    depth = {"base": 0, "side": 0, "mid": 1, "top": 2}
    cmds = ["c1", "c2"]
    victim = rng.pick([("c1", "base"), ("c1", "mid"), ("c1", "mid"), ("c2", "base"), ("c2", "mid")])
    repo = scen.Repo(targets, git=False)
    case = {"scenario": {"seed": seed, "mode": "unstartable", "victim": list(victim)}}
    try:
        for t in targets:
            for c in cmds:
                repo.install(t["path"], c)
        exe = os.path.join(repo.cmd_dir(victim[1]), victim[0])
        os.remove(exe)
        with open(exe, "wb") as f:
            f.write(b"#!/bin/sh\r\nexit 0\r\n")
        os.chmod(exe, 0o755)
        repo.set_plan({"*": {"sleep_ms": rng.pick([0, 20, 60])}})
        rc, j, out, err = repo.mono("run", "-c", "c1", "c2", timeout=120)
        scen.reap_helpers(repo)
        rep.evaluations += 1
        rep.count("unstartable_cases")
        rep.count("unstartable_fatal" if j is None else "unstartable_reported")
        # later command, or same command and a later link of the chain base <- mid <- top (which group
        # the unrelated target `side` shares is the layering's business)
        def after(t):
            ci, vi = cmds.index(t["command"]), cmds.index(victim[0])
            tg = t["target"].rstrip("/")
            return ci > vi or (ci == vi and tg != "side" and depth[tg] > depth[victim[1]])
        later = sorted((t["command"], t["target"]) for t in repo.traces() if after(t))
        if rc == 0 or later:
            rep.oracle_fail({"kind": "a run continued past a task that could not be started", "scenario": case["scenario"], "exit": rc,
                             "failed_flag": (j or {}).get("failed"), "started_after_it": later[:6], "stderr": err[-300:]})
            return
        if j is not None:
            sts = [e["status"] for r in j["results"] for g in r["target_groups"] for e in g.values()]
            if ("error" in sts) != bool(j["failed"]) or rc != 1:
                rep.oracle_fail({"kind": "failed flag / exit status disagree with the entries", "scenario": case["scenario"], "exit": rc,
                                 "failed_flag": j["failed"], "statuses": sorted(set(sts))})
                return
        rep.nontrivial_case(case["scenario"])
    finally:
        repo.done()


def main():
    args = scen.parse_args(sys.argv)
    prop = args["prop"]
    t0 = time.time()
    rep = scen.Report()
    model = scen.Model()
    seeds = []
    for c in scen.load_corpus(args["corpus"], prop):
        s = c.get("scenario", c).get("seed")
        if s is not None:
            seeds.append(s)
    rng = scen.Rng(args["seed"])
    n = (1600 if args["tier"] == "thorough" else 240) * args["budget"]
    seeds += [rng.next() for _ in range(n)]
    dup_seeds = []
    for c in scen.load_corpus(args["corpus"], prop):
        sc = c.get("scenario", c)
        if sc.get("mode") == "dup_commands" and sc.get("seed") in seeds:
            seeds.remove(sc["seed"])
            dup_seeds.append(sc["seed"])
    scen.run_cases(lambda s: one(prop, s, model, rep), seeds, rep, 12)
    if prop == "C04":
        if args["budget"] > 0:
            dup_seeds += [rng.next() for _ in range((60 if args["tier"] == "thorough" else 10) * args["budget"])]
        scen.run_cases(lambda s: dup_case(s, model, rep), dup_seeds, rep, 6)
    if prop == "C06":
        us = [sc["seed"] for sc in (c.get("scenario", c) for c in scen.load_corpus(args["corpus"], prop)) if sc.get("mode") == "unstartable"]
        if args["budget"] > 0:
            us += [rng.next() for _ in range((40 if args["tier"] == "thorough" else 8) * args["budget"])]
        scen.run_cases(lambda s: unstartable_case(s, model, rep), us, rep, 6)
    scen.finish(args, rep, t0, model)


if __name__ == "__main__":
    main()
