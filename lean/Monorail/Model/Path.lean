/-!
# Paths

Bytes are `Nat` (the driver guarantees `< 256`), a path is a list of bytes, the separator is `/`.

* `comps` / `Within` : the *specification* vocabulary — a path is inside a directory when the
  directory's component list is a prefix of the path's component list.
* `isPathPrefix` / `hit` : the *code's* rule (`core::is_path_prefix` applied to the hits of
  trie-rs `common_prefix_search`) — a non-empty byte prefix that ends on a component boundary.

This file is import-free so that it can be linked into the `mrmodel` driver.
-/
namespace Monorail

abbrev Path := List Nat

/-- `'/'` -/
def sep : Nat := 47

/-- split a path at every separator (always a non-empty list of components) -/
def comps : Path → List Path
  | [] => [[]]
  | c :: cs =>
    if c = sep then [] :: comps cs
    else match comps cs with
      | [] => [[c]]
      | h :: t => (c :: h) :: t

/-- inverse of `comps` -/
def joinComps : List Path → Path
  | [] => []
  | [c] => c
  | c :: d :: t => c ++ sep :: joinComps (d :: t)

/-- SPEC: path `p` equals or lies inside directory `d`, comparing whole components. -/
def Within (d p : Path) : Prop := comps d <+: comps p

/-- decidable twin of `Within` (used by the oracles) -/
def withinB (d p : Path) : Bool := (comps d).isPrefixOf (comps p)

/-- a path is normal when it has no empty component (so it is non-empty, has no leading,
trailing or doubled separator) -/
def Normal (p : Path) : Prop := [] ∉ comps p

def normalB (p : Path) : Bool := !(comps p).contains []

/-- CODE: `core::is_path_prefix(prefix, path)` for a `prefix` already known to be a byte prefix -/
def boundary (d p : Path) : Bool :=
  p.length == d.length || d.getLast? == some sep || p[d.length]? == some sep

/-- CODE: trie-rs `common_prefix_search(q)` yields the stored keys that are non-empty byte
prefixes of `q`; monorail then filters with `is_path_prefix`. `hit k q` says key `k` survives. -/
def hit (k q : Path) : Bool := !k.isEmpty && k.isPrefixOf q && boundary k q

/-- the directory a key names: one trailing separator is dropped (`"core/"` names `core`) -/
def dirOf (p : Path) : Path := if p.getLast? = some sep then p.dropLast else p

/-- CODE (`Index::new`, lookup of a `uses` entry): the entry written with exactly one trailing
separator (`s.strip_suffix('/').unwrap_or(s)` followed by `'/'`) -/
def slashQ (u : Path) : Path := dirOf u ++ [sep]

/-- LEGACY (pinned tree before the fix): raw byte-prefix match -/
def hitLegacy (k q : Path) : Bool := !k.isEmpty && k.isPrefixOf q

/-- lexicographic byte order on paths (Rust `String`/`[u8]` ordering) -/
def pathLt : Path → Path → Bool
  | [], [] => false
  | [], _ :: _ => true
  | _ :: _, [] => false
  | a :: as, b :: bs => if a < b then true else if b < a then false else pathLt as bs

end Monorail
