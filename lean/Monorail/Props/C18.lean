import Monorail.Model.ConfigLoad
/-!
# C18 — configuration meaning depends only on its JSON value
-/
namespace Monorail

variable {V : Type}

/-- **C18 (value semantics).** Loading factors through the parser applied to the *whole* file: two
files that the parser maps to the same result — re-serialisations of one JSON value with different
whitespace, key order or total size — give the same outcome of loading, hence the same input to
every API, when no `source` object is involved. -/
theorem c18_value (H : FileBytes → Nat) (parse : FileBytes → Option (ParsedCfg V)) (d : Disk)
    (f1 f2 : FileBytes) (hparse : parse f1 = parse f2)
    (hplain : ∀ cfg, parse f1 = some cfg → cfg.hasSource = false) :
    loadAndCheck H parse { d with generated := some f1 } = loadAndCheck H parse { d with generated := some f2 } := by
  simp only [loadAndCheck, readAll, ← hparse]
  cases hp : parse f1 with
  | none => rfl
  | some cfg => simp [hplain cfg hp]

/-- **C18 (every API computes from the value only).** Whatever an API computes (`action`), it is a
function of the decoded value: equal parse results give equal answers. -/
theorem c18_apis {A : Type} (H : FileBytes → Nat) (parse : FileBytes → Option (ParsedCfg V)) (d : Disk)
    (f1 f2 : FileBytes) (hparse : parse f1 = parse f2)
    (hplain : ∀ cfg, parse f1 = some cfg → cfg.hasSource = false) (action : V → A) :
    handle H parse { d with generated := some f1 } action = handle H parse { d with generated := some f2 } action := by
  simp only [handle, c18_value H parse d f1 f2 hparse hplain]

/-- **C18 (size).** The loader hands the parser the entire file, for every length — there is no
buffer size after which content is ignored. -/
theorem c18_size (file : FileBytes) : readAll file = file := rfl

/-- the unrepaired loader did not: a file longer than the buffer was cut -/
theorem c18_legacy_cut (cap : Nat) (file : FileBytes) (h : cap < file.length) :
    fillBufOnce cap file ≠ file := by
  intro e
  have := congrArg List.length e
  simp [fillBufOnce, List.length_take] at this
  omega

/-! ## Non-vacuity: two spellings of one value -/
example :
    let parse : FileBytes → Option (ParsedCfg Nat) := fun b =>
      -- a toy parser that ignores the byte 32 (whitespace)
      match b.filter (· ≠ 32) with
      | [v] => some { value := v, hasSource := false, sourcePath := 0, sourceChecksum := none }
      | _ => none
    let d : Disk := { generated := none, sources := fun _ => none, lock := none }
    let big : FileBytes := 7 :: List.replicate 40 32
    (match loadAndCheck (fun _ => 0) parse { d with generated := some [32, 7] } with | .ok v => some v | .error _ => none) =
    (match loadAndCheck (fun _ => 0) parse { d with generated := some big } with | .ok v => some v | .error _ => none) := by
  decide

end Monorail
