#!/usr/bin/env python3
"""C01 end to end: after the in-process enumeration (`mrverif c01`), real git histories
(`gitobs.run_history`) in which every `analyze --changes` answer must list exactly the targets the
documented mapping gives for the reported change list."""
import json
import os
import subprocess
import sys
import time

import gitobs
import scen


def main():
    args = scen.parse_args(sys.argv)
    prop = "C01"
    t0 = time.time()
    inproc = os.path.join(scen.VERIF, "evidence", ".%s.inproc.%d.json" % (prop, os.getpid()))
    cmd = [os.path.join(scen.HARNESS, "mrverif"), "c01", "--seed", str(args["seed"]), "--tier", args["tier"],
           "--model", scen.MODEL, "--corpus", args["corpus"], "--out", inproc, "--budget", str(args["budget"])]
    if args.get("current"):
        cmd += ["--current", args["current"]]
    p = subprocess.run(cmd, stdout=subprocess.PIPE, stderr=subprocess.STDOUT, text=True)
    if p.returncode != 0 or not os.path.exists(inproc):
        sys.stderr.write(p.stdout[-3000:])
        sys.exit(3)
    base = json.load(open(inproc))
    os.remove(inproc)
    rep = scen.Report()
    model = scen.Model()
    rng = scen.Rng(args["seed"] + 53)
    n = (120 if args["tier"] == "thorough" else 16) * args["budget"]
    cases = [(rng.next(), rng.range(10, 30)) for _ in range(n)]
    scen.run_cases(lambda c: gitobs.run_history(c[0], prop, model, rep, c[1]), cases, rep, 12)
    j = rep.to_json()
    merged = dict(base)
    merged["evaluations"] = base["evaluations"] + j["evaluations"]
    merged["distinct_nontrivial"] = base["distinct_nontrivial"] + j["distinct_nontrivial"]
    merged["hist"] = dict(base["hist"])
    for k, v in j["hist"].items():
        merged["hist"]["cli_" + k] = v
    merged["samples"] = base["samples"][:3] + j["samples"][:2]
    merged["oracle_failures"] = base["oracle_failures"] + j["oracle_failures"]
    merged["disagreements"] = base["disagreements"] + j["disagreements"]
    merged["notes"] = base.get("notes", []) + ["in-process cases: %d, CLI queries in %d git histories: %d" % (base["evaluations"], len(cases), j["evaluations"])]
    merged["wall_s"] = time.time() - t0
    model.close()
    scen.cleanup_scratch()
    s = json.dumps(merged, indent=1)
    if args["out"]:
        open(args["out"], "w").write(s)
    else:
        print(s)


if __name__ == "__main__":
    main()
