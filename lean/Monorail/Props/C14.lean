import Monorail.Model.Lock
import Monorail.Generated.Consts
/-!
# C14 — mutating invocations on one repository are mutually exclusive
-/
namespace Monorail

theorem getElem?_setProc (ps : List LProc) (p q : Nat) (f : LProc → LProc) :
    (setProc ps p f)[q]? = if q = p then (ps[q]?).map f else ps[q]? := by
  induction ps generalizing p q with
  | nil => simp [setProc]
  | cons x xs ih =>
    cases p with
    | zero =>
      cases q with
      | zero => simp [setProc]
      | succ q => simp [setProc]
    | succ p =>
      cases q with
      | zero => simp [setProc]
      | succ q => simp [setProc, ih]

/-- the protocol invariant -/
structure LockInv (s : LockSt) : Prop where
  holder : ∀ p, pcOf s p = some .holding ↔ s.lock = some p
  loser : ∀ (p : Nat) (x : LProc), s.procs[p]? = some x → x.lockFailed = true → x.effects = 0 ∧ x.pc = Pc.exited lockErrorRc
  idle : ∀ (p : Nat) (x : LProc), s.procs[p]? = some x → x.pc = Pc.start → x.effects = 0

theorem pcOf_setProc (s : LockSt) (p q : Nat) (f : LProc → LProc) :
    ((setProc s.procs p f)[q]?).map (·.pc) =
      if q = p then (s.procs[q]?).map (fun x => (f x).pc) else (s.procs[q]?).map (·.pc) := by
  rw [getElem?_setProc]
  split <;> simp [Option.map_map, Function.comp_def]

theorem lockInit_inv (n : Nat) : LockInv (lockInit n) := by
  refine ⟨?_, ?_, ?_⟩
  · intro p
    simp only [pcOf, lockInit]
    constructor
    · intro h
      rcases hx : (List.replicate n ({ pc := .start, effects := 0, lockFailed := false } : LProc))[p]? with _ | x
      · simp [hx] at h
      · have := List.mem_of_getElem? hx
        rw [List.mem_replicate] at this
        simp [hx, this.2] at h
    · intro h; cases h
  · intro p x hx hf
    have := List.mem_of_getElem? hx
    simp only [lockInit, List.mem_replicate] at this
    rw [this.2] at hf; cases hf
  · intro p x hx _
    have := List.mem_of_getElem? hx
    simp only [lockInit, List.mem_replicate] at this
    rw [this.2]

theorem lstep_inv {s : LockSt} (h : LockInv s) (e : LEv) : LockInv (lstep s e) := by
  cases e with
  | tryAcquire p =>
    simp only [lstep]
    by_cases hp : pcOf s p = some .start
    · simp only [hp, if_true]
      cases hl : s.lock with
      | none =>
        refine ⟨?_, ?_, ?_⟩
        · intro q
          simp only [pcOf, pcOf_setProc]
          by_cases hq : q = p
          · subst hq
            simp only [if_true]
            simp only [pcOf] at hp
            cases hx : s.procs[q]? with
            | none => simp [hx] at hp
            | some x => simp
          · simp only [hq, if_false]
            have := h.holder q
            simp only [pcOf, hl] at this
            constructor
            · intro hh; exact absurd (this.mp hh) (by simp)
            · intro hh; exact absurd (Option.some.inj hh).symm hq
        · intro q x hx hf
          rw [getElem?_setProc] at hx
          by_cases hq : q = p
          · subst hq
            simp only [if_true] at hx
            cases hy : s.procs[q]? with
            | none => simp [hy] at hx
            | some y =>
              simp [hy] at hx; subst hx
              simp only [pcOf, hy, Option.map_some, Option.some.injEq] at hp
              have := h.loser q y hy hf
              rw [hp] at this; exact absurd this.2 (by simp)
          · simp only [hq, if_false] at hx
            exact h.loser q x hx hf
        · intro q x hx hs
          rw [getElem?_setProc] at hx
          by_cases hq : q = p
          · subst hq
            simp only [if_true] at hx
            cases hy : s.procs[q]? with
            | none => simp [hy] at hx
            | some y => simp [hy] at hx; subst hx; cases hs
          · simp only [hq, if_false] at hx
            exact h.idle q x hx hs
      | some holder =>
        refine ⟨?_, ?_, ?_⟩
        · intro q
          simp only [pcOf, pcOf_setProc]
          by_cases hq : q = p
          · subst hq
            simp only [if_true]
            have := h.holder q
            rw [hp, hl] at this
            cases hx : s.procs[q]? with
            | none => simp; intro e; exact absurd (this.mpr (by rw [e])) (by simp)
            | some x => simp; intro e; exact absurd (this.mpr (by rw [e])) (by simp)
          · simp only [hq, if_false]
            have := h.holder q
            simp only [pcOf, hl] at this
            exact this
        · intro q x hx hf
          rw [getElem?_setProc] at hx
          by_cases hq : q = p
          · subst hq
            simp only [if_true] at hx
            cases hy : s.procs[q]? with
            | none => simp [hy] at hx
            | some y =>
              simp [hy] at hx; subst hx
              simp only [pcOf, hy, Option.map_some, Option.some.injEq] at hp
              exact ⟨h.idle q y hy hp, rfl⟩
          · simp only [hq, if_false] at hx
            exact h.loser q x hx hf
        · intro q x hx hs
          rw [getElem?_setProc] at hx
          by_cases hq : q = p
          · subst hq
            simp only [if_true] at hx
            cases hy : s.procs[q]? with
            | none => simp [hy] at hx
            | some y => simp [hy] at hx; subst hx; cases hs
          · simp only [hq, if_false] at hx
            exact h.idle q x hx hs
    · simp only [hp, if_false]; exact h
  | effect p =>
    simp only [lstep]
    by_cases hp : pcOf s p = some .holding
    · simp only [hp, if_true]
      refine ⟨?_, ?_, ?_⟩
      · intro q
        simp only [pcOf, pcOf_setProc]
        have := h.holder q
        simp only [pcOf] at this
        by_cases hq : q = p
        · subst hq; simpa using this
        · simpa [hq] using this
      · intro q x hx hf
        rw [getElem?_setProc] at hx
        by_cases hq : q = p
        · subst hq
          simp only [if_true] at hx
          cases hy : s.procs[q]? with
          | none => simp [hy] at hx
          | some y =>
            simp [hy] at hx; subst hx
            simp only [pcOf, hy, Option.map_some, Option.some.injEq] at hp
            have := h.loser q y hy hf
            rw [hp] at this; exact absurd this.2 (by simp)
        · simp only [hq, if_false] at hx
          exact h.loser q x hx hf
      · intro q x hx hs
        rw [getElem?_setProc] at hx
        by_cases hq : q = p
        · subst hq
          simp only [if_true] at hx
          cases hy : s.procs[q]? with
          | none => simp [hy] at hx
          | some y =>
            simp [hy] at hx; subst hx
            simp only [pcOf, hy, Option.map_some, Option.some.injEq] at hp
            simp only at hs
            rw [hp] at hs; cases hs
        · simp only [hq, if_false] at hx
          exact h.idle q x hx hs
    · simp only [hp, if_false]; exact h
  | finish p rc =>
    simp only [lstep]
    by_cases hp : pcOf s p = some .holding
    · simp only [hp, if_true]
      have hlock : s.lock = some p := (h.holder p).mp hp
      refine ⟨?_, ?_, ?_⟩
      · intro q
        simp only [pcOf, pcOf_setProc]
        by_cases hq : q = p
        · subst hq
          cases hx : s.procs[q]? <;> simp
        · simp only [hq, if_false]
          have := h.holder q
          simp only [pcOf, hlock] at this
          constructor
          · intro hh; exact absurd (Option.some.inj (this.mp hh)).symm hq
          · intro hh; cases hh
      · intro q x hx hf
        rw [getElem?_setProc] at hx
        by_cases hq : q = p
        · subst hq
          simp only [if_true] at hx
          cases hy : s.procs[q]? with
          | none => simp [hy] at hx
          | some y =>
            simp [hy] at hx; subst hx
            simp only [pcOf, hy, Option.map_some, Option.some.injEq] at hp
            have := h.loser q y hy hf
            rw [hp] at this; exact absurd this.2 (by simp)
        · simp only [hq, if_false] at hx
          exact h.loser q x hx hf
      · intro q x hx hs
        rw [getElem?_setProc] at hx
        by_cases hq : q = p
        · subst hq
          simp only [if_true] at hx
          cases hy : s.procs[q]? with
          | none => simp [hy] at hx
          | some y => simp [hy] at hx; subst hx; cases hs
        · simp only [hq, if_false] at hx
          exact h.idle q x hx hs
    · simp only [hp, if_false]; exact h
  | kill p =>
    simp only [lstep]
    by_cases hp : pcOf s p = some .holding
    · simp only [hp, if_true]
      have hlock : s.lock = some p := (h.holder p).mp hp
      refine ⟨?_, ?_, ?_⟩
      · intro q
        simp only [pcOf, pcOf_setProc]
        by_cases hq : q = p
        · subst hq
          cases hx : s.procs[q]? <;> simp
        · simp only [hq, if_false]
          have := h.holder q
          simp only [pcOf, hlock] at this
          constructor
          · intro hh; exact absurd (Option.some.inj (this.mp hh)).symm hq
          · intro hh; cases hh
      · intro q x hx hf
        rw [getElem?_setProc] at hx
        by_cases hq : q = p
        · subst hq
          simp only [if_true] at hx
          cases hy : s.procs[q]? with
          | none => simp [hy] at hx
          | some y =>
            simp [hy] at hx; subst hx
            simp only [pcOf, hy, Option.map_some, Option.some.injEq] at hp
            have := h.loser q y hy hf
            rw [hp] at this; exact absurd this.2 (by simp)
        · simp only [hq, if_false] at hx
          exact h.loser q x hx hf
      · intro q x hx hs
        rw [getElem?_setProc] at hx
        by_cases hq : q = p
        · subst hq
          simp only [if_true] at hx
          cases hy : s.procs[q]? with
          | none => simp [hy] at hx
          | some y => simp [hy] at hx; subst hx; cases hs
        · simp only [hq, if_false] at hx
          exact h.idle q x hx hs
    · simp only [hp, if_false]
      by_cases hs : pcOf s p = some .start
      · simp only [hs, if_true]
        refine ⟨?_, ?_, ?_⟩
        · intro q
          simp only [pcOf, pcOf_setProc]
          by_cases hq : q = p
          · subst hq
            have := h.holder q
            rw [hs] at this
            cases hx : s.procs[q]? with
            | none => simp; intro e; exact absurd (this.mpr e) (by simp)
            | some x => simp; intro e; exact absurd (this.mpr e) (by simp)
          · simp only [hq, if_false]
            exact h.holder q
        · intro q x hx hf
          rw [getElem?_setProc] at hx
          by_cases hq : q = p
          · subst hq
            simp only [if_true] at hx
            cases hy : s.procs[q]? with
            | none => simp [hy] at hx
            | some y =>
              simp [hy] at hx; subst hx
              simp only [pcOf, hy, Option.map_some, Option.some.injEq] at hs
              have := h.loser q y hy hf
              rw [hs] at this; exact absurd this.2 (by simp)
          · simp only [hq, if_false] at hx
            exact h.loser q x hx hf
        · intro q x hx hst
          rw [getElem?_setProc] at hx
          by_cases hq : q = p
          · subst hq
            simp only [if_true] at hx
            cases hy : s.procs[q]? with
            | none => simp [hy] at hx
            | some y => simp [hy] at hx; subst hx; cases hst
          · simp only [hq, if_false] at hx
            exact h.idle q x hx hst
      · simp only [hs, if_false]; exact h
  | bindTimeout p =>
    simp only [lstep]
    by_cases hp : pcOf s p = some .start
    · simp only [hp, if_true]
      refine ⟨?_, ?_, ?_⟩
      · intro q
        simp only [pcOf, pcOf_setProc]
        by_cases hq : q = p
        · subst hq
          simp only [if_true]
          have := h.holder q
          rw [hp] at this
          cases hx : s.procs[q]? with
          | none => simp; intro e; exact absurd (this.mpr e) (by simp)
          | some x => simp; intro e; exact absurd (this.mpr e) (by simp)
        · simp only [hq, if_false]
          have := h.holder q
          simp only [pcOf] at this
          exact this
      · intro q x hx hf
        rw [getElem?_setProc] at hx
        by_cases hq : q = p
        · subst hq
          simp only [if_true] at hx
          cases hy : s.procs[q]? with
          | none => simp [hy] at hx
          | some y =>
            simp [hy] at hx; subst hx
            simp only [pcOf, hy, Option.map_some, Option.some.injEq] at hp
            exact ⟨h.idle q y hy hp, rfl⟩
        · simp only [hq, if_false] at hx
          exact h.loser q x hx hf
      · intro q x hx hs
        rw [getElem?_setProc] at hx
        by_cases hq : q = p
        · subst hq
          simp only [if_true] at hx
          cases hy : s.procs[q]? with
          | none => simp [hy] at hx
          | some y => simp [hy] at hx; subst hx; cases hs
        · simp only [hq, if_false] at hx
          exact h.idle q x hx hs
    · simp only [hp, if_false]; exact h

theorem lrun_inv (n : Nat) (evs : List LEv) : LockInv (lrun n evs) := by
  unfold lrun
  have : ∀ s, LockInv s → LockInv (evs.foldl lstep s) := by
    induction evs with
    | nil => intro s h; exact h
    | cons e rest ih => intro s h; exact ih _ (lstep_inv h e)
  exact this _ (lockInit_inv n)

/-- **C14 (mutual exclusion).** For any number of invocations, any mix of the four APIs, any
interleaving of acquisitions, effects, exits and kills: at most one process is past lock
acquisition at any time. -/
theorem c14_mutex (n : Nat) (evs : List LEv) (p q : Nat)
    (hp : pcOf (lrun n evs) p = some .holding) (hq : pcOf (lrun n evs) q = some .holding) : p = q := by
  have inv := lrun_inv n evs
  have h1 := (inv.holder p).mp hp
  have h2 := (inv.holder q).mp hq
  rw [h1] at h2
  exact Option.some.inj h2

/-- **C14 (losers are clean).** An invocation whose acquisition was refused has performed no effect
— it started no executable and modified neither checkpoint nor results nor logs — and has exited
with the lock error status. -/
theorem c14_loser_clean (n : Nat) (evs : List LEv) (p : Nat) (x : LProc)
    (hx : (lrun n evs).procs[p]? = some x) (hf : x.lockFailed = true) :
    x.effects = 0 ∧ x.pc = .exited lockErrorRc :=
  (lrun_inv n evs).loser p x hx hf

/-- the lock error is the fatal exit status of the code -/
theorem c14_lock_rc : lockErrorRc = Consts.exitFatal := by decide

/-- **C14 (release).** When nobody is holding — in particular right after the holder exited or was
killed — the next invocation that tries acquires at once. -/
theorem c14_release (n : Nat) (evs : List LEv) (p : Nat)
    (hfree : ∀ q, pcOf (lrun n evs) q ≠ some .holding) (hp : pcOf (lrun n evs) p = some .start) :
    pcOf (lstep (lrun n evs) (.tryAcquire p)) p = some .holding := by
  have inv := lrun_inv n evs
  have hl : (lrun n evs).lock = none := by
    cases hlk : (lrun n evs).lock with
    | none => rfl
    | some q => exact absurd ((inv.holder q).mpr hlk) (hfree q)
  simp only [lstep, hp, if_true, hl]
  simp only [pcOf, pcOf_setProc, if_true]
  simp only [pcOf] at hp
  cases hx : (lrun n evs).procs[p]? with
  | none => simp [hx] at hp
  | some x => simp

/-- after an exit or a kill of the holder nobody is holding -/
theorem c14_freed (n : Nat) (evs : List LEv) (p : Nat) (hp : pcOf (lrun n evs) p = some .holding) (rc : Nat) :
    (∀ q, pcOf (lstep (lrun n evs) (.finish p rc)) q ≠ some .holding) ∧
    (∀ q, pcOf (lstep (lrun n evs) (.kill p)) q ≠ some .holding) := by
  have inv1 := lstep_inv (lrun_inv n evs) (.finish p rc)
  have inv2 := lstep_inv (lrun_inv n evs) (.kill p)
  constructor
  · intro q hq
    have := (inv1.holder q).mp hq
    simp [lstep, hp] at this
  · intro q hq
    have := (inv2.holder q).mp hq
    simp [lstep, hp] at this

/-- **C14 (a bind that timed out is not an acquisition).** Whoever holds or not, an invocation whose
bind lost against its timer has exited with the lock error status without any effect, and the
holder - if there is one - still holds. -/
theorem c14_timeout (n : Nat) (evs : List LEv) (p : Nat)
    (hp : pcOf (lrun n evs) p = some .start) :
    let s' := lstep (lrun n evs) (.bindTimeout p)
    s'.lock = (lrun n evs).lock ∧ pcOf s' p = some (.exited lockErrorRc) ∧
    ∀ x, s'.procs[p]? = some x → x.effects = 0 := by
  intro s'
  have inv' : LockInv s' := lstep_inv (lrun_inv n evs) (.bindTimeout p)
  have hs' : s' = ⟨setProc (lrun n evs).procs p
      (fun x => { x with pc := .exited lockErrorRc, lockFailed := true }), (lrun n evs).lock⟩ := by
    simp only [s', lstep, hp, if_true]
  refine ⟨by rw [hs'], ?_, ?_⟩
  · rw [hs']
    simp only [pcOf, pcOf_setProc, if_true]
    simp only [pcOf] at hp
    cases hx : (lrun n evs).procs[p]? with
    | none => simp [hx] at hp
    | some x => simp
  · intro x hx
    have hf : x.lockFailed = true := by
      rw [hs'] at hx
      simp only [getElem?_setProc, if_true] at hx
      cases hy : (lrun n evs).procs[p]? with
      | none => simp [hy] at hx
      | some y => simp [hy] at hx; subst hx; rfl
    exact (inv'.loser p x hx hf).1

/-! ## Non-vacuity: three contenders, the holder is killed, the next one acquires -/
example :
    let s := lrun 4 [.tryAcquire 1, .effect 1, .tryAcquire 0, .tryAcquire 2, .effect 2, .kill 1, .tryAcquire 3]
    s.lock = some 3 ∧ (s.procs.map (·.pc)) = [.exited 2, .dead, .exited 2, .holding] ∧
    (s.procs.map (·.effects)) = [0, 1, 0, 0] := by decide

/-- a holder, one contender refused, one whose bind timed out, one timing out while nobody holds -/
example :
    let s := lrun 4 [.tryAcquire 0, .effect 0, .tryAcquire 1, .bindTimeout 2, .finish 0 0, .bindTimeout 3]
    s.lock = none ∧ (s.procs.map (·.pc)) = [.exited 0, .exited 2, .exited 2, .exited 2] ∧
    (s.procs.map (·.effects)) = [1, 0, 0, 0] := by decide

end Monorail
