import Monorail.Model.Dfs
import Monorail.Proofs.Graph
import Monorail.Proofs.Kahn
/-!
# The concrete visibility walk refines reachability

`setVisible_spec`: on a graph whose edges point at existing nodes, the iterative depth-first walk
from `root` either reports a node that lies on a cycle reachable from `root` - and it does so
whenever such a cycle exists - or ends with exactly `vis ∪ {x | root →* x}` flagged visible. The fuel
of `setVisible` is never exhausted.
-/
namespace Monorail
open Relation

/-- finish order (most recent first): every successor of a finished node finished before it -/
def FinOrd (g : Graph) : List Nat → Prop
  | [] => True
  | u :: t => (∀ v ∈ g.out u, v ∈ t) ∧ FinOrd g t

theorem finOrd_closed {g : Graph} : ∀ {fin : List Nat}, FinOrd g fin → ∀ u ∈ fin, ∀ v ∈ g.out u, v ∈ fin := by
  intro fin
  induction fin with
  | nil => intro _ u hu; cases hu
  | cons a t ih =>
    intro h u hu v hv
    rcases List.mem_cons.mp hu with rfl | hu
    · exact List.mem_cons_of_mem _ (h.1 v hv)
    · exact List.mem_cons_of_mem _ (ih h.2 u hu v hv)

theorem finOrd_reach {g : Graph} {fin : List Nat} (h : FinOrd g fin) {u x : Nat} (hu : u ∈ fin)
    (hr : Reach g u x) : x ∈ fin := by
  induction hr with
  | refl => exact hu
  | tail _ hstep ih => exact finOrd_closed h _ ih _ hstep

theorem finOrd_acyclic {g : Graph} : ∀ {fin : List Nat}, FinOrd g fin → fin.Nodup →
    ∀ u ∈ fin, ¬ Reach1 g u u := by
  intro fin
  induction fin with
  | nil => intro _ _ u hu; cases hu
  | cons a t ih =>
    intro h hnd u hu hcyc
    rw [List.nodup_cons] at hnd
    rcases List.mem_cons.mp hu with rfl | hu
    · -- everything reachable from `u` in one or more steps lies in `t`
      obtain ⟨b, hb, hbu⟩ := TransGen.head'_iff.mp hcyc
      have hbt : b ∈ t := h.1 b hb
      exact hnd.1 (finOrd_reach h.2 hbt hbu)
    · exact ih h.2 hnd.2 u hu hcyc

/-- the stack is a path from the root; `above` is the node directly above the head entry -/
def StackInv (g : Graph) (F : Nat → Prop) (root : Nat) : Option Nat → List (Nat × Nat) → Prop
  | _, [] => True
  | above, (n, i) :: rest =>
    i ≤ (g.out n).length ∧
    (∀ k v, k < i → (g.out n)[k]? = some v → F v ∨ (above = some v ∧ k + 1 = i)) ∧
    (∀ a, above = some a → ∃ k, i = k + 1 ∧ (g.out n)[k]? = some a) ∧
    (rest = [] → n = root) ∧
    StackInv g F root (some n) rest

theorem stackInv_mono {g : Graph} {F F' : Nat → Prop} {root : Nat} (hF : ∀ v, F v → F' v) :
    ∀ {above : Option Nat} {st : List (Nat × Nat)}, StackInv g F root above st → StackInv g F' root above st := by
  intro above st
  induction st generalizing above with
  | nil => intro _; trivial
  | cons e rest ih =>
    obtain ⟨n, i⟩ := e
    intro h
    obtain ⟨h1, h2, h3, h4, h5⟩ := h
    refine ⟨h1, ?_, h3, h4, ih h5⟩
    intro k v hk hv
    rcases h2 k v hk hv with hf | hab
    · exact Or.inl (hF v hf)
    · exact Or.inr hab

/-- every node on the stack reaches the node `top` that sits directly above the head of `st` -/
theorem stack_reach {g : Graph} {F : Nat → Prop} {root : Nat} :
    ∀ {st : List (Nat × Nat)} {top : Nat}, StackInv g F root (some top) st →
      ∀ x ∈ st.map Prod.fst, Reach g x top := by
  intro st
  induction st with
  | nil => intro _ _ x hx; cases hx
  | cons e rest ih =>
    obtain ⟨n, i⟩ := e
    intro top h x hx
    obtain ⟨_, _, h3, _, h5⟩ := h
    obtain ⟨k, _, hk⟩ := h3 top rfl
    have hstep : Dep g n top := List.mem_of_getElem? hk
    have hn : Reach g n top := ReflTransGen.single hstep
    simp only [List.map_cons, List.mem_cons] at hx
    rcases hx with rfl | hx
    · exact hn
    · exact (ih h5 x hx).trans hn

theorem stackInv_pop {g : Graph} {F F' : Nat → Prop} {root n : Nat} (hF : ∀ v, F v → F' v) (hn : F' n) :
    ∀ {st : List (Nat × Nat)}, StackInv g F root (some n) st → StackInv g F' root none st := by
  intro st
  cases st with
  | nil => intro _; trivial
  | cons e rest =>
    obtain ⟨b, ib⟩ := e
    intro h
    obtain ⟨h1, h2, _, h4, h5⟩ := h
    refine ⟨h1, ?_, (fun a ha => by cases ha), h4, stackInv_mono hF h5⟩
    intro k v hk hv
    rcases h2 k v hk hv with hf | ⟨hab, _⟩
    · exact Or.inl (hF v hf)
    · cases hab; exact Or.inl hn

/-! ## the measure that bounds the number of iterations -/

def wOf (g : Graph) (u : Nat) : Nat := (g.out u).length + 2

def unvisitedW (g : Graph) (visited : List Nat) (l : List Nat) : Nat :=
  ((l.filter (fun u => !visited.contains u)).map (wOf g)).sum

def stackW (g : Graph) (st : List (Nat × Nat)) : Nat :=
  (st.map (fun e => (g.out e.1).length - e.2 + 1)).sum

def mu (g : Graph) (s : DSt) : Nat := stackW g s.stack + unvisitedW g s.visited (List.range g.size)

theorem unvisitedW_visit (g : Graph) (visited : List Nat) (d : Nat) (hd : d ∉ visited) :
    ∀ (l : List Nat), l.Nodup → d ∈ l →
      unvisitedW g (d :: visited) l + wOf g d = unvisitedW g visited l := by
  intro l
  induction l with
  | nil => intro _ h; cases h
  | cons a t ih =>
    intro hnd hmem
    rw [List.nodup_cons] at hnd
    by_cases had : a = d
    · subst had
      -- `a` is dropped from the new filter, kept in the old; the tail is unaffected
      have htail : unvisitedW g (a :: visited) t = unvisitedW g visited t := by
        unfold unvisitedW
        congr 2
        apply List.filter_congr
        intro x hx
        have : x ≠ a := fun h => hnd.1 (h ▸ hx)
        simp [List.contains_cons, this]
      have hc : visited.contains a = false := by simpa using hd
      simp only [unvisitedW, List.filter_cons, List.contains_cons, beq_self_eq_true, Bool.true_or,
        Bool.not_true, hc, Bool.not_false, ite_true, List.map_cons, List.sum_cons] at htail ⊢
      simp only [Bool.false_eq_true, ite_false]
      omega
    · have hmem' : d ∈ t := by
        rcases List.mem_cons.mp hmem with h | h
        · exact absurd h.symm had
        · exact h
      have := ih hnd.2 hmem'
      by_cases hav : a ∈ visited
      · have h0 : visited.contains a = true := by simpa using hav
        have h1 : (d :: visited).contains a = true := by
          rw [List.contains_iff_mem]; exact List.mem_cons_of_mem _ hav
        simp only [unvisitedW, List.filter_cons, h1, h0, Bool.not_true, Bool.false_eq_true, ite_false] at this ⊢
        exact this
      · have h0 : visited.contains a = false := by simpa using hav
        have h1 : (d :: visited).contains a = false := by
          rw [← Bool.not_eq_true, List.contains_iff_mem]
          intro h
          rcases List.mem_cons.mp h with h | h
          · exact had h
          · exact hav h
        simp only [unvisitedW, List.filter_cons, h1, h0, Bool.not_false, ite_true, List.map_cons,
          List.sum_cons] at this ⊢
        omega

/-! ## the loop invariant -/

structure DInv (g : Graph) (root : Nat) (vis0 : List Nat) (s : DSt) : Prop where
  stack : StackInv g (fun v => v ∈ s.visited ∧ v ∉ s.active) root none s.stack
  stack_nodup : (s.stack.map Prod.fst).Nodup
  active_iff : ∀ x, x ∈ s.active ↔ x ∈ s.stack.map Prod.fst
  active_nodup : s.active.Nodup
  active_sub : ∀ x ∈ s.active, x ∈ s.visited
  visited_reach : ∀ x ∈ s.visited, Reach g root x ∧ x < g.size
  root_mem : root ∈ s.visited
  fin : ∃ fin : List Nat, fin.Nodup ∧ (∀ x, x ∈ fin ↔ x ∈ s.visited ∧ x ∉ s.active) ∧ FinOrd g fin
  vis_iff : ∀ x, x ∈ s.vis ↔ x ∈ vis0 ∨ x ∈ s.visited
  vis_nodup : s.vis.Nodup

/-- what one iteration does to a state satisfying the invariant -/
inductive StepSpec (g : Graph) (root : Nat) (vis0 : List Nat) (s : DSt) : DRes → Prop where
  | done : s.stack = [] → StepSpec g root vis0 s (.done s.vis)
  | cycle (c : Nat) : Reach g root c → Reach1 g c c → StepSpec g root vis0 s (.cycle c)
  | running (s' : DSt) : DInv g root vis0 s' → mu g s' < mu g s → StepSpec g root vis0 s (.running s')

theorem dfsStep_spec {g : Graph} (hr : InRange g) {root : Nat} {vis0 : List Nat} {s : DSt}
    (h : DInv g root vis0 s) : StepSpec g root vis0 s (dfsStep g s) := by
  obtain ⟨stack, visited, active, vis⟩ := s
  cases stack with
  | nil => exact StepSpec.done rfl
  | cons e rest =>
    obtain ⟨n, i⟩ := e
    have hstack := h.stack
    obtain ⟨hi_le, hexam, _, hbottom, hrest⟩ := hstack
    have hn_act : n ∈ active := (h.active_iff n).mpr (by simp)
    have hn_vis : n ∈ visited := h.active_sub n hn_act
    have hn_reach := (h.visited_reach n hn_vis).1
    cases hd : (g.out n)[i]? with
    | some d =>
      have hi_lt : i < (g.out n).length := by
        rcases List.getElem?_eq_some_iff.mp hd with ⟨hlt, _⟩; exact hlt
      have hdep : Dep g n d := List.mem_of_getElem? hd
      have hd_lt : d < g.size := hr n d hdep
      by_cases hact : active.contains d = true
      · -- a node on the current path is reached again
        have hres : dfsStep g ⟨(n, i) :: rest, visited, active, vis⟩ = .cycle d := by
          simp only [dfsStep, hd, hact, ite_true]
        rw [hres]
        have hd_act : d ∈ active := by simpa using hact
        have hd_reach := (h.visited_reach d (h.active_sub d hd_act)).1
        refine StepSpec.cycle d hd_reach ?_
        have hd_stack := (h.active_iff d).mp hd_act
        simp only [List.map_cons, List.mem_cons] at hd_stack
        rcases hd_stack with rfl | hd_rest
        · exact TransGen.single hdep
        · have : Reach g d n := stack_reach hrest d hd_rest
          exact TransGen.tail' this hdep
      · have hact' : active.contains d = false := by simpa using hact
        have hd_nact : d ∉ active := by simpa using hact'
        by_cases hvis : visited.contains d = true
        · -- already finished (a diamond): skip it
          have hres : dfsStep g ⟨(n, i) :: rest, visited, active, vis⟩ =
              .running ⟨(n, i + 1) :: rest, visited, active, vis⟩ := by
            simp only [dfsStep, hd, hact', hvis, Bool.false_eq_true, ite_false, ite_true]
          rw [hres]
          have hd_vis : d ∈ visited := by simpa using hvis
          refine StepSpec.running _ ?_ ?_
          · refine ⟨?_, h.stack_nodup, h.active_iff, h.active_nodup, h.active_sub, h.visited_reach,
              h.root_mem, h.fin, h.vis_iff, h.vis_nodup⟩
            refine ⟨hi_lt, ?_, (fun a ha => by cases ha), hbottom, hrest⟩
            intro k v hk hv
            by_cases hki : k < i
            · rcases hexam k v hki hv with hf | ⟨hab, _⟩
              · exact Or.inl hf
              · cases hab
            · have : k = i := by omega
              subst this
              rw [hd] at hv; cases hv
              exact Or.inl ⟨hd_vis, hd_nact⟩
          · simp only [mu, stackW, List.map_cons, List.sum_cons]
            omega
        · -- a new node: flag it, push it
          have hvis' : visited.contains d = false := by simpa using hvis
          have hd_nvis : d ∉ visited := by simpa using hvis'
          have hres : dfsStep g ⟨(n, i) :: rest, visited, active, vis⟩ =
              .running ⟨(d, 0) :: (n, i + 1) :: rest, d :: visited, d :: active,
                if vis.contains d then vis else d :: vis⟩ := by
            simp only [dfsStep, hd, hact', hvis', Bool.false_eq_true, ite_false]
          rw [hres]
          have hmono : ∀ v, (v ∈ visited ∧ v ∉ active) → (v ∈ d :: visited ∧ v ∉ d :: active) := by
            rintro v ⟨hv1, hv2⟩
            refine ⟨List.mem_cons_of_mem _ hv1, ?_⟩
            intro hv
            rcases List.mem_cons.mp hv with rfl | hv
            · exact hd_nvis hv1
            · exact hv2 hv
          refine StepSpec.running _ ?_ ?_
          · refine ⟨?_, ?_, ?_, ?_, ?_, ?_, List.mem_cons_of_mem _ h.root_mem, ?_, ?_, ?_⟩
            · -- stack
              refine ⟨Nat.zero_le _, (fun k v hk _ => absurd hk (Nat.not_lt_zero k)), (fun a ha => by cases ha),
                (fun hnil => by cases hnil), ?_⟩
              refine ⟨hi_lt, ?_, ?_, hbottom, stackInv_mono hmono hrest⟩
              · intro k v hk hv
                by_cases hki : k < i
                · rcases hexam k v hki hv with hf | ⟨hab, _⟩
                  · exact Or.inl (hmono v hf)
                  · cases hab
                · have : k = i := by omega
                  subst this
                  rw [hd] at hv; cases hv
                  exact Or.inr ⟨rfl, rfl⟩
              · intro a ha
                cases ha
                exact ⟨i, rfl, hd⟩
            · -- stack nodup
              simp only [List.map_cons, List.nodup_cons]
              refine ⟨?_, List.nodup_cons.mp h.stack_nodup⟩
              intro hmem
              exact hd_nact ((h.active_iff d).mpr hmem)
            · intro x
              simp only [List.map_cons, List.mem_cons]
              have := h.active_iff x
              simp only [List.map_cons, List.mem_cons] at this
              rw [this]
            · exact List.nodup_cons.mpr ⟨hd_nact, h.active_nodup⟩
            · intro x hx
              rcases List.mem_cons.mp hx with rfl | hx
              · exact List.mem_cons_self
              · exact List.mem_cons_of_mem _ (h.active_sub x hx)
            · intro x hx
              rcases List.mem_cons.mp hx with rfl | hx
              · exact ⟨hn_reach.tail hdep, hd_lt⟩
              · exact h.visited_reach x hx
            · obtain ⟨fin, hnd, hmem, hord⟩ := h.fin
              refine ⟨fin, hnd, ?_, hord⟩
              intro x
              rw [hmem x]
              constructor
              · exact hmono x
              · rintro ⟨hx1, hx2⟩
                have hxd : x ≠ d := fun hxd => hx2 (hxd ▸ List.mem_cons_self)
                refine ⟨?_, fun hx => hx2 (List.mem_cons_of_mem _ hx)⟩
                rcases List.mem_cons.mp hx1 with hx | hx
                · exact absurd hx hxd
                · exact hx
            · intro x
              by_cases hc : vis.contains d = true
              · have hdv : d ∈ vis := by simpa using hc
                simp only [hc, ite_true]
                rw [h.vis_iff x]
                constructor
                · rintro (hx | hx)
                  · exact Or.inl hx
                  · exact Or.inr (List.mem_cons_of_mem _ hx)
                · rintro (hx | hx)
                  · exact Or.inl hx
                  · rcases List.mem_cons.mp hx with rfl | hx
                    · exact (h.vis_iff _).mp hdv
                    · exact Or.inr hx
              · have hc' : vis.contains d = false := by simpa using hc
                simp only [hc', Bool.false_eq_true, ite_false, List.mem_cons]
                rw [h.vis_iff x]
                constructor
                · rintro (rfl | hx | hx)
                  · exact Or.inr (Or.inl rfl)
                  · exact Or.inl hx
                  · exact Or.inr (Or.inr hx)
                · rintro (hx | rfl | hx)
                  · exact Or.inr (Or.inl hx)
                  · exact Or.inl rfl
                  · exact Or.inr (Or.inr hx)
            · by_cases hc : vis.contains d = true
              · simp only [hc, ite_true]; exact h.vis_nodup
              · have hc' : vis.contains d = false := by simpa using hc
                have hdv : d ∉ vis := by simpa using hc'
                simp only [hc', Bool.false_eq_true, ite_false]
                exact List.nodup_cons.mpr ⟨hdv, h.vis_nodup⟩
          · have hw := unvisitedW_visit g visited d hd_nvis (List.range g.size) List.nodup_range
              (List.mem_range.mpr hd_lt)
            simp only [mu, stackW, List.map_cons, List.sum_cons]
            simp only [wOf] at hw
            omega
    | none =>
      -- every dependency of `n` has been looked at: `n` is finished
      have hi_eq : i = (g.out n).length := by
        have := List.getElem?_eq_none_iff.mp hd
        omega
      have hres : dfsStep g ⟨(n, i) :: rest, visited, active, vis⟩ =
          .running ⟨rest, visited, active.erase n, vis⟩ := by
        simp [dfsStep, hd]
      rw [hres]
      have hsn := List.nodup_cons.mp h.stack_nodup
      have herase : ∀ x, x ∈ active.erase n ↔ x ≠ n ∧ x ∈ active := fun x => h.active_nodup.mem_erase_iff
      have hmono : ∀ v, (v ∈ visited ∧ v ∉ active) → (v ∈ visited ∧ v ∉ active.erase n) := by
        rintro v ⟨hv1, hv2⟩
        exact ⟨hv1, fun hv => hv2 ((herase v).mp hv).2⟩
      have hnF : n ∈ visited ∧ n ∉ active.erase n := ⟨hn_vis, fun hx => ((herase n).mp hx).1 rfl⟩
      refine StepSpec.running _ ?_ ?_
      · refine ⟨stackInv_pop hmono hnF hrest, hsn.2, ?_, h.active_nodup.erase n, ?_, h.visited_reach,
          h.root_mem, ?_, h.vis_iff, h.vis_nodup⟩
        · intro x
          rw [herase x]
          have := h.active_iff x
          simp only [List.map_cons, List.mem_cons] at this
          constructor
          · rintro ⟨hne, hx⟩
            rcases this.mp hx with hx | hx
            · exact absurd hx hne
            · exact hx
          · intro hx
            refine ⟨?_, this.mpr (Or.inr hx)⟩
            intro hxn
            exact hsn.1 (hxn ▸ hx)
        · intro x hx
          exact h.active_sub x ((herase x).mp hx).2
        · obtain ⟨fin, hnd, hmem, hord⟩ := h.fin
          refine ⟨n :: fin, ?_, ?_, ?_⟩
          · refine List.nodup_cons.mpr ⟨?_, hnd⟩
            intro hnf
            exact ((hmem n).mp hnf).2 hn_act
          · intro x
            simp only [List.mem_cons]
            rw [hmem x, herase x]
            constructor
            · rintro (rfl | ⟨hx1, hx2⟩)
              · exact ⟨hn_vis, fun hx => hx.1 rfl⟩
              · exact ⟨hx1, fun hx => hx2 hx.2⟩
            · rintro ⟨hx1, hx2⟩
              by_cases hxn : x = n
              · exact Or.inl hxn
              · exact Or.inr ⟨hx1, fun hx => hx2 ⟨hxn, hx⟩⟩
          · refine ⟨?_, hord⟩
            intro v hv
            obtain ⟨k, hk, hkv⟩ := List.mem_iff_getElem.mp hv
            have hk' : (g.out n)[k]? = some v := by
              rw [List.getElem?_eq_getElem hk, hkv]
            rcases hexam k v (by omega) hk' with hf | ⟨hab, _⟩
            · exact (hmem v).mpr hf
            · cases hab
      · simp only [mu, stackW, List.map_cons, List.sum_cons]
        omega

/-! ## the whole walk -/

/-- what a walk from `root` over a graph whose visible nodes were `vis0` ends with -/
inductive RunSpec (g : Graph) (root : Nat) (vis0 : List Nat) : Except DErr (List Nat) → Prop where
  | ok (vis' : List Nat) : (∀ x, x ∈ vis' ↔ x ∈ vis0 ∨ Reach g root x) → vis'.Nodup →
      (∀ x, Reach g root x → ¬ Reach1 g x x) → RunSpec g root vis0 (.ok vis')
  | cycle (c : Nat) : Reach g root c → Reach1 g c c → RunSpec g root vis0 (.error (.cycle c))

theorem dfsRun_spec {g : Graph} (hr : InRange g) {root : Nat} {vis0 : List Nat} :
    ∀ (fuel : Nat) (s : DSt), DInv g root vis0 s → mu g s < fuel → RunSpec g root vis0 (dfsRun g fuel s) := by
  intro fuel
  induction fuel with
  | zero => intro s _ hmu; exact absurd hmu (Nat.not_lt_zero _)
  | succ fuel ih =>
    intro s h hmu
    have hs := dfsStep_spec hr h
    unfold dfsRun
    generalize dfsStep g s = r at hs
    cases hs with
    | done hnil =>
      -- the stack is empty: nothing is active, everything visited is finished
      have hact : ∀ x, x ∉ s.active := by
        intro x hx
        have := (h.active_iff x).mp hx
        rw [hnil] at this
        cases this
      obtain ⟨fin, hnd, hmem, hord⟩ := h.fin
      have hfin : ∀ x, x ∈ fin ↔ x ∈ s.visited := by
        intro x
        rw [hmem x]
        exact ⟨fun hx => hx.1, fun hx => ⟨hx, hact x⟩⟩
      have hvisited : ∀ x, x ∈ s.visited ↔ Reach g root x := by
        intro x
        constructor
        · intro hx; exact (h.visited_reach x hx).1
        · intro hx
          exact (hfin x).mp (finOrd_reach hord ((hfin root).mpr h.root_mem) hx)
      refine RunSpec.ok s.vis ?_ h.vis_nodup ?_
      · intro x
        rw [h.vis_iff x, hvisited x]
      · intro x hx
        exact finOrd_acyclic hord hnd x ((hfin x).mpr ((hvisited x).mpr hx))
    | cycle c h1 h2 => exact RunSpec.cycle c h1 h2
    | running s' hinv hlt => exact ih s' hinv (by omega)

theorem unvisitedW_nil (g : Graph) (l : List Nat) : unvisitedW g [] l = (l.map (wOf g)).sum := by
  simp [unvisitedW]

/-- **The visibility walk.** On a graph whose edges point at existing nodes, for an existing `root`
and any duplicate-free set `vis0` of already visible nodes: `set_subtree_visibility` either ends
with exactly `vis0 ∪ {x | root →* x}` visible - and then no node reachable from `root` lies on a
cycle - or reports a node that is reachable from `root` and lies on a cycle. Its loop terminates
(the fuel is never exhausted). -/
theorem setVisible_spec {g : Graph} (hr : InRange g) {root : Nat} (hroot : root < g.size)
    {vis0 : List Nat} (hnd : vis0.Nodup) : RunSpec g root vis0 (setVisible g vis0 root) := by
  unfold setVisible
  apply dfsRun_spec hr
  · refine ⟨?_, by simp, by simp, by simp, by simp, ?_, by simp, ⟨[], by simp, by simp, trivial⟩, ?_, ?_⟩
    · exact ⟨Nat.zero_le _, (fun k v hk _ => absurd hk (Nat.not_lt_zero k)), (fun a ha => by cases ha),
        (fun _ => rfl), trivial⟩
    · intro x hx
      have : x = root := by simpa using hx
      subst this
      exact ⟨ReflTransGen.refl, hroot⟩
    · intro x
      by_cases hc : vis0.contains root = true
      · have hrv : root ∈ vis0 := by simpa using hc
        simp only [hc, ite_true, List.mem_cons, List.not_mem_nil, or_false]
        constructor
        · exact Or.inl
        · rintro (hx | hx)
          · exact hx
          · rw [hx]; exact hrv
      · have hc' : vis0.contains root = false := by simpa using hc
        simp only [hc', Bool.false_eq_true, ite_false, List.mem_cons, List.not_mem_nil, or_false]
        constructor
        · rintro (hx | hx)
          · exact Or.inr hx
          · exact Or.inl hx
        · rintro (hx | hx)
          · exact Or.inr hx
          · exact Or.inl hx
    · by_cases hc : vis0.contains root = true
      · simp only [hc, ite_true]; exact hnd
      · have hc' : vis0.contains root = false := by simpa using hc
        have : root ∉ vis0 := by simpa using hc'
        simp only [hc', Bool.false_eq_true, ite_false]
        exact List.nodup_cons.mpr ⟨this, hnd⟩
  · have hw := unvisitedW_visit g [] root (by simp) (List.range g.size) List.nodup_range
      (List.mem_range.mpr hroot)
    rw [unvisitedW_nil] at hw
    simp only [mu, stackW, dfsFuel, List.map_cons, List.map_nil, List.sum_cons, List.sum_nil]
    simp only [wOf] at hw
    have : (List.map (wOf g) (List.range g.size)).sum =
        (List.map (fun u => (g.out u).length + 2) (List.range g.size)).sum := rfl
    omega

/-! ## every requested root, then the in-degree loop -/

inductive VisSpec (g : Graph) (roots : List Nat) (vis0 : List Nat) : Except DErr (List Nat) → Prop where
  | ok (vis' : List Nat) : (∀ x, x ∈ vis' ↔ x ∈ vis0 ∨ ∃ r ∈ roots, Reach g r x) → vis'.Nodup →
      (∀ r ∈ roots, ∀ x, Reach g r x → ¬ Reach1 g x x) → VisSpec g roots vis0 (.ok vis')
  | cycle (c : Nat) : (∃ r ∈ roots, Reach g r c) → Reach1 g c c → VisSpec g roots vis0 (.error (.cycle c))

theorem visibleOf_spec {g : Graph} (hr : InRange g) : ∀ (roots vis0 : List Nat),
    (∀ r ∈ roots, r < g.size) → vis0.Nodup → VisSpec g roots vis0 (visibleOf g roots vis0) := by
  intro roots
  induction roots with
  | nil =>
    intro vis0 _ hnd
    exact VisSpec.ok vis0 (by simp) hnd (by intro r hr; cases hr)
  | cons r rs ih =>
    intro vis0 hlt hnd
    have h1 := setVisible_spec hr (hlt r List.mem_cons_self) hnd
    unfold visibleOf
    generalize setVisible g vis0 r = res at h1
    cases h1 with
    | ok vis1 hmem1 hnd1 hac1 =>
      have h2 := ih vis1 (fun x hx => hlt x (List.mem_cons_of_mem _ hx)) hnd1
      simp only
      generalize visibleOf g rs vis1 = res2 at h2
      cases h2 with
      | ok vis2 hmem2 hnd2 hac2 =>
        refine VisSpec.ok vis2 ?_ hnd2 ?_
        · intro x
          rw [hmem2 x, hmem1 x]
          constructor
          · rintro ((hx | hx) | ⟨r', hr', hx⟩)
            · exact Or.inl hx
            · exact Or.inr ⟨r, List.mem_cons_self, hx⟩
            · exact Or.inr ⟨r', List.mem_cons_of_mem _ hr', hx⟩
          · rintro (hx | ⟨r', hr', hx⟩)
            · exact Or.inl (Or.inl hx)
            · rcases List.mem_cons.mp hr' with rfl | hr'
              · exact Or.inl (Or.inr hx)
              · exact Or.inr ⟨r', hr', hx⟩
        · intro r' hr' x hx
          rcases List.mem_cons.mp hr' with rfl | hr'
          · exact hac1 x hx
          · exact hac2 r' hr' x hx
      | cycle c hc1 hc2 =>
        obtain ⟨r', hr', hx⟩ := hc1
        exact VisSpec.cycle c ⟨r', List.mem_cons_of_mem _ hr', hx⟩ hc2
    | cycle c hc1 hc2 =>
      exact VisSpec.cycle c ⟨r, List.mem_cons_self, hc1⟩ hc2

/-- the in-degree loop depends on the visible set only as a set -/
theorem kahn_perm (g : Graph) {vis vis' : List Nat} (h : vis.Perm vis') : kahn g vis = kahn g vis' := by
  have hc : (fun v => vis.contains v) = (fun v => vis'.contains v) := by
    funext v
    rw [Bool.eq_iff_iff, List.contains_iff_mem, List.contains_iff_mem]
    exact h.mem_iff
  have hd : indegOf g vis = indegOf g vis' := by
    funext v
    unfold indegOf
    exact (h.map _).sum_nat
  have hrun : kahnRun g vis = kahnRun g vis' := by
    unfold kahnRun
    have hf : (fun v => indegOf g vis v == 0 && vis.contains v) =
        (fun v => indegOf g vis' v == 0 && vis'.contains v) := by
      funext v
      rw [hd]
      have : vis.contains v = vis'.contains v := congrFun hc v
      rw [this]
    rw [hc, hf, hd, h.length_eq]
  unfold kahn
  rw [hrun]
  have hany : vis.any (fun v => (kahnRun g vis').2 v != 0) = vis'.any (fun v => (kahnRun g vis').2 v != 0) := by
    rw [Bool.eq_iff_iff, List.any_eq_true, List.any_eq_true]
    constructor
    · rintro ⟨x, hx, hp⟩; exact ⟨x, h.mem_iff.mp hx, hp⟩
    · rintro ⟨x, hx, hp⟩; exact ⟨x, h.mem_iff.mpr hx, hp⟩
  rw [hany]

end Monorail
