import Monorail.Driver.Util
import Monorail.Model.Lock
open Lean
namespace Monorail.Driver

/-- {"op":"lock","n":k,"events":[["try",p]|["effect",p]|["finish",p,rc]|["kill",p]|["timeout",p]]} -/
def handleLock (j : Json) : Except String Json := do
  let n ← getNat j "n"
  let evs ← (← getArr j "events").toList.mapM (fun e => do
    let a ← e.getArr?
    let k ← (a[0]!).getStr?
    let p ← (a[1]!).getNat?
    match k with
    | "try" => pure (LEv.tryAcquire p)
    | "effect" => pure (LEv.effect p)
    | "finish" => do let rc ← (a[2]!).getNat?; pure (LEv.finish p rc)
    | "kill" => pure (LEv.kill p)
    | "timeout" => pure (LEv.bindTimeout p)
    | _ => throw s!"bad lock event {k}")
  let s := lrun n evs
  let pcJ : Pc → Json
    | .start => Json.str "start"
    | .holding => Json.str "holding"
    | .exited rc => Json.arr #[Json.str "exited", toJson rc]
    | .dead => Json.str "dead"
  pure (Json.mkObj [
    ("lock", match s.lock with | some p => toJson p | none => Json.null),
    ("procs", Json.arr (s.procs.map (fun x => Json.mkObj [("pc", pcJ x.pc), ("effects", toJson x.effects), ("lockFailed", Json.bool x.lockFailed)])).toArray)])

end Monorail.Driver
