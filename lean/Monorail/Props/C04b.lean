import Monorail.Props.C04
import Monorail.Props.C03
import Monorail.Proofs.Select
/-!
# C04 — from the configuration to the trace

`Props/C04.lean` states the executor's guarantee for plan positions. Here the plan is the one
`get_plan` lays out from the target groups `handle_run` selected (`Model/Select.lean`), and the
groups come from the configuration through `Index::new` (C10) and the layering (C03): the guarantee
becomes a statement about targets, their declared dependencies and commands.
-/
namespace Monorail

/-- **C04 (a dependency's executable has exited).** For target groups in which `u` is in a strictly
earlier group than `t`, every command `c` and every schedule: when the executable of `(c, t)` is
started, the executable of `(c, u)` - if it was started at all - has completed. -/
theorem c04_plan_dep (n ncmd : Nat) (disp : Nat → Nat → Disp) (groups : List (List Nat))
    (hnd : groups.flatten.Nodup) (hlt : ∀ x ∈ groups.flatten, x < n) {u t : Nat}
    (hB : Before groups u t) {c : Nat} (hc : c < ncmd) (fou : Bool) (inputs : List (Nat × Outcome))
    {pre post : List Ev} {g : Nat}
    (h : (runExec fou (planOf n ncmd disp groups) inputs).trace = pre ++ Ev.spawn g (taskId n c t) :: post)
    {g' : Nat} (hus : Ev.spawn g' (taskId n c u) ∈ (runExec fou (planOf n ncmd disp groups) inputs).trace) :
    ∃ oc, Ev.done (taskId n c u) oc ∈ pre := by
  obtain ⟨p, B, mid, A, q, hg, huB, htA⟩ := hB
  have hkU : groups[p.length]? = some B := by rw [hg]; simp
  have hkT : groups[p.length + 1 + mid.length]? = some A := by
    rw [hg, List.getElem?_append_right (by omega)]
    have : p.length + 1 + mid.length - p.length = mid.length + 1 := by omega
    rw [this, List.getElem?_cons_succ, List.getElem?_append_right (Nat.le_refl _)]
    simp
  exact c04_dep fou _ (planIds_nodup n disp groups hnd hlt ncmd) inputs
    (planOf_group n disp groups hc hkU) (planOf_group n disp groups hc hkT)
    (u := ⟨taskId n c u, disp c u⟩) (t := ⟨taskId n c t, disp c t⟩)
    (List.mem_map.mpr ⟨u, huB, rfl⟩) (List.mem_map.mpr ⟨t, htA, rfl⟩) (by omega) h hus

/-- **C04 (commands in order).** No executable of a later command is started before every started
executable of an earlier command has completed - for every pair of selected targets, whatever the
graph says about them. -/
theorem c04_plan_cmd (n ncmd : Nat) (disp : Nat → Nat → Disp) (groups : List (List Nat))
    (hnd : groups.flatten.Nodup) (hlt : ∀ x ∈ groups.flatten, x < n) {u t : Nat}
    (hu : u ∈ groups.flatten) (ht : t ∈ groups.flatten) {c' c : Nat} (hcc : c' < c) (hc : c < ncmd)
    (fou : Bool) (inputs : List (Nat × Outcome)) {pre post : List Ev} {g : Nat}
    (h : (runExec fou (planOf n ncmd disp groups) inputs).trace = pre ++ Ev.spawn g (taskId n c t) :: post)
    {g' : Nat} (hus : Ev.spawn g' (taskId n c' u) ∈ (runExec fou (planOf n ncmd disp groups) inputs).trace) :
    ∃ oc, Ev.done (taskId n c' u) oc ∈ pre := by
  obtain ⟨GU, hGU, huG⟩ := List.mem_flatten.mp hu
  obtain ⟨GT, hGT, htG⟩ := List.mem_flatten.mp ht
  obtain ⟨kU, hkUlt, hkU⟩ := List.mem_iff_getElem.mp hGU
  obtain ⟨kT, hkTlt, hkT⟩ := List.mem_iff_getElem.mp hGT
  have hkU' : groups[kU]? = some GU := by rw [List.getElem?_eq_getElem hkUlt, hkU]
  have hkT' : groups[kT]? = some GT := by rw [List.getElem?_eq_getElem hkTlt, hkT]
  have hpos : c' * groups.length + kU < c * groups.length + kT := by
    calc c' * groups.length + kU < c' * groups.length + groups.length := by omega
      _ = (c' + 1) * groups.length := by rw [Nat.succ_mul]
      _ ≤ c * groups.length := Nat.mul_le_mul_right _ (by omega)
      _ ≤ c * groups.length + kT := Nat.le_add_right _ _
  exact c04_dep fou _ (planIds_nodup n disp groups hnd hlt ncmd) inputs
    (planOf_group n disp groups (by omega) hkU') (planOf_group n disp groups hc hkT')
    (u := ⟨taskId n c' u, disp c' u⟩) (t := ⟨taskId n c t, disp c t⟩)
    (List.mem_map.mpr ⟨u, huG, rfl⟩) (List.mem_map.mpr ⟨t, htG, rfl⟩) hpos h hus

/-! ## the selected groups come from the configuration -/

theorem labeled_flatten_perm {g : Graph} {roots : List Nat} {lgs : List (List Nat)}
    (h : labeledGroups g roots = .ok lgs) : lgs.flatten.Perm (closure g roots) := by
  unfold labeledGroups at h
  cases hg : groups g roots with
  | error e => simp [hg] at h
  | ok gs =>
    simp only [hg, Except.ok.injEq] at h
    subst h
    have hrev : gs.reverse.flatten.Perm gs.flatten := by
      rw [List.flatten_reverse]
      exact (List.reverse_perm _).trans (List.Perm.flatten_congr (by
        induction gs with
        | nil => simp
        | cons a t _ => simp))
    exact hrev.trans (c03_partition hg)

theorem prune_flatten (c : Nat → Bool) (gs : List (List Nat)) :
    (prune c gs).flatten = gs.flatten.filter c := by
  induction gs with
  | nil => simp [prune]
  | cons a t ih =>
    have hcons : prune c (a :: t) = if (a.filter c).isEmpty then prune c t else a.filter c :: prune c t := by
      simp only [prune, List.map_cons, List.filter_cons]
      by_cases he : (a.filter c).isEmpty = true
      · simp [he]
      · simp [he]
    rw [hcons, List.flatten_cons, List.filter_append]
    by_cases he : (a.filter c).isEmpty = true
    · have : a.filter c = [] := by simpa using he
      simp [he, this, ih]
    · simp [he, ih]

theorem flatten_singletons (ts : List Nat) : (ts.map (fun t => [t])).flatten = ts := by
  induction ts with
  | nil => rfl
  | cons a t ih => simp [List.flatten_cons, ih]

/-- the groups `handle_run` selects hold every selected target once, and only configured targets -/
theorem selectGroups_wellformed {g : Graph} {sel : Selection} {groups : List (List Nat)}
    (hsel : selectGroups g sel = .ok groups)
    (hnamed : ∀ ts, sel = .named ts → ts.Nodup ∧ ∀ t ∈ ts, t < g.size) :
    groups.flatten.Nodup ∧ ∀ x ∈ groups.flatten, x < g.size := by
  cases sel with
  | changed ch =>
    simp only [selectGroups] at hsel
    cases hl : labeledGroups g (List.range g.size) with
    | error e => simp [hl] at hsel
    | ok lgs =>
      simp only [hl, Except.ok.injEq] at hsel
      subst hsel
      have hp := labeled_flatten_perm hl
      rw [prune_flatten]
      refine ⟨(hp.nodup_iff.mpr (closure_nodup g _)).filter _, ?_⟩
      intro x hx
      exact closure_lt g _ x (hp.mem_iff.mp (List.mem_filter.mp hx).1)
  | named ts =>
    simp only [selectGroups, Except.ok.injEq] at hsel
    subst hsel
    rw [flatten_singletons]
    exact hnamed ts rfl
  | deps roots =>
    simp only [selectGroups] at hsel
    have hp := labeled_flatten_perm hsel
    exact ⟨hp.nodup_iff.mpr (closure_nodup g _), fun x hx => closure_lt g _ x (hp.mem_iff.mp hx)⟩

/-- **C04 (from the configuration to the trace).** For every configuration whose target paths name
pairwise different normal directories (with or without a trailing separator), for `run` without
`-t` (whatever `analyze` reported as changed) and for `run -t .. --deps`, every list of commands,
every resolution of commands to executables and every schedule: if target `T` depends on target `U`
(`U`'s directory encloses `T`'s, or equals or encloses one of `T`'s `uses` entries) and both are
part of the run, then for each command the executable of `T` is not started until the executable of
`U` - if it was started at all - has completed. -/
theorem c04_config {cfg : Config} (hwf : WFD cfg) {sel : Selection} {groups : List (List Nat)}
    (hsel : selectGroups (graphOf cfg) sel = .ok groups) (hmode : ∀ ts, sel ≠ .named ts)
    {i j : Nat} {T U : Target} (hT : cfg[i]? = some T) (hU : cfg[j]? = some U) (hne : j ≠ i)
    (hd : DependsOnD T U) (hi : i ∈ groups.flatten) (hj : j ∈ groups.flatten)
    (ncmd : Nat) (disp : Nat → Nat → Disp) {c : Nat} (hc : c < ncmd) (fou : Bool)
    (inputs : List (Nat × Outcome)) {pre post : List Ev} {gp : Nat}
    (h : (runExec fou (planOf cfg.length ncmd disp groups) inputs).trace =
      pre ++ Ev.spawn gp (taskId cfg.length c i) :: post)
    {gp' : Nat} (hus : Ev.spawn gp' (taskId cfg.length c j) ∈
      (runExec fou (planOf cfg.length ncmd disp groups) inputs).trace) :
    ∃ oc, Ev.done (taskId cfg.length c j) oc ∈ pre := by
  have hwfg := selectGroups_wellformed hsel (fun ts hts => absurd hts (hmode ts))
  rw [graphOf_size] at hwfg
  have hB : Before groups j i := by
    cases sel with
    | named ts => exact absurd rfl (hmode ts)
    | deps roots =>
      simp only [selectGroups] at hsel
      have hp := labeled_flatten_perm hsel
      exact c03_index_order_dir hwf hsel hT hU hne hd (hp.mem_iff.mp hi)
    | changed ch =>
      simp only [selectGroups] at hsel
      cases hl : labeledGroups (graphOf cfg) (List.range (graphOf cfg).size) with
      | error e => simp [hl] at hsel
      | ok lgs =>
        simp only [hl, Except.ok.injEq] at hsel
        subst hsel
        have hp := labeled_flatten_perm hl
        have hi' := (c03_prune_mem _ lgs i).mp hi
        have hj' := (c03_prune_mem _ lgs j).mp hj
        exact c03_prune_order _ (c03_index_order_dir hwf hl hT hU hne hd (hp.mem_iff.mp hi'.1)) hi'.2 hj'.2
  exact c04_plan_dep cfg.length ncmd disp groups hwfg.1 hwfg.2 hB hc fou inputs h hus

/-! ## Non-vacuity: `core/` declared with a trailing slash, `app` uses `core`; `run -t app --deps`
with two commands and a schedule in which every executable exits 0 -/

example : wfDB exCfgSlash = true := by decide
example : selectGroups (graphOf exCfgSlash) (.deps [1]) = .ok [[0], [1]] := by decide
example : selectGroups (graphOf exCfgSlash) (.changed [1, 3, 0]) = .ok [[0], [1, 3]] := by decide
example : (runExec false (planOf 4 2 (fun _ _ => .run) [[0], [1]]) [(0, .code 0), (1, .code 0), (4, .code 0), (5, .code 0)]).trace =
    [.spawn 0 0, .done 0 (.code 0), .spawn 1 1, .done 1 (.code 0), .spawn 2 4, .done 4 (.code 0),
     .spawn 3 5, .done 5 (.code 0)] := by decide

end Monorail
