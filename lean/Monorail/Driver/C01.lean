import Monorail.Driver.Util
import Monorail.Spec.C01
open Lean
namespace Monorail.Driver

def reasonOf (s : String) : Except String Reason :=
  match s with
  | "target" => pure .target
  | "uses" => pure .uses
  | "ignores" => pure .ignores
  | _ => throw s!"bad reason {s}"

def reasonStr : Reason → String
  | .target => "target" | .uses => "uses" | .ignores => "ignores"

def jEntry (e : Path × Reason) : Json := Json.arr #[Json.str (bytesStr e.1), Json.str (reasonStr e.2)]

def entriesOf (a : Array Json) : Except String (List (Path × Reason)) :=
  a.toList.mapM (fun x => do
    let p ← getStr x "path"
    let r ← getStr x "reason"
    let r ← reasonOf r
    pure (strBytes p, r))

def indexErr (cfg : Config) : Option String :=
  if hasDupPath cfg then some "dup_label"
  else match groups ⟨adjacency cfg⟩ (List.range cfg.length) with
    | .error _ => some "cycle"
    | .ok _ => none

def jGroups : Except GraphErr (List (List Path)) → Json
  | .ok gs => jPathLists gs
  | .error _ => Json.str "cycle"

/-- request {"op":"c01","targets":[..],"changes":[..]|null,"k":50,
            "obs":{"targets":[..],"changes":[[{"path","reason"}..]..]?}?} -/
def handleC01 (j : Json) : Except String Json := do
  let cfg ← configOf j
  let k := (getNat j "k").toOption.getD 50
  let csOpt : Option (List Path) ← match j.getObjVal? "changes" with
    | .ok (.arr a) => do let l ← pathsOf a; pure (some l)
    | _ => pure none
  let wf := wfAllDB cfg && (csOpt.getD []).all (changeOkB cfg)
  let model : Json :=
    match indexErr cfg with
    | some e => Json.mkObj [("err", Json.str e)]
    | none =>
      let out := match csOpt with
        | some cs => analyze cfg cs k
        | none => analyzeAll cfg
      Json.mkObj [("ok", Json.mkObj [
        ("targets", jPaths out.targets),
        ("changes", Json.arr (out.changes.map (fun c =>
            Json.mkObj [("path", Json.str (bytesStr c.1)), ("targets", Json.arr (c.2.map jEntry).toArray)])).toArray),
        ("groups", jGroups out.groups)])]
  let base := [("wf", Json.bool wf), ("model", model)]
  match j.getObjVal? "obs", csOpt with
  | .ok obs, some cs =>
    if !wf then pure (Json.mkObj (base ++ [("oracle", Json.str "skip")]))
    else do
      let ts ← pathsOf (optArr obs "targets")
      let v1 := c01CheckTargetsD cfg cs ts
      let v2 ← match obs.getObjVal? "changes" with
        | .ok (.arr a) => do
          let bd ← a.toList.mapM (fun x => do let r ← x.getArr?; entriesOf r)
          pure (c01CheckBreakdown ts bd)
        | _ => pure none
      match v1, v2 with
      | none, none => pure (Json.mkObj (base ++ [("oracle", Json.str "ok")]))
      | some w, _ => pure (Json.mkObj (base ++ [("oracle", Json.str "fail"), ("why", Json.str w)]))
      | none, some w => pure (Json.mkObj (base ++ [("oracle", Json.str "fail"), ("why", Json.str w)]))
  | _, _ => pure (Json.mkObj (base ++ [("oracle", Json.str "none")]))

end Monorail.Driver
