import Monorail.Proofs.ExecInv
import Monorail.Generated.Consts
/-!
# C06 — failure stops the run; statuses, failed flag and exit code are truthful
-/
namespace Monorail

/-- **C06 (failed flag).** Under every schedule, `failed` is true exactly when the result document
contains a failure: an `error` entry, a `not_executable` entry, or (with `--fail-on-undefined`) an
`undefined` entry. -/
theorem c06_failed_iff (fou : Bool) (plan : List Group) (inputs : List (Nat × Outcome)) :
    (runExec fou plan inputs).failed = true ↔
      ∃ e ∈ (runExec fou plan inputs).results, isFailure fou e.2 = true :=
  (runExec_inv fou plan inputs).fail

/-- **C06 (exit status).** 1 when failed, 0 otherwise — the constants the code uses today. -/
theorem c06_exit (s : ExecSt) :
    exitStatus s = if s.failed then Consts.exitErr else Consts.exitOk := by
  unfold exitStatus
  have h1 : Consts.exitErr = 1 := by decide
  have h0 : Consts.exitOk = 0 := by decide
  rw [h1, h0]

theorem stepExec_failed_mono (fou : Bool) (s : ExecSt) (id : Nat) (oc : Outcome)
    (hf : s.failed = true) : (stepExec fou s id oc).failed = true := by
  rw [stepExec_eq]
  split
  · split
    · simp only [advSt]
      exact advance_failed_mono fou _ _ _ (by simp [doneSt, hf])
    · simp [doneSt, hf]
  · exact hf

/-- **C06 (latch, one step).** Once the run has failed, no step ever starts another executable. -/
theorem c06_latch_step (fou : Bool) (s : ExecSt) (id : Nat) (oc : Outcome) (hf : s.failed = true) :
    spawnIds (stepExec fou s id oc).trace = spawnIds s.trace := by
  rw [stepExec_eq]
  split
  · split
    · have hfd : (doneSt s id oc).failed = true := by simp [doneSt, hf]
      have := ((advance_facts fou (doneSt s id oc).rest ((doneSt s id oc).gidx + 1) (doneSt s id oc).failed).2.2.2.1 hfd).1
      simp only [advSt, spawnIds_append, this, List.map_nil, List.append_nil]
      simp [doneSt, spawnIds_append, spawnIds_done]
    · simp [doneSt, spawnIds_append, spawnIds_done]
  · rfl

/-- **C06 (latch).** After the first failure — non-zero exit, missing execute permission, undefined
under `--fail-on-undefined`, or a task torn down — no executable of a later group or command is ever
started, whatever completions follow. -/
theorem c06_latch (fou : Bool) (plan : List Group) (inputs more : List (Nat × Outcome))
    (hf : (runExec fou plan inputs).failed = true) :
    spawnIds (runExec fou plan (inputs ++ more)).trace = spawnIds (runExec fou plan inputs).trace ∧
    (runExec fou plan (inputs ++ more)).failed = true := by
  unfold runExec at hf ⊢
  rw [List.foldl_append]
  generalize inputs.foldl (fun s io => stepExec fou s io.1 io.2) (startExec fou plan) = s at hf ⊢
  induction more generalizing s with
  | nil => exact ⟨rfl, hf⟩
  | cons io rest ih =>
    simp only [List.foldl_cons]
    obtain ⟨h1, h2⟩ := ih (stepExec fou s io.1 io.2) (stepExec_failed_mono fou s io.1 io.2 hf)
    exact ⟨h1.trans (c06_latch_step fou s io.1 io.2 hf), h2⟩

/-- **C06 (later entries are `skipped`).** Whatever is scheduled after a failure is recorded as
`skipped`, and nothing of it is started. -/
theorem c06_skipped_after_failure (fou : Bool) (rest : List Group) (gi : Nat) :
    (advance fou rest gi true).spawns = [] ∧ ∀ e ∈ (advance fou rest gi true).results, e.2 = .skipped := by
  obtain ⟨h1, _, h3⟩ := (advance_facts fou rest gi true).2.2.2.1 rfl
  exact ⟨h1, h3⟩

/-- **C06 (truthful entries, spawned side).** A `success` entry means the process completed with
exit code 0; an `error` entry carrying a code means it exited with exactly that (non-zero) code. -/
theorem c06_truth (fou : Bool) (plan : List Group) (inputs : List (Nat × Outcome)) {i : Nat} {st : Status}
    (h : (i, st) ∈ (runExec fou plan inputs).results) :
    (st = .success → Ev.done i (.code 0) ∈ (runExec fou plan inputs).trace) ∧
    (∀ k, st = .error (some k) → k ≠ 0 ∧ Ev.done i (.code k) ∈ (runExec fou plan inputs).trace) :=
  ⟨((runExec_inv fou plan inputs).truth (i, st) h).1, ((runExec_inv fou plan inputs).truth (i, st) h).2.1⟩

theorem mem_spawnIds {tr : List Ev} {i : Nat} : i ∈ spawnIds tr ↔ ∃ g, Ev.spawn g i ∈ tr := by
  simp only [spawnIds, List.mem_filterMap]
  constructor
  · rintro ⟨e, he, hm⟩
    cases e with
    | spawn g j => simp at hm; subst hm; exact ⟨g, he⟩
    | done j oc => simp at hm
  · rintro ⟨g, hg⟩
    exact ⟨Ev.spawn g i, hg, rfl⟩

/-- **C06 (truthful entries, never-started side).** When the (command, target) pairs of the plan
are distinct: an `undefined`, `not_executable` or `skipped` entry means no process was ever started
for that pair; and a `success` / `error` entry means one was. -/
theorem c06_never_started (fou : Bool) (plan : List Group) (hnd : (planIds plan).Nodup)
    (inputs : List (Nat × Outcome)) {i : Nat} {st : Status}
    (h : (i, st) ∈ (runExec fou plan inputs).results) (hst : isSpawnStatus st = false) :
    ∀ g, Ev.spawn g i ∉ (runExec fou plan inputs).trace := by
  intro g hg
  have inv := runExec_inv fou plan inputs
  generalize runExec fou plan inputs = s at *
  -- ids of results ++ running are duplicate free
  have hnd2 : (rIds s.results ++ s.running ++ planIds s.rest).Nodup := inv.perm.nodup_iff.mpr hnd
  have hnd3 : (rIds s.results ++ s.running).Nodup := (List.nodup_append.mp hnd2).1
  -- i is spawned, so it is running or has a spawn-status entry
  have hi : i ∈ s.running ++ rIds (s.results.filter (fun e => isSpawnStatus e.2)) :=
    inv.spawned.mem_iff.mp (mem_spawnIds.mpr ⟨g, hg⟩)
  obtain ⟨pre, post, hsplit⟩ := List.append_of_mem h
  rcases List.mem_append.mp hi with hr | hr
  · -- i in results and in running: contradiction with distinctness
    have : i ∈ rIds s.results := List.mem_map.mpr ⟨(i, st), h, rfl⟩
    exact (List.nodup_append.mp hnd3).2.2 i this i hr rfl
  · -- a second entry for i with a spawn status
    obtain ⟨e, he, hei⟩ := List.mem_map.mp hr
    have hem := List.mem_filter.mp he
    have hne : e ≠ (i, st) := by
      intro heq; rw [heq] at hem; simp [hst] at hem
    have hnd4 : (rIds s.results).Nodup := (List.nodup_append.mp hnd3).1
    rw [hsplit] at hem hnd4
    simp only [rIds, List.map_append, List.map_cons] at hnd4
    have hem1 := hem.1
    simp only [List.mem_append, List.mem_cons] at hem1
    rw [List.nodup_append] at hnd4
    obtain ⟨_, hpost, hdisj⟩ := hnd4
    rw [List.nodup_cons] at hpost
    rcases hem1 with hp | hp | hp
    · exact hdisj e.1 (List.mem_map_of_mem hp) i (by simp) hei
    · exact hne hp
    · exact hpost.1 (by rw [← hei]; exact List.mem_map_of_mem hp)

/-- **C06 (no failure, no flag).** If no command file lacks the execute permission, undefined
commands occur only without `--fail-on-undefined`, and every completion is an exit with status 0,
then under every schedule the run reports `failed = false` and exits 0. -/
theorem c06_success (fou : Bool) (plan : List Group)
    (hplan : ∀ g ∈ plan, ∀ t ∈ g, t.disp ≠ .notExec ∧ (t.disp = .undefined → fou = false))
    (inputs : List (Nat × Outcome)) (hin : ∀ io ∈ inputs, io.2 = .code 0) :
    (runExec fou plan inputs).failed = false ∧ exitStatus (runExec fou plan inputs) = 0 := by
  have hadv : ∀ (rest : List Group) (gi : Nat), (∀ g ∈ rest, g ∈ plan) →
      (advance fou rest gi false).failed = false := by
    intro rest gi hsub
    obtain ⟨_, a2, a3, _⟩ := advance_facts fou rest gi false
    cases hfa : (advance fou rest gi false).failed with
    | false => rfl
    | true =>
      rcases a3.mp hfa with h | ⟨e, he, hfe⟩
      · cases h
      · obtain ⟨g, hg, t, ht, _, hok⟩ := a2 e he
        obtain ⟨hne, hund⟩ := hplan g (hsub g hg) t ht
        rcases hok with h | ⟨h, hd⟩ | ⟨h, hd⟩
        · rw [h] at hfe; simp [isFailure] at hfe
        · rw [h] at hfe; simp [isFailure, hund hd] at hfe
        · exact absurd hd hne
  have key : ∀ (ins : List (Nat × Outcome)), (∀ io ∈ ins, io.2 = .code 0) → ∀ s : ExecSt,
      ExecInv fou plan s → s.failed = false →
      (ins.foldl (fun s io => stepExec fou s io.1 io.2) s).failed = false := by
    intro ins
    induction ins with
    | nil => intro _ s _ hf; exact hf
    | cons io rest ih =>
      intro hall s hinv hf
      simp only [List.foldl_cons]
      apply ih (fun x hx => hall x (List.mem_cons_of_mem _ hx)) _ (stepExec_inv hinv io.1 io.2)
      have hoc : io.2 = .code 0 := hall io List.mem_cons_self
      rw [stepExec_eq]
      split
      · split
        · simp only [advSt]
          have : (doneSt s io.1 io.2).failed = false := by simp [doneSt, hf, hoc, Outcome.fails]
          rw [this]
          exact hadv _ _ hinv.sub
        · simp [doneSt, hf, hoc, Outcome.fails]
      · exact hf
  have h0 : (startExec fou plan).failed = false := by
    simp only [startExec]; exact hadv plan 0 (fun g hg => hg)
  have := key inputs hin (startExec fou plan) (startExec_inv fou plan) h0
  exact ⟨this, by simp [exitStatus, runExec, this]⟩

/-! ## Non-vacuity: a failure in the first group of the first command -/

example : let s := runExec false [[⟨0, .run⟩, ⟨1, .run⟩], [⟨2, .run⟩], [⟨3, .notExec⟩]] [(1, .code 7), (0, .code 0)]
    s.failed = true ∧ exitStatus s = 1 ∧
    s.results = [(1, .error (some 7)), (0, .success), (2, .skipped), (3, .skipped)] ∧
    spawnIds s.trace = [0, 1] := by decide

end Monorail
