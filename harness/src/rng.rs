//! SplitMix64: every random choice of a run derives from one seed.
#[derive(Clone)]
pub struct Rng(pub u64);
impl Rng {
    pub fn new(seed: u64) -> Self {
        Rng(seed ^ 0x9E3779B97F4A7C15)
    }
    pub fn next(&mut self) -> u64 {
        self.0 = self.0.wrapping_add(0x9E3779B97F4A7C15);
        let mut z = self.0;
        z = (z ^ (z >> 30)).wrapping_mul(0xBF58476D1CE4E5B9);
        z = (z ^ (z >> 27)).wrapping_mul(0x94D049BB133111EB);
        z ^ (z >> 31)
    }
    /// uniform in 0..n (n > 0)
    pub fn below(&mut self, n: usize) -> usize {
        (self.next() % (n as u64)) as usize
    }
    /// uniform in lo..=hi
    pub fn range(&mut self, lo: usize, hi: usize) -> usize {
        lo + self.below(hi - lo + 1)
    }
    pub fn chance(&mut self, num: usize, den: usize) -> bool {
        self.below(den) < num
    }
    pub fn pick<'a, T>(&mut self, v: &'a [T]) -> &'a T {
        &v[self.below(v.len())]
    }
    pub fn shuffle<T>(&mut self, v: &mut [T]) {
        for i in (1..v.len()).rev() {
            let j = self.below(i + 1);
            v.swap(i, j);
        }
    }
    pub fn fork(&mut self) -> Rng {
        Rng(self.next())
    }
}
