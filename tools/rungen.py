"""Generator of `monorail run` scenarios shared by the CLI-level checks: an acyclic configuration
(nesting, uses, prefix-sharing names), command executables in default / custom directories or via
definitions, argmap files, and an invocation (selection mode, commands / sequences, flags)."""
import json
import os

import scen

NAMES = ["app", "app2", "lib", "lib2", "core", "web", "a b", "é", "x"]
COMMANDS = ["build", "test", "lint", "prep", "deploy"]
ODD_ARGS = ["", " ", "a b", "--flag", "-x", "'quoted'", "\"dq\"", "$HOME", "*", "é", "a\nb", "tab\there", "--k=v w"]


def gen_targets(rng, nmin=1, nmax=6, dense=False):
    """acyclic by construction: a target only uses targets declared before it in a hidden order"""
    n = rng.range(nmin, nmax)
    paths = []
    while len(paths) < n:
        if paths and rng.chance(1, 3):
            p = rng.pick(paths) + "/" + rng.pick(NAMES)
        elif paths and rng.chance(1, 6):
            p = rng.pick(paths) + "2"
        else:
            p = rng.pick(NAMES) if rng.chance(2, 3) else rng.pick(NAMES) + "/" + rng.pick(NAMES)
        if p not in paths:
            paths.append(p)
    targets = []
    for i, p in enumerate(paths):
        t = {"path": p}
        uses = []
        for q in paths[:i]:
            # never use something nested in p or enclosing p in a way that closes a cycle:
            # q declared earlier; q may enclose p (edge p->q exists anyway); q nested in p would give
            # p->q (uses) and q->p (nesting): a cycle, so skip those
            if q.startswith(p + "/"):
                continue
            if rng.chance(1, 2 if dense else 4):
                uses.append(q if rng.chance(1, 2) else q + "/src/x.rs")
        if uses:
            t["uses"] = uses
        targets.append(t)
    # a later-declared target nested in an earlier one that uses ... check acyclicity by brute force below
    order = list(range(n))
    rng.shuffle(order)
    targets = [targets[i] for i in order]
    return targets


def deps_of(targets):
    """the documented dependency relation (whole components), used by generators only"""
    def comps(x):
        return [c for c in x.split("/") if c != ""]

    def within(d, p):
        cd = comps(d)
        return comps(p)[:len(cd)] == cd
    n = len(targets)
    adj = [[] for _ in range(n)]
    for i, t in enumerate(targets):
        for j, u in enumerate(targets):
            if i == j:
                continue
            if within(u["path"], t["path"]) or any(within(u["path"], x) for x in t.get("uses", [])):
                adj[i].append(j)
    return adj


def is_acyclic(targets):
    adj = deps_of(targets)
    n = len(adj)
    state = [0] * n

    def dfs(v):
        state[v] = 1
        for w in adj[v]:
            if state[w] == 1:
                return False
            if state[w] == 0 and not dfs(w):
                return False
        state[v] = 2
        return True
    return all(state[v] != 0 or dfs(v) for v in range(n))


def gen_acyclic_targets(rng, nmin=1, nmax=6, dense=False):
    for _ in range(50):
        ts = gen_targets(rng, nmin, nmax, dense)
        if is_acyclic(ts):
            return ts
    return [{"path": "app"}]


def closure(targets, named):
    adj = deps_of(targets)
    idx = {t["path"]: i for i, t in enumerate(targets)}
    seen = set()
    stack = [idx[x] for x in named if x in idx]
    while stack:
        v = stack.pop()
        if v in seen:
            continue
        seen.add(v)
        stack.extend(adj[v])
    return sorted(targets[i]["path"] for i in seen)


class RunScenario:
    """a repository + one `run` invocation, with everything the oracle needs to know"""

    def __init__(self, rng, max_targets=5, with_argmaps=True, custom_dirs=True, undefined_pct=10, slash=False, force_mode=None, force_fou=None, dense=False, nested_only=False):
        self.rng = rng
        self.targets = gen_acyclic_targets(rng, 3 if (dense or nested_only) else 1, max_targets, dense)
        if nested_only:
            # the only dependencies are those of nesting
            base = [t["path"] for t in self.targets]
            self.targets = [{"path": p} for p in base]
            for p in list(base)[:2]:
                child = p + "/" + rng.pick(["api", "inner"])
                if child not in base:
                    self.targets.append({"path": child})
                    base.append(child)
            rng.shuffle(self.targets)
        if slash and rng.chance(1, 2):
            # a target path written with a trailing slash names the same directory
            t = rng.pick(self.targets)
            t["path"] = t["path"] + "/"
        ncmd = rng.range(1, 3)
        cmds = list(COMMANDS)
        rng.shuffle(cmds)
        self.all_commands = cmds[:ncmd + 1]
        self.sequences = {}
        self.use_sequences = []
        self.commands = cmds[:ncmd]
        if rng.chance(1, 4):
            self.sequences = {"seq": [cmds[ncmd]] + ([cmds[0]] if False else [])}
            self.use_sequences = ["seq"]
        # where each target keeps / defines its commands
        self.cmd_layout = {}   # target -> {"dir": abs or None, "defs": {cmd: relpath or ""}, "files": {cmd: filename or None}}
        self.argmap_dir = {}   # target -> repo-relative dir
        self.argmap_files = {}  # target -> {name: {cmd: [args]}}
        self.missing_defs = set()
        dir_files = {}         # commands directory -> {cmd: filename or None}; may be shared by targets
        dir_decoys = {}        # commands directory -> [file names that define no command]
        dir_symlinks = {}      # commands directory -> {cmd: is the file a symbolic link}
        for t in self.targets:
            p = t["path"]
            lay = {"custom_dir": None, "defs": {}, "files": {}}
            if custom_dirs and rng.chance(1, 4):
                lay["custom_dir"] = rng.pick(["tools/shared", "tools/shared", "tools/cmd_" + p.replace("/", "_"), p + "/scripts"])
                t.setdefault("commands", {})["path"] = lay["custom_dir"]
            dkey = lay["custom_dir"] or (p + "/monorail/cmd")
            files = dir_files.setdefault(dkey, {})
            decoys = dir_decoys.setdefault(dkey, [])
            lay["decoys"] = decoys
            lay["symlinks"] = dir_symlinks.setdefault(dkey, {})
            for c in self.all_commands:
                if c not in files:
                    if rng.below(100) < undefined_pct:
                        files[c] = None              # undefined
                    else:
                        files[c] = c + (rng.pick(["", ".sh", ".py"]) if rng.chance(1, 2) else "")
                    if rng.chance(1, 4):
                        # executable files whose stem is NOT the command: leftovers of an editor, a
                        # merge or a rename, and prefix-sharing names; none of them defines `c`
                        decoys.append(c + rng.pick([".sh.disabled", ".sh.orig", ".py.rej", "2.sh", "_old.sh", ".bak.sh", "-ci"]))
                lay["files"][c] = files[c]
                if files[c] is not None and c not in dir_symlinks.setdefault(dkey, {}):
                    # a command file may be a symbolic link to a script shared between targets
                    dir_symlinks[dkey][c] = rng.chance(1, 6)
                if custom_dirs and rng.chance(1, 6 if lay["custom_dir"] == "tools/shared" else 10):
                    if rng.chance(1, 3):
                        lay["defs"][c] = ""            # definition without a path: discovered by stem
                    else:
                        lay["defs"][c] = "bin/" + p.replace("/", "_") + "/" + c + ".run"
                        if files[c] is not None and rng.chance(1, 4):
                            # the definition names a file that is not there (yet), while a file with
                            # the command's stem sits in the commands directory: the definition wins,
                            # nothing is started and the entry is `not_executable`
                            self.missing_defs.add((c, p))
            if lay["defs"]:
                t.setdefault("commands", {})["definitions"] = {c: ({"path": v} if v else {}) for c, v in lay["defs"].items()}
            self.cmd_layout[p] = lay
            amdir = p + "/monorail/argmap"
            if with_argmaps and custom_dirs and rng.chance(1, 6):
                amdir = "argmaps/" + p.replace("/", "_")
                t.setdefault("argmaps", {})["path"] = amdir
            self.argmap_dir[p] = amdir
            files = {}
            if with_argmaps:
                for name in ["base", "ci", "dev.linux"]:     # an argmap name may contain dots: the file is <name>.json
                    if rng.chance(1, 2):
                        content = {}
                        for c in self.all_commands:
                            if rng.chance(2, 3):
                                content[c] = [rng.pick(ODD_ARGS) for _ in range(rng.range(0, 3))]
                        files[name] = content
            self.argmap_files[p] = files
        # invocation
        paths = [t["path"] for t in self.targets]
        nameable = [p for p in paths if " " not in p]   # -t splits its values on spaces
        mode = rng.below(3) if nameable else 0
        if force_mode is not None and nameable:
            mode = force_mode
        self.named = []
        self.deps = False
        if mode == 1:
            k = rng.range(1, min(3, len(nameable)))
            self.named = sorted(set(rng.pick(nameable) for _ in range(k)))
        elif mode == 2:
            k = rng.range(1, min(2, len(nameable)))
            self.named = sorted(set(rng.pick(nameable) for _ in range(k)))
            self.deps = True
        self.use_base = not rng.chance(1, 5)
        self.argmaps = []
        if with_argmaps:
            for _ in range(rng.below(3)):
                self.argmaps.append(rng.pick(["ci", "dev.linux", "missing"]))
        self.args = []
        if with_argmaps and rng.chance(1, 4):
            self.args = [a for a in (rng.pick(ODD_ARGS) for _ in range(rng.range(1, 3))) if not a.startswith("-")]
            if self.args and rng.chance(3, 4):
                # make it legal: exactly one command, one named target
                self.commands = self.commands[:1]
                self.named = self.named[:1] or ([rng.pick(nameable)] if nameable else [])
        self.fail_on_undefined = rng.chance(1, 4)
        if force_fou is not None:
            self.fail_on_undefined = force_fou

    def expected_targets(self):
        paths = sorted(t["path"] for t in self.targets)
        if not self.named:
            return paths
        if self.deps:
            return closure(self.targets, self.named)
        return sorted(self.named)

    def command_list(self):
        out = []
        for s in self.use_sequences:
            out += self.sequences[s]
        return out + self.commands

    def build_repo(self, max_retained_runs=None):
        repo = scen.Repo(self.targets, max_retained_runs=max_retained_runs, sequences=self.sequences or None)
        self.expected_exe = {}
        for t in self.targets:
            p = t["path"]
            lay = self.cmd_layout[p]
            cdir = os.path.join(repo.dir, lay["custom_dir"]) if lay["custom_dir"] else os.path.join(repo.dir, p, "monorail", "cmd")
            for c in self.all_commands:
                fn = lay["files"].get(c)
                exe = None
                if fn is not None:
                    exe = repo.install(p, fn, at=cdir, symlink=bool(lay.get("symlinks", {}).get(c)))
                    # install() appends nothing: the file name already carries the extension
                if c in lay["defs"] and lay["defs"][c]:
                    d = os.path.join(repo.dir, lay["defs"][c])
                    os.makedirs(os.path.dirname(d), exist_ok=True)
                    # the definition names its own file; its stem need not be the command
                    exe = d
                    if os.path.lexists(d):
                        os.remove(d)
                    if (c, p) not in self.missing_defs:
                        os.link(scen.HELPER, d)
                self.expected_exe[(c, p)] = exe
            for name in lay.get("decoys", []):
                dst = os.path.join(cdir, name)
                if not os.path.lexists(dst):
                    os.makedirs(cdir, exist_ok=True)
                    os.link(scen.HELPER, dst)
            am = os.path.join(repo.dir, self.argmap_dir[p])
            for name, content in self.argmap_files[p].items():
                os.makedirs(am, exist_ok=True)
                with open(os.path.join(am, name + ".json"), "w") as f:
                    json.dump(content, f)
                if "." in name:
                    # a file at the name cut at its first dot: nobody asks for it, it is never read
                    with open(os.path.join(am, name.split(".")[0] + ".json"), "w") as f:
                        json.dump({c: ["--decoy-argmap"] for c in self.all_commands}, f)
        return repo

    def argv(self):
        a = ["run"]
        if self.commands:
            a += ["-c"] + self.commands
        if self.use_sequences:
            a += ["-s"] + self.use_sequences
        if self.named:
            a += ["-t"] + self.named
        if self.deps:
            a += ["--deps"]
        if not self.use_base:
            a += ["--no-base-argmaps"]
        if self.argmaps:
            a += ["-m"] + self.argmaps
        for x in self.args:
            a += ["-a", x]
        if self.fail_on_undefined:
            a += ["--fail-on-undefined"]
        return a

    def describe(self):
        return {"targets": self.targets, "commands": self.commands, "sequences": self.sequences, "use_sequences": self.use_sequences,
                "named": self.named, "deps": self.deps, "use_base": self.use_base, "argmaps": self.argmaps, "args": self.args,
                "fail_on_undefined": self.fail_on_undefined, "argmap_files": self.argmap_files,
                "definitions_naming_a_missing_file": sorted("%s|%s" % k for k in self.missing_defs),
                "layout": {k: {"custom_dir": v["custom_dir"], "defs": v["defs"], "files": v["files"], "decoys": v.get("decoys", [])}
                           for k, v in self.cmd_layout.items()}}
