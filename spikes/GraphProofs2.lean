import Spike.GraphProofs
import Mathlib.Order.WellFounded
namespace G

theorem peel_subset (g : Graph) (rem : List Nat) : ∀ v ∈ peel g rem, v ∈ rem :=
  fun _ hv => (mem_peel.mp hv).1

theorem filter_not_peel_length_lt (g : Graph) (rem : List Nat) (h : (peel g rem).isEmpty = false) :
    (rem.filter (fun v => !(peel g rem).contains v)).length < rem.length := by
  cases hp : peel g rem with
  | nil => simp [hp] at h
  | cons a t =>
    have ha : a ∈ peel g rem := by simp [hp]
    have har : a ∈ rem := peel_subset g rem a ha
    apply List.length_filter_lt_length_iff_exists.mpr
    exact ⟨a, har, by simp [← hp, ha]⟩

/-- when the loop stops, nothing more can be peeled from the leftover -/
theorem left_stuck (g : Graph) : ∀ (fuel : Nat) (rem : List Nat), rem.length ≤ fuel →
    peel g (layersAux g fuel rem).2 = [] := by
  intro fuel
  induction fuel with
  | zero =>
    intro rem h
    have : rem = [] := List.length_eq_zero_iff.mp (Nat.le_zero.mp h)
    simp [layersAux, this, peel]
  | succ fuel ih =>
    intro rem h
    simp only [layersAux]
    split
    · rename_i he; simpa [List.isEmpty_iff] using he
    · rename_i he
      apply ih
      have := filter_not_peel_length_lt g rem (by simpa using he)
      omega

/-- "x depends on a" -/
def Dep (g : Graph) (x a : Nat) : Prop := a ∈ g.out x

/-- COMPLETENESS: if the depends-on relation is well founded (finite graph: no cycle),
nothing is left over, i.e. `get_groups` succeeds. -/
theorem complete (g : Graph) (vis : List Nat) (hwf : WellFounded (Dep g)) :
    (layers g vis).2 = [] := by
  have hs := left_stuck g vis.length vis (Nat.le_refl _)
  unfold layers
  generalize (layersAux g vis.length vis).2 = left at hs ⊢
  cases left with
  | nil => rfl
  | cons a t =>
    exfalso
    -- take a minimal element of the non-empty leftover
    obtain ⟨m, hm, hmin⟩ := hwf.has_min {x | x ∈ a :: t} ⟨a, List.mem_cons_self⟩
    have : m ∈ peel g (a :: t) := mem_peel.mpr ⟨hm, fun u hu hmu => hmin u hu hmu⟩
    simp [hs] at this

/-- C09 direction: a reachable cycle (any non-empty set closed under "has a dependent inside")
is left over, so `get_groups` reports a cycle. -/
theorem cyclic_left (g : Graph) (vis C : List Nat) (hne : C ≠ [])
    (hsub : ∀ v ∈ C, v ∈ vis) (hC : ∀ v ∈ C, ∃ u ∈ C, v ∈ g.out u) :
    (layers g vis).2 ≠ [] := by
  intro h
  cases C with
  | nil => exact hne rfl
  | cons c t =>
    have := stuck_aux g (c :: t) hC vis.length vis hsub c (by simp)
    unfold layers at h
    simp [h] at this
end G
