import Monorail.Proofs.Log
/-!
# C20 — what `log tail` prints reassembles to each task's log, within its filters
-/
namespace Monorail

/-- the payloads of the `data` requests -/
def payloads : List CReq → List (List Bytes)
  | [] => []
  | .data ls :: rest => ls :: payloads rest
  | .endReq :: rest => payloads rest

theorem payloads_append (a b : List CReq) : payloads (a ++ b) = payloads a ++ payloads b := by
  induction a with
  | nil => rfl
  | cons r rest ih => cases r <;> simp [payloads, ih]

theorem dataBytes_payloads (out : List CReq) : dataBytes out = ((payloads out).map List.flatten).flatten := by
  induction out with
  | nil => rfl
  | cons r rest ih => cases r <;> simp [dataBytes, payloads, ih]

theorem flush_blocks (s : RSt) (hc : s.client = true) (hb : s.blocks = payloads s.out) :
    (flush (fun _ => true) s).client = true ∧
    (flush (fun _ => true) s).blocks = payloads (flush (fun _ => true) s).out := by
  unfold flush
  by_cases he : s.lines.isEmpty
  · simp [he, hc, hb]
  · simp [he, hc, hb, payloads_append, payloads]

/-- **C20 (blocks = flushes).** With a listener that stays connected, the blocks it is sent are
exactly the flushes sent to the compressor, in the same order — for every chunking and tick
placement. -/
theorem c20_blocks (evs : List REv) :
    (rrun (fun _ => true) true evs).blocks = payloads (rrun (fun _ => true) true evs).out := by
  unfold rrun
  have : ∀ (s : RSt), s.client = true → s.blocks = payloads s.out →
      (evs.foldl (rstep (fun _ => true)) s).client = true ∧
      (evs.foldl (rstep (fun _ => true)) s).blocks = payloads (evs.foldl (rstep (fun _ => true)) s).out := by
    induction evs with
    | nil => intro s hc hb; exact ⟨hc, hb⟩
    | cons e rest ih =>
      intro s hc hb
      simp only [List.foldl_cons]
      apply ih
      · unfold rstep
        split
        · exact hc
        · cases e with
          | chunk bs => exact hc
          | tick => exact (flush_blocks s hc hb).1
          | eof =>
            simp only [finish]
            exact (flush_blocks _ (by split <;> simp [hc]) (by split <;> simp [hb])).1
          | cancel =>
            simp only [finish]
            exact (flush_blocks _ (by split <;> simp [hc]) (by split <;> simp [hb])).1
      · unfold rstep
        split
        · exact hb
        · cases e with
          | chunk bs => exact hb
          | tick => exact (flush_blocks s hc hb).2
          | eof =>
            simp only [finish]
            have := (flush_blocks (if s.buf.isEmpty then s else { s with lines := s.lines ++ [s.buf], buf := [] })
              (by split <;> simp [hc]) (by split <;> simp [hb])).2
            rw [payloads_append]
            simp only [payloads, List.append_nil]
            exact this
          | cancel =>
            simp only [finish]
            have := (flush_blocks (if s.buf.isEmpty then s else { s with lines := s.lines ++ [s.buf], buf := [] })
              (by split <;> simp [hc]) (by split <;> simp [hb])).2
            rw [payloads_append]
            simp only [payloads, List.append_nil]
            exact this
  exact (this (RSt.init true) rfl rfl).2

/-- **C20 (reassembly, every interleaving).** Whatever the interleaving of the tasks' blocks on the
shared connection — all that is needed is that the blocks of key `k` appear in the order its reader
wrote them (each block is written under the connection mutex) — concatenating the bodies of the
blocks carrying `k`'s header reproduces exactly the bytes stored for `k`. -/
theorem c20_project (conn : List (Nat × List Bytes)) (k : Nat) (evs : List REv)
    (hmutex : (conn.filter (fun b => b.1 = k)).map (·.2) = (rrun (fun _ => true) true evs).blocks) :
    project conn k = dataBytes (rrun (fun _ => true) true evs).out := by
  unfold project
  rw [dataBytes_payloads, ← c20_blocks, ← hmutex]
  simp [List.map_map, Function.comp_def]

/-- **C20 (blocks consist of whole lines).** Every line flushed by a tick is newline-terminated and
contains no other newline, so a block never splits a line of newline-terminated text. -/
theorem c20_lines (b l : Bytes) (h : l ∈ (splitLines b).1) :
    ∃ body, l = body ++ [newline] ∧ newline ∉ body := splitLines_lines b l h

/-- **C20 (filters).** A stream is sent to the listener only if its target and command pass the
listener's filters (an empty filter admits everything) and its stream is selected. -/
theorem c20_filter (ts cs : List String) (o e : Bool) (t c : String) (isOut : Bool) :
    logAllowed ts cs o e t c isOut = true ↔
      (ts = [] ∨ t ∈ ts) ∧ (cs = [] ∨ c ∈ cs) ∧ (if isOut then o = true else e = true) := by
  unfold logAllowed
  cases isOut <;> simp [List.isEmpty_iff, and_assoc]

/-! ## Non-vacuity: two tasks interleaved on one connection -/
example :
    let evsA := [REv.chunk [97, 10, 98], .tick, .chunk [10], .eof]
    let evsB := [REv.chunk [120, 10], .tick, .chunk [121, 10], .eof]
    let conn : List (Nat × List Bytes) := [(1, [[120, 10]]), (0, [[97, 10]]), (0, [[98, 10]]), (1, [[121, 10]])]
    project conn 0 = dataBytes (rrun (fun _ => true) true evsA).out ∧
    project conn 1 = dataBytes (rrun (fun _ => true) true evsB).out := by decide

end Monorail
