/-!
# The run-slot store (`<out>/run/<id>/…`, `<out>/tracking/run.json`)

Contents are abstract: a result document and a log file are natural numbers standing for their
bytes (`none` inside a slot = file absent, `Content.torn` = a file a crash left half-written).
One `run` is the effect list `runEffects`: compute the next slot from the pointer, wipe and
re-create that slot (`setup_run_path`), write the log files, write the result file, write the
pointer to a temporary file and rename it over `run.json` (`Run::save`, repaired). A crash is a
prefix of that list, possibly with the last write only partially done. Import-free.
-/
namespace Monorail

inductive Content where
  | full (c : Nat)
  | torn
deriving Repr, DecidableEq

structure Slot where
  result : Option Content
  logs : List (Nat × Content)      -- log key ↦ content
deriving Repr, DecidableEq

structure Store where
  pointer : Option Nat             -- content of tracking/run.json
  tmp : Option Nat                 -- content of tracking/run.json.tmp
  slots : Nat → Option Slot        -- run directories

structure Run where
  doc : Nat
  logs : List (Nat × Nat)
deriving Repr, DecidableEq

/-- `get_next_tracking_run`: wrap to 1 after `max` -/
def nextId (pointer : Option Nat) (max : Nat) : Nat :=
  let cur := pointer.getD 0
  (if cur ≥ max then 0 else cur) + 1

inductive Eff where
  | wipe (slot : Nat)                                   -- remove_dir_all
  | mkSlot (slot : Nat)                                 -- create_dir_all
  | writeLog (slot key : Nat) (c : Content)
  | writeResult (slot : Nat) (c : Content)
  | ptrTmp (v : Nat)                                    -- write run.json.tmp
  | ptrRename                                           -- rename it over run.json
deriving Repr, DecidableEq

def setSlot (slots : Nat → Option Slot) (i : Nat) (v : Option Slot) : Nat → Option Slot :=
  fun j => if j = i then v else slots j

def setLog (logs : List (Nat × Content)) (k : Nat) (c : Content) : List (Nat × Content) :=
  match logs with
  | [] => [(k, c)]
  | (k', c') :: rest => if k' = k then (k, c) :: rest else (k', c') :: setLog rest k c

def applyEff (s : Store) : Eff → Store
  | .wipe i => { s with slots := setSlot s.slots i none }
  | .mkSlot i => { s with slots := setSlot s.slots i (some { result := none, logs := [] }) }
  | .writeLog i k c =>
    match s.slots i with
    | some sl => { s with slots := setSlot s.slots i (some { sl with logs := setLog sl.logs k c }) }
    | none => s
  | .writeResult i c =>
    match s.slots i with
    | some sl => { s with slots := setSlot s.slots i (some { sl with result := some c }) }
    | none => s
  | .ptrTmp v => { s with tmp := some v }
  | .ptrRename => { s with pointer := s.tmp, tmp := none }

def applyAll (s : Store) (effs : List Eff) : Store := effs.foldl applyEff s

/-- the effects of one complete `run` on the store -/
def runEffects (max : Nat) (s : Store) (r : Run) : List Eff :=
  let n := nextId s.pointer max
  [.wipe n, .mkSlot n] ++ r.logs.map (fun kc => .writeLog n kc.1 (.full kc.2)) ++
    [.writeResult n (.full r.doc), .ptrTmp n, .ptrRename]

def doRun (max : Nat) (s : Store) (r : Run) : Store := applyAll s (runEffects max s r)

def emptyStore : Store := { pointer := none, tmp := none, slots := fun _ => none }

def history (max : Nat) (rs : List Run) : Store := rs.foldl (doRun max) emptyStore

/-- `result show`: the document of the slot the pointer names (an incomplete file does not parse) -/
def resultShow (s : Store) : Option Nat :=
  match s.pointer with
  | none => none
  | some p => match s.slots p with
    | some { result := some (.full d), .. } => some d
    | _ => none

/-- `log show [--id i]`: the complete log files of the slot -/
def logShow (s : Store) (id : Option Nat) : Option (List (Nat × Content)) :=
  match (match id with | some i => some i | none => s.pointer) with
  | none => none
  | some p => (s.slots p).map (·.logs)

def slotOfRun (r : Run) : Slot :=
  { result := some (.full r.doc), logs := r.logs.foldl (fun l kc => setLog l kc.1 (.full kc.2)) [] }

/-- LEGACY pointer write (pinned tree): truncate `run.json`, then write it in place -/
inductive LegacyPtr where
  | readable (v : Nat)
  | empty            -- truncated, not yet written: does not parse
deriving Repr, DecidableEq

end Monorail
