import Monorail.Proofs.Log
import Monorail.Generated.Consts
/-!
# C08 — stored logs are byte-exact and isolated per task
-/
namespace Monorail

/-- **C08 (reader).** For every sequence of write chunks and flush ticks — any chunking, ticks
anywhere, in particular in the middle of a line — followed by end of stream, with or without a
listener, whatever the listener does: the bytes the reader hands to the compressor are exactly the
bytes the process wrote, in order; `End` is sent exactly once, last; the reader reports success. -/
theorem c08_reader (ok : Nat → Bool) (client : Bool) (evs : List REv) (hopen : Open evs) :
    dataBytes (rrun ok client (evs ++ [.eof])).out = chunkBytes evs ∧
    (rrun ok client (evs ++ [.eof])).done = some true ∧
    ∃ pre, (rrun ok client (evs ++ [.eof])).out = pre ++ [.endReq] ∧ CReq.endReq ∉ pre := by
  unfold rrun
  rw [List.foldl_append]
  obtain ⟨i1, i2, i3⟩ := open_inv ok evs hopen (RSt.init client) rfl
  generalize evs.foldl (rstep ok) (RSt.init client) = s at i1 i2 i3
  simp only [RSt.init, dataBytes, List.flatten_nil, List.append_nil, List.nil_append] at i2 i3
  have hstep : rstep ok s .eof = finish ok s true := by simp [rstep, i1]
  simp only [List.foldl_cons, List.foldl_nil, hstep]
  -- what `finish` does
  unfold finish
  by_cases hb : s.buf.isEmpty
  · have hbn : s.buf = [] := by simpa using hb
    obtain ⟨f1, _, _, f4, f5⟩ := flush_bytes ok s
    simp only [hb, if_true]
    refine ⟨?_, trivial, (flush ok s).out, rfl, f4 (i3 (by simp))⟩
    rw [dataBytes_append]
    simp only [dataBytes, List.append_nil]
    rw [f5] at f1
    simp only [List.flatten_nil, List.append_nil] at f1
    rw [f1, ← i2, hbn]; simp
  · obtain ⟨f1, _, _, f4, f5⟩ := flush_bytes ok { s with lines := s.lines ++ [s.buf], buf := [] }
    simp only [hb, Bool.false_eq_true, if_false]
    refine ⟨?_, trivial, _, rfl, f4 (i3 (by simp))⟩
    rw [dataBytes_append]
    simp only [dataBytes, List.append_nil]
    rw [f5] at f1
    simp only [List.flatten_nil, List.append_nil] at f1
    rw [f1, ← i2]; simp

/-- **C08 (routing).** Distinct registrations never share a (thread, encoder) pair, for any positive
number of compressor threads — and the number the code uses today is positive. -/
theorem c08_route_injective (T : Nat) (_hT : 0 < T) (i j : Nat) (h : route T i = route T j) : i = j := by
  simp only [route, Prod.mk.injEq] at h
  have hi := Nat.div_add_mod i T
  have hj := Nat.div_add_mod j T
  rw [h.1, h.2] at hi
  omega

theorem c08_threads_pos : 0 < Consts.compressorThreads := by decide

/-- **C08 (per-file content, every interleaving).** Whatever the interleaving of the clients'
requests on a compressor thread's FIFO channel — all that is needed is that the requests of encoder
`e` appear in the order its reader sent them — the file of `e` receives exactly that reader's bytes
and nothing written by any other task. -/
theorem c08_files (reqs : List (Nat × CReq)) (e : Nat) (ok : Nat → Bool) (client : Bool)
    (evs : List REv) (hopen : Open evs)
    (hfifo : (reqs.filter (fun r => r.1 = e)).map (·.2) = (rrun ok client (evs ++ [.eof])).out) :
    fileOf reqs e = chunkBytes evs := by
  unfold fileOf
  rw [hfifo]
  exact (c08_reader ok client evs hopen).1

theorem consumed_append_shutdowns (reqs : List (Nat × CReq)) (tail : List TMsg) :
    consumed (reqs.map (fun r => TMsg.req r.1 r.2) ++ TMsg.shutdown :: tail) = reqs := by
  induction reqs with
  | nil => simp [consumed]
  | cons a t ih => simp [consumed, ih]

/-- **C08 (shutdown never overtakes data).** A compressor thread leaves its loop at the first
`Shutdown` it receives and writes nothing that is queued behind it. The run sends the `Shutdown`s of a
group only after every task of the group has been joined, i.e. after every reader has queued its
last `Data` and its `End`; the channel is FIFO, so every request precedes the first `Shutdown`, and
then - whatever follows it on the channel - the file of every encoder holds exactly its reader's
bytes. -/
theorem c08_shutdown (reqs : List (Nat × CReq)) (tail : List TMsg) (e : Nat) (ok : Nat → Bool)
    (client : Bool) (evs : List REv) (hopen : Open evs)
    (hfifo : (reqs.filter (fun r => r.1 = e)).map (·.2) = (rrun ok client (evs ++ [.eof])).out) :
    threadFile (reqs.map (fun r => TMsg.req r.1 r.2) ++ TMsg.shutdown :: tail) e = chunkBytes evs := by
  unfold threadFile
  rw [consumed_append_shutdowns]
  exact c08_files reqs e ok client evs hopen hfifo

/-- a `Shutdown` (or any other early exit of the thread) ahead of queued data loses that data: the
stored log is a proper prefix of what was written -/
example : threadFile [.req 0 (.data [[97, 10]]), .shutdown, .req 0 (.data [[98, 10]]), .req 0 .endReq] 0 = [97, 10] := by decide

/-- **C08 (`log show`).** One header followed by the bytes, for every selected non-empty log. -/
theorem c08_show_cons (h l : Bytes) (rest : List (Bytes × Bytes)) :
    showLogs ((h, l) :: rest) = (if l.isEmpty then [] else h ++ l) ++ showLogs rest := by
  simp [showLogs]

/-- the flush interval the code uses today is positive (regenerated from the source) -/
theorem c08_flush_pos : 0 < Consts.flushIntervalMs := by decide

/-! ## The unrepaired reader loses the start of a line that straddles a flush tick -/

-- "AAA", tick, "BBB\n", eof  : repaired stores AAABBB\n, legacy stores BBB\n
example : dataBytes (rrun (fun _ => true) false [.chunk [65,65,65], .tick, .chunk [66,66,66,10], .eof]).out
    = [65,65,65,66,66,66,10] := by decide
example : dataBytes (([REv.chunk [65,65,65], .tick, .chunk [66,66,66,10], .eof].foldl
    (rstepLegacy (fun _ => true)) (RSt.init false)).out) = [66,66,66,10] := by decide

/-! ## Non-vacuity: one-byte chunks, a tick inside a line, no trailing newline -/
example : Open [REv.chunk [104], .chunk [105], .tick, .chunk [10, 120], .tick, .tick, .chunk [121]] := by
  intro e he
  simp only [List.mem_cons, List.not_mem_nil, or_false] at he
  rcases he with rfl | rfl | rfl | rfl | rfl | rfl | rfl <;> simp

example : (rrun (fun _ => true) false
    [.chunk [104], .chunk [105], .tick, .chunk [10, 120], .tick, .tick, .chunk [121], .eof]).out
    = [.data [[104, 105, 10]], .data [[120, 121]], .endReq] := by decide

end Monorail
