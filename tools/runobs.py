"""Run one generated `monorail run` scenario and judge everything observable about it.

Shared by the C04 / C05 / C06 / C16 checks. A failure is attributed to the property it violates:
  order, command_order                      -> C04
  cover, structure, started_wrongly         -> C05
  truth, latch, exit                        -> C06
  barrier                                   -> C16
Model (Lean `runExec`) disagreements are reported to whichever property is being checked."""
import json
import os

import rungen
import scen

ATTR = {
    "an executable started before an executable of an earlier group had exited": "C04",
    "commands were not executed in the documented order": "C04",
    "a planned (command,target) pair does not have exactly one result entry": "C05",
    "result entry for a pair outside the plan": "C05",
    "an executable was started more than once": "C05",
    "an executable was started for an undefined / non-executable command": "C05",
    "the run did not cover exactly the selected targets": "C05",
    "target groups differ from what analyze / the dependency layering shows": "C05",
    "an executable outside the plan was started": "C05",
    "a defined command of a selected target was not started although nothing failed before it": "C05",
}


def attribute(why):
    return ATTR.get(why, "C06")


class Knobs:
    def __init__(self, fail_rate=0, notexec_rate=0, undefined_rate=10, delays=False, max_targets=5, slow_deps=True,
                 redirect_rate=0, multi_fail=False, custom_dirs=False, checkpoint=False, chmod=False, listener=False,
                 sabotage=False, slash=False, force_mode=None, force_fou=None, dense=False, commit_range=False, nested_only=False):
        self.fail_rate = fail_rate          # percent of tasks that exit non-zero
        self.notexec_rate = notexec_rate    # percent of command files without x bit
        self.undefined_rate = undefined_rate
        self.delays = delays                # inject delays at monorail's internal points
        self.max_targets = max_targets
        self.slow_deps = slow_deps
        self.redirect_rate = redirect_rate
        self.multi_fail = multi_fail
        self.custom_dirs = custom_dirs
        self.checkpoint = checkpoint        # commit, checkpoint update, then edit / add files (+ update --pending, more edits)
        self.chmod = chmod                  # a task of an earlier command changes the x bit of a later command's file
        self.listener = listener            # a `log tail` listener is attached and SIGKILLed during the run
        self.sabotage = sabotage            # a task of the first group wipes the run's log directories ("clean" step)
        self.slash = slash                  # one target path is written with a trailing slash
        self.force_mode = force_mode        # 0 changed/all targets, 1 -t, 2 -t --deps
        self.force_fou = force_fou          # --fail-on-undefined on / off
        self.dense = dense                  # at least 3 targets, every second possible `uses` edge present
        self.commit_range = commit_range    # changes taken between two explicit commits (--begin / --end), later commits exist
        self.nested_only = nested_only      # dependencies arise from nesting alone: no target declares `uses`


def build(seed, knobs):
    rng = scen.Rng(seed)
    sc = rungen.RunScenario(rng, max_targets=knobs.max_targets, with_argmaps=False, custom_dirs=knobs.custom_dirs,
                            undefined_pct=knobs.undefined_rate, slash=knobs.slash, force_mode=knobs.force_mode,
                            force_fou=knobs.force_fou, dense=knobs.dense, nested_only=knobs.nested_only)
    sc.args = []
    if knobs.chmod or knobs.sabotage:
        sc.named, sc.deps = [], False     # every target takes part, so the acting task does too
    sc.notexec = set()
    sc.script = {}
    depth = {}
    adj = rungen.deps_of(sc.targets)

    def d(i, seen=()):
        if i in depth:
            return depth[i]
        depth[i] = 1 + max([d(j) for j in adj[i]] + [0])
        return depth[i]
    for i in range(len(sc.targets)):
        d(i)
    maxd = max(depth.values()) if depth else 1
    for i, t in enumerate(sc.targets):
        p = t["path"]
        for c in sc.all_commands:
            if sc.cmd_layout[p]["files"][c] is None and not sc.cmd_layout[p]["defs"].get(c):
                continue
            if rng.below(100) < knobs.notexec_rate and not knobs.custom_dirs:
                sc.notexec.add((c, p))
                continue
            s = {}
            if rng.below(100) < knobs.fail_rate:
                if rng.chance(1, 6):
                    s["kill_self"] = True        # ends by a signal: a failure without an exit code
                else:
                    s["exit"] = rng.pick([1, 2, 7, 99, 127, 255, rng.range(1, 255)])
            # dependencies slower than dependents: the deeper in the graph (more dependents above), the slower
            base = (maxd - depth[i]) * 25 if knobs.slow_deps and rng.chance(2, 3) else 0
            s["sleep_ms"] = base + rng.pick([0, 0, 5, 20, 60])
            if rng.below(100) < knobs.redirect_rate and "exit" not in s:
                s["redirect"] = True
                s["sleep_ms"] += 150
            if rng.chance(1, 12):
                # far more than a pipe holds on one stream while the other stays open
                blk = (("%s|%s " % (c, p)) + "e" * 200 + "\n").encode() * 16
                s["repeat"] = [[rng.range(25, 60), rng.pick([2, 2, 1]), blk.hex()]]
            if rng.chance(1, 3):
                # what a child prints is its own business: text in any encoding, not only UTF-8
                junk = rng.pick([b"", b"", b"caf\xe9 ", b"\xff\xfe ", b"\xe2\x82 "])
                s["steps"] = [[rng.pick([0, 3]), rng.pick([1, 2]), (junk + ("%s|%s\n" % (c, p)).encode()).hex()]]
            sc.script["%s|%s" % (c, p)] = s
    sc.ck_plan = None
    if knobs.checkpoint:
        # edits relative to a checkpoint taken at the first commit: (kind, target index, when)
        # kind: modify a tracked file / add an untracked file; when: before or after `update --pending`
        n = len(sc.targets)
        ops = []
        for _ in range(rng.range(0, 4)):
            ops.append([rng.pick(["modify", "untracked"]), rng.below(n), rng.pick(["before", "after"])])
        # sometimes the changes are taken between two explicit commits (--begin / --end) instead
        sc.ck_plan = {"pending": rng.chance(1, 2), "ops": ops,
                      "range": [rng.below(n), rng.below(n), rng.below(n)] if (knobs.commit_range or rng.chance(1, 3)) else None}
    sc.dyn_disp = {}
    sc.chmod_plan = None
    cl = sc.command_list()
    if knobs.chmod and len(cl) >= 2:
        runnable = lambda c, p: (sc.cmd_layout[p]["files"][c] is not None and not sc.cmd_layout[p]["defs"].get(c))
        first = [(cl[0], t["path"]) for t in sc.targets if runnable(cl[0], t["path"]) and (cl[0], t["path"]) not in sc.notexec]
        later = [(c, t["path"]) for c in cl[1:] for t in sc.targets if runnable(c, t["path"])]
        if first and later:
            actor, victim = rng.pick(first), rng.pick(later)
            if rng.chance(1, 2):
                sc.notexec.discard(victim)
                sc.script.setdefault("%s|%s" % victim, {"sleep_ms": 0})
                sc.chmod_plan = {"actor": actor, "victim": victim, "mode": 0o644}
                sc.dyn_disp[victim] = "notexec"
            else:
                sc.notexec.add(victim)
                sc.script.setdefault("%s|%s" % victim, {"sleep_ms": 0})
                sc.chmod_plan = {"actor": actor, "victim": victim, "mode": 0o755}
                sc.dyn_disp[victim] = "run"
    sc.listener_kill = None
    if knobs.listener:
        # killed after so many seconds, or not a `log tail` at all: something that accepts the
        # connection on the log port and closes it / answers with something that is no filter
        sc.listener_kill = rng.pick([0.0, 0.03, 0.1, 0.3, 0.6, "fake_close", "fake_junk"])
        for k, sct in sc.script.items():
            if not sct.get("redirect"):
                sct["steps"] = [[0, 1, ("%s one\n" % k).encode().hex()], [rng.pick([200, 400, 650]), 1, ("%s two\n" % k).encode().hex()],
                                [rng.pick([0, 300]), 2, ("%s three\n" % k).encode().hex()]]
    sc.sabotage = None
    if knobs.sabotage and not sc.named:
        # a runnable task without dependencies (first group) of the first command wipes the log
        # directories of that command; tasks of later groups print early and keep running
        roots = [i for i in range(len(sc.targets)) if not adj[i]]
        cands = [sc.targets[i]["path"] for i in roots if "%s|%s" % (cl[0], sc.targets[i]["path"]) in sc.script] if cl else []
        if cands and maxd >= 2:
            p = rng.pick(cands)
            sc.sabotage = [cl[0], p]
            sc.script["%s|%s" % (cl[0], p)]["rm_run_cmd"] = cl[0]
            for i, t in enumerate(sc.targets):
                k = "%s|%s" % (cl[0], t["path"])
                if depth[i] >= 2 and k in sc.script:
                    sc.script[k]["steps"] = [[0, 1, ("%s starts\n" % k).encode().hex()]]
                    sc.script[k]["sleep_ms"] = 900 + (maxd - depth[i]) * 100
    sc.point_env = None
    if knobs.delays:
        pts = []
        for name in ["group.before_shutdown", "group.between_shutdown", "group.before_join", "group.after_join",
                     "run.after_exec", "run.after_store", "task.after_spawn", "result.after_write"]:
            ms = rng.pick([0, 0, 5, 50])
            if ms:
                pts.append("delay:%s:%d" % (name, ms))
        if pts:
            sc.point_env = {"MONORAIL_VERIF_POINTS": ",".join(pts)}
    return sc


def disp_of(sc, c, p):
    if (c, p) in getattr(sc, "dyn_disp", {}):
        return sc.dyn_disp[(c, p)]       # the x bit is changed by an earlier command of the same run
    lay = sc.cmd_layout[p]
    if lay["defs"].get(c):
        if (c, p) in getattr(sc, "missing_defs", ()):
            return "notexec"                                   # the defined file does not exist
        return "notexec" if (c, p) in sc.notexec else "run"   # a definition with an explicit path
    if lay["files"].get(c) is None:
        return "undefined"
    if (c, p) in sc.notexec:
        return "notexec"
    return "run"


def install(sc):
    repo = sc.build_repo()
    for (c, p) in sc.notexec:
        exe = sc.expected_exe[(c, p)]
        os.remove(exe)
        import shutil
        shutil.copy(scen.HELPER, exe)
        os.chmod(exe, 0o644)
    if getattr(sc, "chmod_plan", None):
        cp = sc.chmod_plan
        exe = sc.expected_exe[cp["victim"]]
        import shutil
        # the command files are hard links to one helper binary: give the victim its own inode
        os.remove(exe)
        shutil.copy(scen.HELPER, exe)
        os.chmod(exe, 0o755 if cp["mode"] == 0o644 else 0o644)
        sc.script["%s|%s" % cp["actor"]]["chmod"] = [[exe, cp["mode"]]]
    repo.set_plan(sc.script)
    sc.checkpointed = False
    if getattr(sc, "ck_plan", None):
        repo.commit_all()
        rc, j, out, err = repo.mono("checkpoint", "update")
        sc.checkpointed = rc == 0

        def apply(when):
            for kind, i, w in sc.ck_plan["ops"]:
                if w != when:
                    continue
                d = os.path.join(repo.dir, sc.targets[i]["path"])
                with open(os.path.join(d, "file.txt" if kind == "modify" else "new_%s.txt" % when), "a") as f:
                    f.write("edit %s\n" % when)
        sc.range_args = []
        if sc.ck_plan.get("range") and not sc.named:
            shas = [repo.git("rev-parse", "HEAD").strip()]
            for k, i in enumerate(sc.ck_plan["range"]):
                with open(os.path.join(repo.dir, sc.targets[i]["path"], "file.txt"), "a") as f:
                    f.write("commit %d\n" % k)
                shas.append(repo.commit_all("r%d" % k))
            # --end names an older commit than HEAD (or HEAD itself, by name)
            sc.range_args = ["--begin", shas[0], "--end", shas[1 + (sc.ck_plan["range"][0] % 2)]]
        apply("before")
        if sc.ck_plan["pending"]:
            repo.mono("checkpoint", "update", "--pending")
        apply("after")
    return repo


def observe(sc, repo, model, timeout=120):
    """returns (verdicts, info): verdicts = list of (property, detail dict)"""
    verdicts = []
    desc = sc.describe()
    desc["scripts"] = sc.script
    desc["notexec"] = sorted("%s|%s" % k for k in sc.notexec)
    desc["points"] = sc.point_env
    # what analyze shows right before (no checkpoint in these scenarios => all targets)
    range_args = getattr(sc, "range_args", [])
    rc_a, ja, _, _ = repo.mono("analyze", "--target-groups", *range_args)
    tail = None
    fake = None
    if isinstance(getattr(sc, "listener_kill", None), str):
        import socket
        import threading
        fake = socket.socket()
        fake.setsockopt(socket.SOL_SOCKET, socket.SO_REUSEADDR, 1)
        fake.bind(("127.0.0.1", repo.log_port))
        fake.listen(8)
        desc["listener"] = sc.listener_kill

        def serve(kind=sc.listener_kill, srv=fake):
            try:
                srv.settimeout(30)
                while True:
                    c, _ = srv.accept()
                    if kind == "fake_junk":
                        c.sendall(b"HTTP/1.1 400 Bad Request\r\n\r\n")
                    c.close()
            except OSError:
                pass
        threading.Thread(target=serve, daemon=True).start()
    elif getattr(sc, "listener_kill", None) is not None:
        import logtail
        import threading
        tail = logtail.start_tail(repo, {"stdout": True, "stderr": True, "targets": [], "commands": []})
        desc["listener_killed_after_s"] = sc.listener_kill
        if sc.listener_kill == 0.0:
            tail.kill()
            tail.wait()
        else:
            threading.Timer(sc.listener_kill, tail.kill).start()
    desc["checkpoint_plan"] = getattr(sc, "ck_plan", None)
    desc["chmod_plan"] = ({"actor": list(sc.chmod_plan["actor"]), "victim": list(sc.chmod_plan["victim"]), "mode": oct(sc.chmod_plan["mode"])}
                          if getattr(sc, "chmod_plan", None) else None)
    desc["sabotage"] = getattr(sc, "sabotage", None)
    desc["range_args"] = range_args
    rc, j, out, err = repo.mono(*(sc.argv() + range_args), extra_env=sc.point_env, timeout=timeout)
    if tail is not None:
        tail.kill()
        tail.wait()
    if fake is not None:
        fake.close()
    info = {"rc": rc}
    if rc is None:
        verdicts.append(("C06", {"kind": "run did not terminate", "scenario": desc}))
        scen.reap_helpers(repo)
        return verdicts, info
    if rc == 2 or j is None:
        verdicts.append(("C06", {"kind": "run ended with a fatal error", "scenario": desc, "rc": rc, "stderr": err[-600:]}))
        # nothing failed, yet no (or not every) defined command of a selected target was started
        verdicts.append(("C05", {"kind": "a defined command of a selected target was not started although nothing failed before it",
                                 "scenario": desc, "rc": rc, "stderr": err[-600:], "started": len(repo.traces())}))
        return verdicts, info
    cmds = sc.command_list()
    doc_cmds = [r["command"] for r in j["results"]]
    if doc_cmds != cmds:
        verdicts.append(("C04", {"kind": "commands were not executed in the documented order", "scenario": desc,
                                 "expected": cmds, "observed": doc_cmds}))
        if sorted(doc_cmds) != sorted(cmds):
            # a requested command is missing from (or an unrequested one present in) the result document
            verdicts.append(("C05", {"kind": "a planned (command,target) pair does not have exactly one result entry", "scenario": desc,
                                     "expected_commands": cmds, "observed_commands": doc_cmds}))
        return verdicts, info
    # expected selection / structure
    exp_targets = sc.expected_targets()
    if getattr(sc, "checkpointed", False) and not sc.named:
        # with a checkpoint, `run` without targets covers what analyze reports as changed at that moment
        if rc_a != 0 or ja is None:
            return verdicts, info
        exp_targets = sorted(ja.get("targets", []))
        desc["analyze_targets"] = exp_targets
    struct = [[sorted(g.keys()) for g in r["target_groups"]] for r in j["results"]]
    # a wrong selection / structure is C05's finding; the order and latch checks further down are
    # still made on whatever the run did (they belong to other properties)
    struct_bad = False
    for s in struct:
        flat = sorted(x for g in s for x in g)
        if flat != exp_targets:
            verdicts.append(("C05", {"kind": "the run did not cover exactly the selected targets", "scenario": desc,
                                     "expected": exp_targets, "observed": s}))
            struct_bad = True
            break
    if not sc.named:
        want = [sorted(g) for g in (ja or {}).get("target_groups", [])]
    elif sc.deps:
        r = model.ask({"op": "groups", "targets": [{"path": t["path"], "uses": t.get("uses", []), "ignores": []} for t in sc.targets],
                       "visible": sc.named})
        want = [sorted(g) for g in r["model"].get("ok", [])]
    else:
        want = None
    for s in struct:
        if struct_bad:
            break
        if want is not None and s != want:
            verdicts.append(("C05", {"kind": "target groups differ from what analyze / the dependency layering shows",
                                     "scenario": desc, "expected": want, "observed": s}))
            struct_bad = True
        elif want is None and (any(len(g) != 1 for g in s)):
            verdicts.append(("C05", {"kind": "target groups differ from what analyze / the dependency layering shows",
                                     "scenario": desc, "expected": "one target at a time", "observed": s}))
            struct_bad = True
    # the selection model (`Model/Select.lean`: selectGroups), for every mode
    mt = [{"path": t["path"], "uses": t.get("uses", []), "ignores": []} for t in sc.targets]
    mode = "changed" if not sc.named else ("deps" if sc.deps else "named")
    names = exp_targets if not sc.named else sc.named
    ms = model.ask({"op": "select", "targets": mt, "mode": mode, "names": names})
    mg = ms["model"].get("ok")
    if struct_bad:
        pass
    elif mg is None:
        verdicts.append(("MODEL", {"kind": "the selection model rejects a configuration the run accepted", "scenario": desc, "model": ms["model"]}))
    else:
        mgs = [sorted(g) for g in mg]
        for st in struct:
            same = (sorted(map(tuple, st)) == sorted(map(tuple, mgs))) if mode == "named" else (st == mgs)
            if not same:
                verdicts.append(("MODEL", {"kind": "model and implementation select different target groups", "scenario": desc,
                                           "mode": mode, "implementation": st, "model": mgs}))
                break
    # plan with ids
    plan = []
    ids = {}
    n = 0
    for ci, r in enumerate(j["results"]):
        for g in r["target_groups"]:
            grp = []
            # The order in which monorail visited the members of a group is not recorded in the
            # result document (a map). It only matters when a member fails at scheduling time
            # (not executable / undefined under --fail-on-undefined): members visited before it were
            # started, members after it are skipped. Use an order consistent with the observation.
            def visit_key(t):
                st = g[t]["status"]
                if st in ("success", "error", "cancelled"):
                    return (0, t)
                if st == "undefined" and not sc.fail_on_undefined:
                    return (1, t)
                if st in ("undefined", "not_executable"):
                    return (2, t)
                return (3, t)
            for t in sorted(g.keys(), key=visit_key):
                ids[(r["command"], t)] = n
                grp.append({"id": n, "disp": disp_of(sc, r["command"], t)})
                n += 1
            plan.append(grp)
    results = []
    for r in j["results"]:
        for g in r["target_groups"]:
            for t, e in g.items():
                results.append([ids[(r["command"], t)], e["status"], e.get("code")])
    traces = repo.traces()
    started, ended, times, killed = [], [], [], []
    # the helper names its target by its working directory: "core" for a target declared as "core/"
    label = {t["path"].rstrip("/"): t["path"] for t in sc.targets}
    for tr in traces:
        k = (tr["command"], label.get(tr["target"], tr["target"]))
        if k not in ids:
            verdicts.append(("C05", {"kind": "an executable outside the plan was started", "scenario": desc, "what": list(k)}))
            continue
        started.append(ids[k])
        if "end_ns" in tr:
            if "signal" in tr:
                killed.append(ids[k])
            else:
                ended.append([ids[k], tr["exit"]])
            times.append([ids[k], tr["start_ns"], tr["end_ns"]])
    obs = {"results": results, "failed": j["failed"], "exit": rc, "started": started, "ended": ended, "times": times, "killed": killed}
    # C04, judged on the processes themselves (the helper records of every started executable),
    # independently of the result document: (1) a target's executable starts only after the
    # executables of everything it depends on (documented relation, recomputed here from the
    # configuration) have exited - for the selection modes that promise dependency order (plain -t
    # runs the named targets one at a time, in no particular order); (2) no executable of a later
    # command starts before every executable of the previous commands has exited
    dep_violation = False
    by_key = {}
    for tr in traces:
        by_key[(tr["command"], label.get(tr["target"], tr["target"]))] = tr
    paths = [t["path"] for t in sc.targets]
    pidx = {p: i for i, p in enumerate(paths)}
    pos = {c: n for n, c in enumerate(cmds)}
    adj = rungen.deps_of(sc.targets)
    for (c, p), a in sorted(by_key.items()):
        if dep_violation or c not in pos or p not in pidx:
            continue
        if not sc.named or sc.deps:
            for k in adj[pidx[p]]:
                b = by_key.get((c, paths[k]))
                if b is not None and ("end_ns" not in b or b["end_ns"] > a["start_ns"]):
                    verdicts.append(("C04", {"kind": "an executable started before the executable of a target it depends on had exited",
                                             "scenario": desc, "command": c, "target": p, "dependency": paths[k],
                                             "plan": plan, "observation": obs}))
                    dep_violation = True
                    break
        if dep_violation:
            break
        for (c2, p2), b in by_key.items():
            if c2 in pos and pos[c2] < pos[c] and ("end_ns" not in b or b["end_ns"] > a["start_ns"]):
                verdicts.append(("C04", {"kind": "an executable of a later command started before every executable of the previous command had exited",
                                         "scenario": desc, "later": [c, p], "still_running": [c2, p2], "plan": plan, "observation": obs}))
                dep_violation = True
                break
    fou = sc.fail_on_undefined
    v = model.ask({"op": "execcheck", "plan": plan, "fou": fou, "obs": obs})
    info.update({"plan": plan, "obs": obs, "nstarted": len(started), "ngroups": len(plan), "failed": j["failed"]})
    if v["oracle"] == "fail":
        verdicts.append((attribute(v["why"]), {"kind": v["why"], "scenario": desc, "plan": plan, "observation": obs}))
        return verdicts, info
    # a defined, executable command of a selected target runs exactly once when nothing failed before it
    if not j["failed"]:
        for grp in plan:
            for t in grp:
                if t["disp"] == "run" and t["id"] not in started:
                    verdicts.append(("C05", {"kind": "a defined command of a selected target was not started although nothing failed before it",
                                             "scenario": desc, "plan": plan, "observation": obs}))
                    return verdicts, info
    # the model, fed with the observed completions
    order = sorted(times, key=lambda e: e[2])
    res_by_id = {r[0]: r for r in results}
    inputs = []
    for e in order:
        r = res_by_id[e[0]]
        inputs.append([e[0], None if e[0] in killed else (r[2] if r[1] in ("success", "error") else None)])
    # started but never recorded an end (torn down): aborted
    for i in started:
        if i not in [e[0] for e in order]:
            inputs.append([i, None])
    m = model.ask({"op": "exec", "plan": plan, "fou": fou, "inputs": inputs})
    mres = {r[0]: [r[1][0], r[1][1]] for r in m["results"]}
    ores = {r[0]: [r[1], r[2]] for r in results}
    if mres != ores or m["failed"] != j["failed"] or m["exit"] != rc or m["running"]:
        verdicts.append(("MODEL", {"kind": "model and implementation disagree on the run outcome", "scenario": desc, "plan": plan,
                                   "inputs": inputs, "model": m, "observation": obs}))
    return verdicts, info
