import Monorail.Driver.Util
import Monorail.Model.ConfigLoad
open Lean
namespace Monorail.Driver

/-- a concrete instance of the loader's parameters, enough to run the decision logic:
    digest = a positional fold (injective on the byte lists used here), a generated file is
    `[value, checksum]` optionally followed by blanks (32), anything else does not parse -/
def toyH (b : FileBytes) : Nat := b.foldl (fun a x => a * 257 + x + 1) 0

def toyParse (b : FileBytes) : Option (ParsedCfg Nat) :=
  match b with
  | v :: c :: rest =>
    if rest.all (· == 32) then some { value := v, hasSource := true, sourcePath := 0, sourceChecksum := some c }
    else none
  | _ => none

/-- {"op":"cfgcheck","src":"same"|"changed"|"missing","gen":"same"|"changed_valid"|"invalid",
     "lock":"same"|"changed"|"missing"} -> {"decision":"accept"|"reject","error":..} -/
def handleCfgCheck (j : Json) : Except String Json := do
  let src ← getStr j "src"
  let gen ← getStr j "gen"
  let lock ← getStr j "lock"
  let srcBytes : FileBytes := [1, 2, 3]
  let genBytes : FileBytes := [7, toyH srcBytes]
  let d : Disk := {
    generated := some (match gen with | "same" => genBytes | "changed_valid" => genBytes ++ [32] | _ => [0]),
    sources := fun i => if i = 0 then (match src with | "same" => some srcBytes | "changed" => some [1, 2, 4] | _ => none) else none,
    lock := match lock with | "same" => some (toyH genBytes) | "changed" => some (toyH genBytes + 1) | _ => none }
  match loadAndCheck toyH toyParse d with
  | .ok _ => pure (Json.mkObj [("decision", Json.str "accept")])
  | .error e =>
    let name := match e with
      | .unreadable => "unreadable" | .invalid => "invalid" | .sourceMissing => "source_missing"
      | .lockMissing => "lock_missing" | .noChecksum => "no_checksum" | .sourceModified => "source_modified"
      | .generatedModified => "generated_modified"
    pure (Json.mkObj [("decision", Json.str "reject"), ("why", Json.str name)])

end Monorail.Driver
