import Monorail.Model.Exec
/-!
# Decidable oracle for what a `run` was observed to do (C04, C05, C06)

An observation consists of the result document (one status per planned task id), the `failed` flag,
the process exit status, and what the helper executables recorded: which ids were started (with
multiplicity), with which exit code they ended, and their start / end times.
-/
namespace Monorail

structure RunObs where
  results : List (Nat × Status)
  failed : Bool
  exit : Nat
  started : List Nat
  ended : List (Nat × Int)
  times : List (Nat × Nat × Nat)     -- id, start, end (only for helpers that ended)
  killed : List Nat := []            -- ids whose process ended by a signal (no exit code)

def isFailure (fou : Bool) : Status → Bool
  | .error _ => true
  | .notExecutable => true
  | .undefined => fou
  | _ => false

def statusFor (results : List (Nat × Status)) (id : Nat) : Option Status :=
  (results.find? (fun e => e.1 = id)).map (·.2)

def countIn (l : List Nat) (x : Nat) : Nat := (l.filter (· = x)).length

/-- every planned id has exactly one result entry, and there are no other entries -/
def checkCover (plan : List Group) (o : RunObs) : Option String :=
  let ids := (plan.flatten).map (·.id)
  if ids.any (fun i => countIn (o.results.map (·.1)) i != 1) then some "a planned (command,target) pair does not have exactly one result entry"
  else if o.results.any (fun e => !ids.contains e.1) then some "result entry for a pair outside the plan"
  else none

/-- statuses are truthful w.r.t. what the executables recorded -/
def checkTruth (plan : List Group) (o : RunObs) : Option String :=
  (plan.flatten).findSome? (fun t =>
    let n := countIn o.started t.id
    match statusFor o.results t.id with
    | none => none
    | some st =>
      if n > 1 then some "an executable was started more than once"
      else if n = 1 && t.disp != .run then some "an executable was started for an undefined / non-executable command"
      else match st with
        | .success => if n = 1 && o.ended.contains (t.id, 0) then none else some "success without a process that exited 0"
        | .error (some k) => if n = 1 && k != 0 && o.ended.contains (t.id, k) then none else some "error code does not match the process exit code"
        | .error none => if n = 1 then none else some "error entry without a started process"
        | .undefined => if n = 0 && t.disp == .undefined then none else some "undefined entry but a process was started or the command is defined"
        | .notExecutable => if n = 0 && t.disp == .notExec then none else some "not_executable entry but a process was started or the file is executable"
        | .skipped => if n = 0 then none else some "skipped entry but a process was started")

/-- the failure latch: flag, exit status, nothing later is started, later entries are `skipped` -/
def checkLatch (fou : Bool) (plan : List Group) (o : RunObs) : Option String :=
  let fails (g : Group) : Bool := g.any (fun t => match statusFor o.results t.id with
    | some st => isFailure fou st | none => false)
  let anyFail := plan.any fails
  if o.failed != anyFail then some "failed flag does not say whether a failure occurred"
  else if o.exit != (if o.failed then 1 else 0) then some "exit status does not match the failed flag"
  else
    -- groups strictly after the first failing group
    let rec later : List Group → Bool → Option String
      | [], _ => none
      | g :: rest, seen =>
        if seen then
          if g.any (fun t => statusFor o.results t.id != some .skipped || o.started.contains t.id) then
            some "a task of a later group / command was not skipped after a failure"
          else later rest true
        else later rest (fails g)
    later plan false

def isPrimaryFailure (fou : Bool) : Status → Bool
  | .error (some _) => true
  | .notExecutable => true
  | .undefined => fou
  | _ => false

/-- an `error` entry without an exit code (the task was torn down before its process was waited
for) needs a cause in its own group: a process that exited non-zero, a file without execute
permission, or (with `--fail-on-undefined`) an undefined command. Otherwise the run reports a
failure although none of the failures C06 lists occurred. -/
def checkCause (fou : Bool) (plan : List Group) (o : RunObs) : Option String :=
  let st (t : Task) : Option Status := statusFor o.results t.id
  -- a process that ended by a signal has no exit code either: it is a failure of its own
  if plan.any (fun g => g.any (fun t => st t == some (.error none) && !o.killed.contains t.id) &&
      !g.any (fun t => (match st t with | some s => isPrimaryFailure fou s | none => false) ||
        (st t == some (.error none) && o.killed.contains t.id))) then
    some "a task was torn down (error without exit code) although nothing in its group failed"
  else none

/-- dependency / command order: everything started in a later group starts after everything started
in an earlier group has ended -/
def checkOrder (plan : List Group) (o : RunObs) : Option String :=
  let rec go : List Group → List Nat → Option String
    | [], _ => none
    | g :: rest, earlier =>
      let ids := g.map (·.id)
      let bad := ids.any (fun a => match o.times.find? (fun e => e.1 = a) with
        | none => false
        | some (_, sa, _) => earlier.any (fun b => match o.times.find? (fun e => e.1 = b) with
          | none => o.started.contains b   -- started but never ended: cannot have ended before
          | some (_, _, eb) => !(eb ≤ sa)))
      if bad then some "an executable started before an executable of an earlier group had exited"
      else go rest (earlier ++ ids)
  go plan []

def execOracle (fou : Bool) (plan : List Group) (o : RunObs) : Option String :=
  match checkCover plan o with
  | some w => some w
  | none => match checkTruth plan o with
    | some w => some w
    | none => match checkLatch fou plan o with
      | some w => some w
      | none => match checkCause fou plan o with
        | some w => some w
        | none => checkOrder plan o

end Monorail
