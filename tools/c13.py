#!/usr/bin/env python3
"""C13: a crash during `run` never damages previously recorded state (max_retained_runs >= 2).

For a repository with a few completed runs and a checkpoint: enumerate every guarded point the next
`run` reaches (trace pass on an identical twin repository), then for every (point, hit) pair start
that run with `kill:<point>:<hit>` (SIGKILL of the monorail process at that point - around slot
set-up, task spawn, compressor shutdown, result file open/write/finish, pointer temp-write/rename),
plus SIGKILLs at random times while the children run. After each crash `result show`, `log show`,
`log show --id` of every other slot and `checkpoint show` must be unchanged, and a fresh `run` must
succeed and be addressable. The Lean model predicts pointer and retained slots."""
import os
import signal
import sys
import time
from concurrent.futures import ThreadPoolExecutor

import scen
import storeobs

TARGETS = [{"path": "app", "uses": ["lib"]}, {"path": "lib"}, {"path": "web"}]


def setup(seed, max_runs, prior):
    rng = scen.Rng(seed)
    repo = scen.Repo(TARGETS, max_retained_runs=max_runs, git=True)
    for t in TARGETS:
        for c in ("build", "test"):
            repo.install(t["path"], c)
    repo.commit_all()
    repo.mono("checkpoint", "update")
    # make every target changed again so that `run` without -t has work to do
    for t in TARGETS:
        with open(os.path.join(repo.dir, t["path"], "file.txt"), "a") as f:
            f.write("edit\n")
    for n in range(prior):
        plan = {}
        for t in TARGETS:
            for c in ("build", "test"):
                plan["%s|%s" % (c, t["path"])] = {"steps": [[0, 1, ("prior %d %s %s\n" % (n, c, t["path"])).encode().hex()]]}
        repo.set_plan(plan)
        rc, j, out, err = repo.mono("run", "-c", "build" if n % 2 == 0 else "test")
        assert rc == 0, (rc, err)
    return repo, rng


def snapshot(repo, max_runs):
    obs = storeobs.show_all(repo, max_runs)
    rc, j, out, err = repo.mono("checkpoint", "show")
    obs["checkpoint"] = j.get("checkpoint") if j else None
    return obs


def crash_plan():
    plan = {}
    for t in TARGETS:
        for c in ("build", "test"):
            plan["%s|%s" % (c, t["path"])] = {"sleep_ms": 30, "steps": [[0, 1, ("crashing run %s %s\n" % (c, t["path"])).encode().hex()]]}
    return plan


def enumerate_points(seed, max_runs, prior):
    repo, _ = setup(seed, max_runs, prior)
    try:
        tf = os.path.join(scen.scratch_root(), "points.%d.%d" % (seed % 100000, prior))
        repo.set_plan(crash_plan())
        rc, j, out, err = repo.mono("run", "-c", "build", "test", extra_env={"MONORAIL_VERIF_POINTS": "trace:" + tf})
        counts = {}
        order = []
        for line in open(tf).read().split():
            counts[line] = counts.get(line, 0) + 1
            order.append((line, counts[line]))
        os.remove(tf)
        return order
    finally:
        repo.done()


def crash_case(case, model, rep):
    seed, max_runs, prior = case["seed"], case["max"], case["prior"]
    repo, rng = setup(seed, max_runs, prior)
    try:
        m = model.ask({"op": "store", "max": max_runs, "runs": [{"doc": i + 1, "logs": []} for i in range(prior)]})
        nxt = m["next"]
        lowered = case.get("lower_to")
        if lowered:
            # the retention limit is lowered (still >= 2) between the completed runs and the run that
            # is killed: what was recorded stays recorded
            repo.cfg["max_retained_runs"] = lowered
            repo.write_config()
            rep.count("limit_lowered")
        before = snapshot(repo, max_runs)
        ptr_before = None
        try:
            import json as _json0
            ptr_before = _json0.load(open(os.path.join(repo.out_dir, "tracking", "run.json")))["id"]
        except (OSError, ValueError):
            pass
        repo.set_plan(crash_plan())
        repo.clear_traces()
        if "point" in case:
            env = {"MONORAIL_VERIF_POINTS": "kill:%s:%d" % (case["point"], case["hit"])}
            rc, j, out, err = repo.mono("run", "-c", "build", "test", extra_env=env, timeout=60)
            killed = rc == -signal.SIGKILL
        else:
            p = repo.popen(["run", "-c", "build", "test"])
            time.sleep(case["delay_ms"] / 1000.0)
            killed = p.poll() is None
            scen.kill_tree(p)
            p.communicate()
        # what the pointer file says right after the kill, before any monorail command reads (and
        # possibly "repairs") the tracking directory
        ptr_after_kill = None
        try:
            import json as _json1
            ptr_after_kill = _json1.load(open(os.path.join(repo.out_dir, "tracking", "run.json")))["id"]
        except (OSError, ValueError):
            pass
        scen.reap_helpers(repo)
        rep.evaluations += 1
        rep.count("killed" if killed else "finished_before_kill")
        if "point" in case:
            rep.count("point_" + case["point"])
        else:
            rep.count("random_sigkill")
        if not killed:
            return
        rep.nontrivial_case(case)
        after = snapshot(repo, max_runs)
        problems = []
        ptr_now = ptr_after_kill
        if (ptr_now == nxt and (m["pointer"] != nxt)) if not lowered else (ptr_now is not None and ptr_now != ptr_before):
            # the kill came after the atomic pointer rename: the killed run is the last completed
            # run. Its records must be complete and addressable.
            rep.count("killed_after_commit")
            doc = after["result"]
            want_logs = {("stdout", t["path"], c): ("crashing run %s %s\n" % (c, t["path"])).encode()
                         for t in TARGETS for c in ("build", "test")}
            if doc is None or not doc["invocation"].endswith("run -c build test") or doc["failed"] or after["logs"] != want_logs:
                rep.oracle_fail({"kind": "a run killed after its pointer update left incomplete records", "case": case,
                                 "result": doc, "logs_ok": after["logs"] == want_logs})
            return
        if after["result"] != before["result"]:
            problems.append("result show changed")
        if after["logs"] != before["logs"]:
            problems.append("log show changed")
        if after["checkpoint"] != before["checkpoint"]:
            problems.append("checkpoint changed")
        for i in range(1, max_runs + 1):
            if lowered and i != ptr_before:
                continue       # which slot the killed run was rebuilding depends on the new limit
            if i != nxt and after["by_id"].get(i) != before["by_id"].get(i):
                problems.append("log show --id %d changed" % i)
        if problems:
            rep.oracle_fail({"kind": "a killed run damaged previously recorded state", "case": case, "problems": problems,
                             "result_before": before["result"] is not None, "result_after": after["result"] is not None})
            return
        # the next run succeeds normally and becomes the latest
        repo.set_plan({})
        rc, j, out, err = repo.mono("run", "-c", "build")
        if rc != 0 or j is None:
            rep.oracle_fail({"kind": "the run after a killed run does not succeed", "case": case, "rc": rc, "stderr": err[-400:]})
            return
        rc2, j2, _, _ = repo.mono("result", "show")
        if rc2 != 0 or storeobs.canon_doc(j2) != storeobs.canon_doc(j):
            rep.oracle_fail({"kind": "the run after a killed run is not what result show returns", "case": case})
            return
        # pointer as the model predicts for one more completed run
        ptr = None
        try:
            import json
            ptr = json.load(open(os.path.join(repo.out_dir, "tracking", "run.json")))["id"]
        except (OSError, ValueError):
            pass
        if ptr != nxt and not lowered:
            rep.disagree({"kind": "pointer after the recovery run differs from the model", "case": case, "observed": ptr, "model": nxt})
        rep.sample(case)
    finally:
        repo.done()


def multikill_case(case, model, rep):
    """several consecutive runs are killed while their children execute; after every kill the last
    completed run is still what the read APIs return. `max` = None leaves max_retained_runs out of the
    configuration (the documented default applies)."""
    seed, max_runs, prior, kills = case["seed"], case["max"], case["prior"], case["kills"]
    repo, rng = setup(seed, max_runs, prior)
    width = max_runs if max_runs else 10
    try:
        before = snapshot(repo, width)
        for k in range(kills):
            plan = crash_plan()
            for key in plan:
                plan[key]["sleep_ms"] = 400
            repo.set_plan(plan)
            p = repo.popen(["run", "-c", "build", "test"])
            time.sleep(rng.pick([0.15, 0.25, 0.4]))
            killed = p.poll() is None
            scen.kill_tree(p)
            p.communicate()
            scen.reap_helpers(repo)
            rep.evaluations += 1
            rep.count("consecutive_kills")
            if not killed:
                return
            after = snapshot(repo, width)
            problems = [name for name in ("result", "logs", "checkpoint") if after[name] != before[name]]
            if problems:
                rep.oracle_fail({"kind": "a killed run damaged previously recorded state", "case": case, "after_kill": k + 1,
                                 "problems": [n + " changed" for n in problems],
                                 "result_before": before["result"] is not None, "result_after": after["result"] is not None})
                return
        repo.set_plan({})
        rc, j, out, err = repo.mono("run", "-c", "build")
        if rc != 0 or j is None:
            rep.oracle_fail({"kind": "the run after a killed run does not succeed", "case": case, "rc": rc, "stderr": err[-400:]})
            return
        rep.nontrivial_case(case)
    finally:
        repo.done()


def main():
    args = scen.parse_args(sys.argv)
    t0 = time.time()
    rep = scen.Report()
    model = scen.Model()
    cases = [c.get("case", c) for c in scen.load_corpus(args["corpus"], "C13")]
    rng = scen.Rng(args["seed"])
    if args["budget"] > 0:
        configs = [(2, 1), (2, 2), (3, 4)] if args["tier"] == "quick" else [(2, 0), (2, 1), (2, 2), (2, 5), (3, 3), (3, 4), (5, 7)]
        for (mx, prior) in configs:
            seed = rng.next()
            pts = enumerate_points(seed, mx, prior)
            if args["tier"] == "quick" and (mx, prior) != (2, 2):
                # one configuration gets every (point, hit); the others a sample
                pts = [p for p in pts if rng.chance(1, 4)]
            for (name, hit) in pts:
                cases.append({"seed": seed, "max": mx, "prior": prior, "point": name, "hit": hit})
            rep.notes.append("max=%d prior=%d: %d reachable (point,hit) pairs" % (mx, prior, len(pts)))
            nrand = (60 if args["tier"] == "thorough" else 6) * args["budget"]
            for _ in range(nrand):
                cases.append({"seed": seed, "max": mx, "prior": prior, "delay_ms": rng.range(1, 140)})
        # histories in which the retention limit was lowered before the killed run
        for (mx, prior, low) in ([(3, 3, 2)] if args["tier"] == "quick" else [(3, 3, 2), (5, 5, 2), (5, 4, 3)]):
            seed = rng.next()
            for _ in range((30 if args["tier"] == "thorough" else 5) * args["budget"]):
                cases.append({"seed": seed, "max": mx, "prior": prior, "lower_to": low, "delay_ms": rng.range(1, 140)})
    multi = [c for c in cases if "kills" in c]
    cases = [c for c in cases if "kills" not in c]
    if args["budget"] > 0:
        for (mx, prior, kills) in ([(3, 2, 3), (2, 1, 2), (None, 2, 2)] if args["tier"] == "quick" else
                                   [(3, 2, 3), (2, 1, 2), (None, 2, 2), (5, 3, 5), (None, 1, 3), (2, 2, 4)]):
            multi.append({"seed": rng.next(), "max": mx, "prior": prior, "kills": kills})
    scen.run_cases(lambda c: crash_case(c, model, rep), cases, rep, 10)
    scen.run_cases(lambda c: multikill_case(c, model, rep), multi, rep, 4)
    scen.finish(args, rep, t0, model)


if __name__ == "__main__":
    main()
