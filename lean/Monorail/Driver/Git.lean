import Monorail.Driver.Util
import Monorail.Model.Git
open Lean
namespace Monorail.Driver

structure GitSt where
  repo : GitRepo
  ck : Option Checkpoint

def optNat (j : Json) : Option Nat := j.getNat?.toOption

def ckJson (c : Checkpoint) : Json :=
  Json.mkObj [("id", match c.id with | some i => toJson i | none => Json.null),
    ("pending", match c.pending with
      | none => Json.null
      | some m => Json.arr (m.map (fun (p, d) => Json.arr #[Json.str (bytesStr p),
          match d with | some b => toJson b | none => Json.null])).toArray)]

/-- {"op":"git","ignored":[paths],"events":[..]} ; answers one entry per query event -/
def handleGit (j : Json) : Except String Json := do
  let ign ← pathsOf (optArr j "ignored")
  let evs ← getArr j "events"
  let init : GitSt := { repo := GitRepo.empty (fun p => ign.contains p), ck := none }
  let (_, outs) ← evs.toList.foldlM (fun (acc : GitSt × List Json) (e : Json) => do
    let (st, outs) := acc
    let a ← e.getArr?
    let k ← (a[0]!).getStr?
    let pth (i : Nat) : Except String Path := do let s ← (a[i]!).getStr?; pure (strBytes s)
    match k with
    | "write" => do
      let p ← pth 1
      let b ← (a[2]!).getNat?
      pure ({ st with repo := applyGit st.repo (.write p b) }, outs)
    | "delete" => do let p ← pth 1; pure ({ st with repo := applyGit st.repo (.delete p) }, outs)
    | "move" => do let p ← pth 1; let q ← pth 2; pure ({ st with repo := applyGit st.repo (.move p q) }, outs)
    | "addall" => pure ({ st with repo := applyGit st.repo .addAll }, outs)
    | "add" => do let p ← pth 1; pure ({ st with repo := applyGit st.repo (.add p) }, outs)
    | "commit" => pure ({ st with repo := applyGit st.repo .commit }, outs)
    | "update" => do
      let pend ← (a[2]!).getBool?
      let c := checkpointUpdate st.repo st.ck (optNat (a[1]!)) pend
      pure ({ st with ck := some c }, outs ++ [ckJson c])
    | "update_unborn" => pure (st, outs)
    | "ckdelete" => pure ({ st with ck := none }, outs)
    | "outdelete" => pure ({ st with ck := none }, outs)
    | "show" => pure (st, outs ++ [match st.ck with | some c => ckJson c | none => Json.null])
    | "changes" =>
      match st.ck with
      | none => pure (st, outs ++ [Json.str "no_checkpoint"])
      | some c => pure (st, outs ++ [jPaths (st.repo.changes c (optNat (a[1]!)) (optNat (a[2]!)))])
    | "head" => pure (st, outs ++ [toJson st.repo.head])
    | _ => throw s!"bad git event {k}") (init, [])
  pure (Json.mkObj [("answers", Json.arr outs.toArray)])

end Monorail.Driver
