//! C03 / C09: `Dag::{set_subtree_visibility,get_groups}` driven directly over every small digraph
//! and every root subset, and `Index::new` + `get_labeled_groups` over generated configurations
//! with generated visible roots, vs the Lean model `groups`/`labeledGroups`; the Lean oracle
//! (partition + strict order + "rejected iff a visible node lies on a cycle") judges the
//! implementation's own groups. Failures are attributed: `cycle_accepted` belongs to C09, the rest
//! to C03.
use crate::ctx::{classify, Ctx};
use crate::gen::{self, ConfigCase, GenOpts};
use serde_json::{json, Value};

fn sets(v: &Value) -> Value {
    // groups as a list of sorted groups (the order inside a group is not part of any property)
    match v.as_array() {
        Some(a) => Value::Array(
            a.iter()
                .map(|g| {
                    let mut x: Vec<Value> = g.as_array().unwrap().clone();
                    x.sort_by(|a, b| match (a.as_u64(), b.as_u64()) {
                        (Some(p), Some(q)) => p.cmp(&q),
                        _ => a.as_str().unwrap_or("").as_bytes().cmp(b.as_str().unwrap_or("").as_bytes()),
                    });
                    Value::Array(x)
                })
                .collect(),
        ),
        None => v.clone(),
    }
}

fn canon(obs: &Value) -> Value {
    if let Some(ok) = obs.get("ok") {
        json!({"ok": sets(ok)})
    } else {
        obs.clone()
    }
}

fn mine(ctx: &Ctx, why: &str) -> bool {
    // which property this run decides
    let c09 = why == "cycle_accepted";
    if ctx.prop == "c09" { c09 } else { !c09 }
}

fn record(ctx: &mut Ctx, case: Value, resp: &Value, obs: &Value, kind: &str) {
    ctx.report.evaluations += 1;
    let why = resp["why"].as_str().unwrap_or("").to_string();
    let model = canon(&resp["model"]);
    let o = canon(obs);
    ctx.report.count(&format!("{}_oracle_{}", kind, resp["oracle"].as_str().unwrap_or("?")));
    if model.get("err").is_some() {
        ctx.report.count(&format!("{}_model_{}", kind, model["err"].as_str().unwrap_or("?")));
    } else {
        let ng = model["ok"].as_array().map(|a| a.len()).unwrap_or(0);
        ctx.report.count(&format!("{}_groups_{}", kind, ng.min(6)));
    }
    if resp["oracle"] == "fail" {
        ctx.report.count(&format!("fail_{}", why.replace(' ', "_")));
        if mine(ctx, &why) {
            if ctx.report.oracle_failures.len() < 5 {
                ctx.report.oracle_failures.push(json!({"kind": why, "case": case, "implementation": o, "expected": model}));
            }
            ctx.report.count("oracle_failures");
        }
        return;
    }
    if resp["oracle"] != "skip" && model != o {
        ctx.report.count("disagreements");
        if ctx.report.disagreements.len() < 5 {
            ctx.report.disagreements.push(json!({"kind": "model and implementation groups differ", "case": case, "implementation": o, "model": model}));
        }
    }
}

pub fn dag_case(ctx: &mut Ctx, adj: &Vec<Vec<usize>>, roots: &Vec<usize>, origin: &str) {
    let _ = std::fs::write(&ctx.current_case_file, json!({"adj": adj, "roots": roots}).to_string());
    let obs = match monorail::verif::dag_groups(adj, roots) {
        Ok(g) => json!({"ok": g}),
        Err(e) => json!({"err": classify(&e)}),
    };
    let resp = ctx.model.ask(&json!({"op": "dag", "adj": adj, "roots": roots, "obs": obs}));
    let edges: usize = adj.iter().map(|a| a.len()).sum();
    let cyclic = resp["model"].get("err").is_some();
    let nontrivial = if ctx.prop == "c09" { cyclic } else { !cyclic && edges >= 1 && !roots.is_empty() };
    let case = json!({"adj": adj, "roots": roots});
    if nontrivial {
        ctx.report.nontrivial_case(&case);
    }
    ctx.report.count(&format!("origin_{}", origin));
    if edges >= 2 && adj.len() <= 5 {
        ctx.report.sample(json!({"dag": case, "implementation": obs}));
    }
    // the concrete in-degree / queue model (`Model/Kahn.lean`, proved to refine the abstract
    // layering by `kahn_refines`) must reproduce the implementation's output exactly, order inside
    // a group included; a difference is a correspondence failure, never by itself a violation
    if resp["oracle"] == "ok" && !resp["kahn"].is_null() {
        ctx.report.count("kahn_exact_compared");
        if resp["kahn"] != obs {
            ctx.report.count("disagreements");
            if ctx.report.disagreements.len() < 5 {
                ctx.report.disagreements.push(json!({"kind": "concrete get_groups model (Model/Kahn.lean) and implementation differ (order inside groups included)",
                    "case": case, "implementation": obs, "model": resp["kahn"]}));
            }
        }
    }
    // the whole code path (`Model/Dfs.lean`: the iterative depth-first visibility walks with their
    // `active` set, then the loop), proved equivalent to the above by `c09_index_dfs`
    if resp["oracle"] == "ok" && !resp["index"].is_null() {
        ctx.report.count("dfs_exact_compared");
        if resp["index"] != obs {
            ctx.report.count("disagreements");
            if ctx.report.disagreements.len() < 5 {
                ctx.report.disagreements.push(json!({"kind": "concrete visibility walk + get_groups model (Model/Dfs.lean, Model/Kahn.lean) and implementation differ",
                    "case": case, "implementation": obs, "model": resp["index"]}));
            }
        }
    }
    record(ctx, case, &resp, &obs, "dag");
}

/// every digraph on `n` nodes (self-loops included when `loops`), every root subset
fn exhaustive(ctx: &mut Ctx, n: usize, loops: bool) {
    let pairs: Vec<(usize, usize)> = (0..n).flat_map(|a| (0..n).map(move |b| (a, b))).filter(|(a, b)| loops || a != b).collect();
    let m = pairs.len();
    let mut count = 0u64;
    for mask in 0u64..(1u64 << m) {
        let mut adj = vec![vec![]; n];
        for (k, (a, b)) in pairs.iter().enumerate() {
            if mask >> k & 1 == 1 {
                adj[*a].push(*b);
            }
        }
        for rmask in 0u32..(1u32 << n) {
            let roots: Vec<usize> = (0..n).filter(|i| rmask >> i & 1 == 1).collect();
            dag_case(ctx, &adj, &roots, "exhaustive");
            count += 1;
        }
    }
    ctx.report.exhaustive.push(format!(
        "every digraph on {} nodes ({}self-loops) x every root subset: {} cases", n, if loops { "with " } else { "no " }, count));
}

fn random_dag(ctx: &mut Ctx, n: usize, cyclic_ok: bool) -> Vec<Vec<usize>> {
    let r = &mut ctx.rng;
    let mut perm: Vec<usize> = (0..n).collect();
    r.shuffle(&mut perm);
    let density = r.range(1, 4);
    let mut adj = vec![vec![]; n];
    for a in 0..n {
        for b in (a + 1)..n {
            if r.below(n.max(4)) < density {
                adj[perm[a]].push(perm[b]); // respects the hidden order: acyclic
            }
        }
    }
    if cyclic_ok && r.chance(1, 3) {
        // close one cycle somewhere
        let a = r.below(n);
        let b = r.below(n);
        if !adj[perm[a.max(b)]].contains(&perm[a.min(b)]) {
            adj[perm[a.max(b)]].push(perm[a.min(b)]);
        }
    }
    for a in adj.iter_mut() {
        a.sort();
        a.dedup();
    }
    adj
}

fn eval_index(ctx: &mut Ctx, cfg: &ConfigCase, visible: &Option<Vec<String>>) -> (Value, Value) {
    let work = ctx.scratch.case_dir();
    cfg.materialise(&work);
    let obs = match monorail::verif::index_groups(&cfg.to_config_json(), visible.as_deref(), &work) {
        Ok(g) => json!({"ok": g}),
        Err(e) => {
            let k = classify(&e);
            json!({"err": if e.contains("Node not found for label") { "unknown_target" } else { k }})
        }
    };
    ctx.scratch.done(&work);
    let resp = ctx.model.ask(&json!({"op": "groups", "targets": cfg.to_model(), "visible": visible, "obs": obs}));
    (obs, resp)
}

/// smallest configuration (fewer targets / uses / ignores / roots) that still fails the same way
fn shrink_index(ctx: &mut Ctx, cfg: &ConfigCase, visible: &Option<Vec<String>>, why: &str) -> (ConfigCase, Option<Vec<String>>) {
    let mut cur = (cfg.clone(), visible.clone());
    'outer: loop {
        let mut cands: Vec<(ConfigCase, Option<Vec<String>>)> = vec![];
        if let Some(v) = &cur.1 {
            for i in 0..v.len() {
                if v.len() > 1 {
                    let mut w = v.clone();
                    w.remove(i);
                    cands.push((cur.0.clone(), Some(w)));
                }
            }
        }
        for c in gen::shrink_config(&cur.0) {
            let vis = cur.1.as_ref().map(|v| v.iter().filter(|l| c.index_of(l).is_some()).cloned().collect::<Vec<_>>());
            if let Some(v) = &vis {
                if v.is_empty() { continue; }
            }
            cands.push((c, vis));
        }
        for (c, v) in cands {
            let (_o, r) = eval_index(ctx, &c, &v);
            if r["oracle"] == "fail" && r["why"] == why {
                cur = (c, v);
                continue 'outer;
            }
        }
        return cur;
    }
}

fn index_case(ctx: &mut Ctx, cfg: &ConfigCase, visible: &Option<Vec<String>>, origin: &str) {
    let _ = std::fs::write(&ctx.current_case_file, json!({"config": cfg.to_model(), "visible": visible}).to_string());
    let (mut obs, mut resp) = eval_index(ctx, cfg, visible);
    let mut cfg = cfg.clone();
    let mut visible = visible.clone();
    if resp["oracle"] == "fail" && ctx.report.oracle_failures.len() < 5 {
        let why = resp["why"].as_str().unwrap_or("").to_string();
        if mine(ctx, &why) {
            let (c, v) = shrink_index(ctx, &cfg, &visible, &why);
            cfg = c;
            visible = v;
            let (o, r) = eval_index(ctx, &cfg, &visible);
            obs = o;
            resp = r;
        }
    }
    let cfg = &cfg;
    let visible = &visible;
    let work = ctx.scratch.case_dir();
    cfg.materialise(&work);
    let call = |c: &ConfigCase| match monorail::verif::index_groups(&c.to_config_json(), visible.as_deref(), &work) {
        Ok(g) => json!({"ok": g}),
        Err(e) => {
            let k = classify(&e);
            json!({"err": if e.contains("Node not found for label") { "unknown_target" } else { k }})
        }
    };
    let case = json!({"config": cfg.to_model(), "visible": visible});
    let cyclic = resp["model"]["err"] == "cycle";
    let ng = resp["model"]["ok"].as_array().map(|a| a.len()).unwrap_or(0);
    let nontrivial = if ctx.prop == "c09" { cyclic } else { ng >= 2 };
    if nontrivial && resp["wf"] == true {
        ctx.report.nontrivial_case(&case);
    }
    ctx.report.count(&format!("origin_{}", origin));
    ctx.report.count(if visible.is_some() { "roots_subset" } else { "roots_all" });
    if cfg.targets.len() <= 5 && ng >= 2 {
        ctx.report.sample(json!({"index": case, "implementation": obs}));
    }
    record(ctx, case.clone(), &resp, &obs, "index");
    // declaration order must not change which targets appear, nor success
    if resp["wf"] == true && cfg.targets.len() >= 2 {
        let mut shuffled = cfg.clone();
        ctx.rng.shuffle(&mut shuffled.targets);
        let obs2 = call(&shuffled);
        let flat = |o: &Value| -> Option<Vec<String>> {
            o.get("ok").map(|g| {
                let mut v: Vec<String> = g.as_array().unwrap().iter().flat_map(|x| x.as_array().unwrap().iter().map(|s| s.as_str().unwrap().to_string())).collect();
                v.sort();
                v
            })
        };
        if flat(&obs) != flat(&obs2) && ctx.prop != "c09" {
            ctx.report.count("oracle_failures");
            if ctx.report.oracle_failures.len() < 5 {
                ctx.report.oracle_failures.push(json!({"kind": "declaration order changes which targets appear", "case": case,
                    "implementation": obs, "permuted_config": shuffled.to_model(), "implementation_permuted": obs2}));
            }
        }
    }
    ctx.scratch.done(&work);
}

pub fn run(ctx: &mut Ctx) {
    for c in crate::corpus::load(&ctx.corpus_dir, &ctx.prop.to_uppercase()) {
        let c = if c.get("case").is_some() { c["case"].clone() } else { c };
        if c.get("adj").is_some() {
            let adj: Vec<Vec<usize>> = serde_json::from_value(c["adj"].clone()).unwrap();
            let roots: Vec<usize> = serde_json::from_value(c["roots"].clone()).unwrap();
            dag_case(ctx, &adj, &roots, "corpus");
        } else if c.get("config").is_some() {
            let cfg = ConfigCase::from_model(&c["config"]);
            let vis: Option<Vec<String>> = serde_json::from_value(c["visible"].clone()).unwrap_or(None);
            index_case(ctx, &cfg, &vis, "corpus");
        }
    }
    if ctx.budget == 0 {
        return;
    }
    exhaustive(ctx, 1, true);
    exhaustive(ctx, 2, true);
    exhaustive(ctx, 3, true);
    if ctx.thorough {
        exhaustive(ctx, 4, false);
    } else {
        // sample of the 4-node digraphs
        for _ in 0..6000 * ctx.budget {
            let mask = ctx.rng.next() & 0xFFF;
            let rmask = ctx.rng.below(16);
            let pairs: Vec<(usize, usize)> = (0..4).flat_map(|a| (0..4).map(move |b| (a, b))).filter(|(a, b)| a != b).collect();
            let mut adj = vec![vec![]; 4];
            for (k, (a, b)) in pairs.iter().enumerate() {
                if mask >> k & 1 == 1 { adj[*a].push(*b); }
            }
            let roots: Vec<usize> = (0..4).filter(|i| rmask >> i & 1 == 1).collect();
            dag_case(ctx, &adj, &roots, "sample4");
        }
    }
    let nbig = if ctx.thorough { 3000 } else { 300 } * ctx.budget;
    for _ in 0..nbig {
        let n = if ctx.rng.chance(1, 10) { ctx.rng.range(50, 300) } else { ctx.rng.range(5, 30) };
        let adj = random_dag(ctx, n, true);
        let k = ctx.rng.range(0, 4.min(n));
        let mut roots: Vec<usize> = (0..k).map(|_| ctx.rng.below(n)).collect();
        if ctx.rng.chance(1, 3) { roots = (0..n).collect(); }
        roots.sort();
        roots.dedup();
        dag_case(ctx, &adj, &roots, "random_large");
    }
    let ncfg = if ctx.thorough { 20_000 } else { 1_500 } * ctx.budget;
    let opts = GenOpts { max_targets: if ctx.thorough { 40 } else { 12 }, allow_dups: true, allow_odd: false, allow_slash: true };
    for _ in 0..ncfg {
        let mut r = ctx.rng.fork();
        let cfg = gen::config(&mut r, &opts);
        let visible = if r.chance(1, 3) {
            None
        } else {
            let k = r.range(1, 3.min(cfg.targets.len()));
            let mut v: Vec<String> = (0..k).map(|_| r.pick(&cfg.targets).path.clone()).collect();
            v.sort();
            v.dedup();
            Some(v)
        };
        index_case(ctx, &cfg, &visible, "random_config");
    }
}
