#!/usr/bin/env python3
"""How reliably does the quick check catch a seeded change?  Applies it to /repo, runs the quick
check of its property under several seeds, undoes it.  usage: seeded_robust.py <id> [seed ...]"""
import json
import os
import subprocess
import sys

V = os.path.join(os.path.dirname(os.path.abspath(__file__)), "..")
mid = sys.argv[1]
seeds = [int(x) for x in sys.argv[2:]] or [1, 2, 3, 4, 5]
meta = json.load(open(os.path.join(V, "seeded", mid, "meta.json")))
prop = meta["property"]
patch = os.path.join(V, "seeded", mid, "patch.diff")
subprocess.run(["git", "-C", "/repo", "checkout", "--", "."], check=True)
subprocess.run(["git", "-C", "/repo", "apply", patch], check=True)
res = []
try:
    for s in seeds:
        p = subprocess.run([os.path.join(V, "check"), prop, "--tier", "quick", "--seed", str(s)], cwd=V, stdout=subprocess.PIPE,
                           stderr=subprocess.STDOUT, text=True, env=dict(os.environ, MRVERIF_EVIDENCE_DIR="/var/tmp/mrverif-seeded-evidence"))
        line = [l for l in p.stdout.split("\n") if l.startswith(("VIOLATION", "OK ", "INFRA"))]
        res.append((s, p.returncode, (line or ["?"])[-1][:110]))
        print(mid, s, p.returncode, (line or ["?"])[-1][:110], flush=True)
finally:
    subprocess.run(["git", "-C", "/repo", "apply", "-R", patch], stderr=subprocess.DEVNULL)
    subprocess.run(["git", "-C", "/repo", "checkout", "--", "."], check=True)
print(mid, "detected %d/%d" % (sum(1 for r in res if r[1] == 1), len(res)))
