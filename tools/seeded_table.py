#!/usr/bin/env python3
"""Rewrites the seeded-change table of DESIGN.md (between the SEEDED_TABLE markers) from
seeded/DETECTION.json and each seeded/<id>/meta.json / patch.diff."""
import json
import os
import re

V = os.path.join(os.path.dirname(os.path.abspath(__file__)), "..")
det = json.load(open(os.path.join(V, "seeded", "DETECTION.json")))
rows = ["| id | files changed | check | detected | failing input | what the check reported |", "|---|---|---|---|---|---|"]
for d in sorted(det):
    v = det[d]
    patch = open(os.path.join(V, "seeded", d, "patch.diff")).read()
    files = sorted(set(re.findall(r"^\+\+\+ b/(\S+)", patch, re.M)))
    rows.append("| %s | %s | `./check %s` | %s | %s | %s |" % (
        d, ", ".join("`%s`" % f for f in files), v.get("property", d[:3]),
        "n/a" if v.get("obsolete") else ("yes" if v.get("detected") else "**no**"),
        "n/a" if v.get("obsolete") else ("yes" if v.get("with_failing_input") else "no"),
        (v.get("what_the_check_reported") or "").replace("|", "/")))
n = sum(1 for v in det.values() if not v.get("obsolete"))
k = sum(1 for v in det.values() if v.get("detected"))
w = sum(1 for v in det.values() if v.get("with_failing_input"))
rows.append("")
rows.append("%d of %d detected by the quick check of their property; %d with a concrete failing input as replay." % (k, n, w))
p = os.path.join(V, "DESIGN.md")
s = open(p).read()
block = "<!-- SEEDED_TABLE_BEGIN -->\n" + "\n".join(rows) + "\n<!-- SEEDED_TABLE_END -->"
if "SEEDED_TABLE_PLACEHOLDER" in s:
    s = s.replace("SEEDED_TABLE_PLACEHOLDER", block)
else:
    s = re.sub(r"<!-- SEEDED_TABLE_BEGIN -->.*?<!-- SEEDED_TABLE_END -->", lambda m: block, s, flags=re.S)
open(p, "w").write(s)
print(k, n, w)
