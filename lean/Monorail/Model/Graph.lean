/-!
# The target graph (`core::graph::Dag`)

`adj[u]` lists the nodes `u` **depends on**. `get_groups` is Kahn's algorithm by in-degree over the
visible nodes: the first group holds the nodes nothing (visible) depends on, and so on; a visible
node that is never released lies on (or behind) a cycle and makes the call fail.

The model is the *abstract* layering: repeatedly peel off the nodes that no remaining node depends
on. It produces the same groups as the counter/queue loop as sets (the order inside a group is not
part of any property); that equality is checked by the correspondence runs, exhaustively for all
small graphs.

Import-free (linked into the driver).
-/
namespace Monorail

structure Graph where
  adj : List (List Nat)
deriving Repr

def Graph.size (g : Graph) : Nat := g.adj.length

def Graph.out (g : Graph) (u : Nat) : List Nat := g.adj.getD u []

/-- nodes of `rem` that no node of `rem` depends on -/
def peel (g : Graph) (rem : List Nat) : List Nat :=
  rem.filter (fun v => rem.all (fun u => !(g.out u).contains v))

/-- peel repeatedly; returns the layers and what could not be released -/
def layersAux (g : Graph) : Nat → List Nat → List (List Nat) × List Nat
  | 0, rem => ([], rem)
  | fuel+1, rem =>
    let p := peel g rem
    if p.isEmpty then ([], rem)
    else
      let r := layersAux g fuel (rem.filter (fun v => !p.contains v))
      (p :: r.1, r.2)

def layers (g : Graph) (vis : List Nat) : List (List Nat) × List Nat :=
  layersAux g vis.length vis

def dedupNat : List Nat → List Nat
  | [] => []
  | x :: xs => if xs.contains x then dedupNat xs else x :: dedupNat xs

/-- one round of `set_subtree_visibility`'s walk: add everything the current set depends on -/
def expand (g : Graph) (s : List Nat) : List Nat :=
  dedupNat (s ++ (s.flatMap g.out).filter (fun v => v < g.size))

def closureAux (g : Graph) : Nat → List Nat → List Nat
  | 0, s => s
  | fuel+1, s =>
    let s' := expand g s
    if s'.length == s.length then s else closureAux g fuel s'

/-- the nodes made visible by `set_subtree_visibility` from every root -/
def closure (g : Graph) (roots : List Nat) : List Nat :=
  closureAux g g.size (dedupNat (roots.filter (fun v => v < g.size)))

inductive GraphErr where
  | cycle
deriving Repr, DecidableEq

/-- `Dag::get_groups` after visibility was set from `roots`: dependents first -/
def groups (g : Graph) (roots : List Nat) : Except GraphErr (List (List Nat)) :=
  let r := layers g (closure g roots)
  if r.2.isEmpty then .ok r.1 else .error .cycle

/-- `Dag::get_labeled_groups` order: dependencies first -/
def labeledGroups (g : Graph) (roots : List Nat) : Except GraphErr (List (List Nat)) :=
  match groups g roots with
  | .ok gs => .ok gs.reverse
  | .error e => .error e

/-- `analyze`'s pruning: keep only changed members, drop groups that become empty -/
def prune (changed : Nat → Bool) (gs : List (List Nat)) : List (List Nat) :=
  (gs.map (fun grp => grp.filter changed)).filter (fun grp => !grp.isEmpty)

end Monorail
