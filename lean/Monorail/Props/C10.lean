import Monorail.Proofs.Index
import Monorail.Spec.C10
/-!
# C10 — the dependency relation is exactly what the configuration declares

Only property theorems and their non-vacuity examples live in this file.
-/
namespace Monorail

/-- SPEC (stated on whole path components): `T` depends on `U`. -/
def DependsOn (T U : Target) : Prop :=
  Within U.path T.path ∨ ∃ u ∈ T.uses, Within U.path u

/-- **C10 (main).** For every well-formed configuration, the adjacency entry that `Index::new`
computes for target number `i` contains `j` exactly when `j` is another configured target whose
directory encloses `T`'s directory, or encloses/equals one of `T`'s `uses` entries — on whole path
components. -/
theorem c10_deps_iff {cfg : Config} (hwf : WF cfg) {i : Nat} {T : Target} (hT : cfg[i]? = some T)
    (j : Nat) :
    j ∈ deps cfg i ↔ ∃ U, cfg[j]? = some U ∧ j ≠ i ∧ DependsOn T U := by
  have hnd := hwf.nodup
  have key : ∀ U, cfg[j]? = some U → (U.path ≠ T.path ↔ j ≠ i) := by
    intro U hU
    constructor
    · intro hne hji; subst hji; rw [hT] at hU; cases hU; exact hne rfl
    · intro hji heq
      have h1 := indexOf?_of_nodup hnd hU
      have h2 := indexOf?_of_nodup hnd hT
      rw [heq, h2] at h1
      exact hji (Option.some.inj h1).symm
  simp only [deps, hT, mem_sortDedup, List.mem_append, List.mem_flatMap, mem_hitNodes hnd, DependsOn]
  constructor
  · rintro (⟨U, hU, hh, hs⟩ | ⟨u, hu, U, hU, hh, hs⟩)
    · have hn := hwf.normal U (List.mem_of_getElem? hU)
      exact ⟨U, hU, (key U hU).mp hs, Or.inl ((hit_iff hn _).mp hh)⟩
    · have hn := hwf.normal U (List.mem_of_getElem? hU)
      exact ⟨U, hU, (key U hU).mp hs, Or.inr ⟨u, hu, by
        have := (hit_slashQ (k := U.path) (by rw [dirOf_normal hn]; exact hn) u).mp hh
        rwa [dirOf_normal hn] at this⟩⟩
  · rintro ⟨U, hU, hji, hd⟩
    have hn := hwf.normal U (List.mem_of_getElem? hU)
    rcases hd with hw | ⟨u, hu, hw⟩
    · exact Or.inl ⟨U, hU, (hit_iff hn _).mpr hw, (key U hU).mpr hji⟩
    · exact Or.inr ⟨u, hu, U, hU, (hit_slashQ (k := U.path) (by rw [dirOf_normal hn]; exact hn) u).mpr
        (by rw [dirOf_normal hn]; exact hw), (key U hU).mpr hji⟩

/-- **C10.** Each adjacency entry is strictly increasing: no duplicate edge is ever stored, hence
`target render` emits each edge once. -/
theorem c10_deps_sorted (cfg : Config) (i : Nat) : (deps cfg i).Pairwise (· < ·) := by
  unfold deps
  split
  · simp
  · exact sortDedup_sorted _

/-- **C10.** Edges only ever point at configured targets. -/
theorem c10_deps_lt {cfg : Config} (hwf : WF cfg) {i j : Nat} {T : Target} (hT : cfg[i]? = some T)
    (h : j ∈ deps cfg i) : j < cfg.length := by
  obtain ⟨U, hU, _⟩ := (c10_deps_iff hwf hT j).mp h
  exact (List.getElem?_eq_some_iff.mp hU).1

/-- **C10 (declaration order).** The label-level relation does not depend on where the two
targets are declared: it is a predicate of the two targets alone. -/
theorem c10_label_level {cfg cfg' : Config} (hwf : WF cfg) (hwf' : WF cfg')
    {i j i' j' : Nat} {T U : Target}
    (hT : cfg[i]? = some T) (hU : cfg[j]? = some U)
    (hT' : cfg'[i']? = some T) (hU' : cfg'[j']? = some U) (hne : T.path ≠ U.path) :
    j ∈ deps cfg i ↔ j' ∈ deps cfg' i' := by
  have hji : j ≠ i := by intro h; subst h; rw [hT] at hU; cases hU; exact hne rfl
  have hji' : j' ≠ i' := by intro h; subst h; rw [hT'] at hU'; cases hU'; exact hne rfl
  rw [c10_deps_iff hwf hT, c10_deps_iff hwf' hT']
  constructor
  · rintro ⟨V, hV, _, hd⟩
    rw [hU] at hV; cases hV
    exact ⟨U, hU', hji', hd⟩
  · rintro ⟨V, hV, _, hd⟩
    rw [hU'] at hV; cases hV
    exact ⟨U, hU, hji, hd⟩

/-! ## Target paths written with a trailing separator -/

/-- SPEC for target paths that may be written with one trailing separator (`"core/"` names the
directory `core`): `T` depends on `U` when `U`'s directory encloses `T`'s directory, or equals or
encloses one of `T`'s `uses` entries. On normal paths this is `DependsOn`. -/
def DependsOnD (T U : Target) : Prop :=
  Within (dirOf U.path) (dirOf T.path) ∨ ∃ u ∈ T.uses, Within (dirOf U.path) u

/-- **C10 (trailing separators).** The main theorem for every configuration whose target paths
name pairwise different normal directories, each written with or without one trailing separator;
`uses` entries are arbitrary byte strings. -/
theorem c10_deps_iff_dir {cfg : Config} (hwf : WFD cfg) {i : Nat} {T : Target} (hT : cfg[i]? = some T)
    (j : Nat) :
    j ∈ deps cfg i ↔ ∃ U, cfg[j]? = some U ∧ j ≠ i ∧ DependsOnD T U := by
  have hnd := hwf.nodupPath
  have key : ∀ U, cfg[j]? = some U → (U.path ≠ T.path ↔ j ≠ i) := by
    intro U hU
    constructor
    · intro hne hji; subst hji; rw [hT] at hU; cases hU; exact hne rfl
    · intro hji heq
      have h1 := indexOf?_of_nodup hnd hU
      have h2 := indexOf?_of_nodup hnd hT
      rw [heq, h2] at h1
      exact hji (Option.some.inj h1).symm
  -- different targets name different directories
  have dirne : ∀ U, cfg[j]? = some U → j ≠ i → dirOf U.path ≠ dirOf T.path := by
    intro U hU hji heq
    exact hji (nodup_map_getElem_inj hwf.nodup hU hT heq)
  simp only [deps, hT, mem_sortDedup, List.mem_append, List.mem_flatMap, mem_hitNodes hnd, DependsOnD]
  constructor
  · rintro (⟨U, hU, hh, hs⟩ | ⟨u, hu, U, hU, hh, hs⟩)
    · have hn := hwf.normal U (List.mem_of_getElem? hU)
      have hji := (key U hU).mp hs
      exact ⟨U, hU, hji, Or.inl ((hit_nest hn (dirne U hU hji)).mp hh)⟩
    · have hn := hwf.normal U (List.mem_of_getElem? hU)
      exact ⟨U, hU, (key U hU).mp hs, Or.inr ⟨u, hu, (hit_slashQ hn u).mp hh⟩⟩
  · rintro ⟨U, hU, hji, hd⟩
    have hn := hwf.normal U (List.mem_of_getElem? hU)
    rcases hd with hw | ⟨u, hu, hw⟩
    · exact Or.inl ⟨U, hU, (hit_nest hn (dirne U hU hji)).mpr hw, (key U hU).mpr hji⟩
    · exact Or.inr ⟨u, hu, U, hU, (hit_slashQ hn u).mpr hw, (key U hU).mpr hji⟩

theorem c10_deps_lt_dir {cfg : Config} (hwf : WFD cfg) {i j : Nat} {T : Target} (hT : cfg[i]? = some T)
    (h : j ∈ deps cfg i) : j < cfg.length := by
  obtain ⟨U, hU, _⟩ := (c10_deps_iff_dir hwf hT j).mp h
  exact (List.getElem?_eq_some_iff.mp hU).1

/-! ## Non-vacuity: a concrete configuration with prefix-sharing names, nesting and `uses` -/

/-- `app`, `app2` (shares a byte prefix), `app/web` (nested), `lib` ; `app2` uses `lib/src/x.rs`. -/
def exCfg : Config :=
  [ { path := [97,112,112], uses := [], ignores := [] },
    { path := [97,112,112,50], uses := [[108,105,98,47,115,114,99,47,120,46,114,115]], ignores := [] },
    { path := [97,112,112,47,119,101,98], uses := [], ignores := [] },
    { path := [108,105,98], uses := [], ignores := [] } ]

theorem exCfg_wf : WF exCfg := by
  constructor
  · decide
  · intro t ht
    simp only [exCfg, List.mem_cons, List.not_mem_nil, or_false] at ht
    rcases ht with rfl | rfl | rfl | rfl <;> (rw [← normalB_iff]; decide)

example : deps exCfg 0 = [] ∧ deps exCfg 1 = [3] ∧ deps exCfg 2 = [0] ∧ deps exCfg 3 = [] := by decide

/-- the unrepaired (byte-prefix) rule made `app2` depend on `app` -/
example : depsLegacy exCfg 1 = [0, 3] := by decide

end Monorail

namespace Monorail
/-! ## The oracle used on implementation output is the specification of the theorem -/

theorem dependsOnB_iff (T U : Target) : dependsOnB T U = true ↔ DependsOn T U := by
  simp [dependsOnB, DependsOn, withinB_iff, List.any_eq_true]

theorem wfB_iff (cfg : Config) : wfB cfg = true ↔ WF cfg := by
  have hdup : ∀ c : Config, hasDupPath c = false ↔ (c.map (·.path)).Nodup := by
    intro c
    induction c with
    | nil => simp [hasDupPath]
    | cons t ts ih =>
      simp only [hasDupPath, Bool.or_eq_false_iff, ih, List.map_cons, List.nodup_cons,
        List.mem_map, List.any_eq_false, decide_eq_true_eq]
      constructor
      · rintro ⟨h1, h2⟩
        exact ⟨fun ⟨u, hu, hup⟩ => h1 u hu hup, h2⟩
      · rintro ⟨h1, h2⟩
        exact ⟨fun u hu hup => h1 ⟨u, hu, hup⟩, h2⟩
  simp only [wfB, Bool.and_eq_true, Bool.not_eq_true', hdup, List.all_eq_true, normalB_iff]
  exact ⟨fun ⟨a, b⟩ => ⟨a, b⟩, fun ⟨a, b⟩ => ⟨a, b⟩⟩

/-- the oracle's expected adjacency is the right-hand side of `c10_deps_iff` -/
theorem mem_specDeps {cfg : Config} {i : Nat} {T : Target} (hT : cfg[i]? = some T) (j : Nat) :
    j ∈ specDeps cfg i ↔ ∃ U, cfg[j]? = some U ∧ j ≠ i ∧ DependsOn T U := by
  simp only [specDeps, hT, List.mem_filter, List.mem_range, Bool.and_eq_true, bne_iff_ne, ne_eq]
  constructor
  · rintro ⟨hj, hne, hd⟩
    obtain ⟨U, hU⟩ : ∃ U, cfg[j]? = some U := ⟨cfg[j], List.getElem?_eq_getElem hj⟩
    rw [hU] at hd
    exact ⟨U, hU, hne, (dependsOnB_iff T U).mp hd⟩
  · rintro ⟨U, hU, hne, hd⟩
    refine ⟨(List.getElem?_eq_some_iff.mp hU).1, hne, ?_⟩
    rw [hU]; exact (dependsOnB_iff T U).mpr hd

/-- **C10 (model meets oracle).** On every well-formed configuration the model's adjacency has
exactly the members the oracle demands — so an implementation that agrees with the model passes the
oracle, and one that fails the oracle differs from the proved behaviour. -/
theorem c10_model_meets_oracle {cfg : Config} (hwf : WF cfg) {i : Nat} {T : Target}
    (hT : cfg[i]? = some T) (j : Nat) : j ∈ deps cfg i ↔ j ∈ specDeps cfg i := by
  rw [c10_deps_iff hwf hT, mem_specDeps hT]

/-! ### the same for target paths written with a trailing separator -/

theorem dependsOnDB_iff (T U : Target) : dependsOnDB T U = true ↔ DependsOnD T U := by
  simp [dependsOnDB, DependsOnD, withinB_iff, List.any_eq_true]

theorem wfDB_iff (cfg : Config) : wfDB cfg = true ↔ WFD cfg := by
  have hdup : ∀ c : Config, hasDupDir c = false ↔ (c.map (fun t => dirOf t.path)).Nodup := by
    intro c
    induction c with
    | nil => simp [hasDupDir]
    | cons t ts ih =>
      simp only [hasDupDir, Bool.or_eq_false_iff, ih, List.map_cons, List.nodup_cons,
        List.mem_map, List.any_eq_false, decide_eq_true_eq]
      constructor
      · rintro ⟨h1, h2⟩
        exact ⟨fun ⟨u, hu, hup⟩ => h1 u hu hup, h2⟩
      · rintro ⟨h1, h2⟩
        exact ⟨fun u hu hup => h1 ⟨u, hu, hup⟩, h2⟩
  simp only [wfDB, Bool.and_eq_true, Bool.not_eq_true', hdup, List.all_eq_true, normalB_iff]
  exact ⟨fun ⟨a, b⟩ => ⟨a, b⟩, fun ⟨a, b⟩ => ⟨a, b⟩⟩

theorem mem_specDepsD {cfg : Config} {i : Nat} {T : Target} (hT : cfg[i]? = some T) (j : Nat) :
    j ∈ specDepsD cfg i ↔ ∃ U, cfg[j]? = some U ∧ j ≠ i ∧ DependsOnD T U := by
  simp only [specDepsD, hT, List.mem_filter, List.mem_range, Bool.and_eq_true, bne_iff_ne, ne_eq]
  constructor
  · rintro ⟨hj, hne, hd⟩
    obtain ⟨U, hU⟩ : ∃ U, cfg[j]? = some U := ⟨cfg[j], List.getElem?_eq_getElem hj⟩
    rw [hU] at hd
    exact ⟨U, hU, hne, (dependsOnDB_iff T U).mp hd⟩
  · rintro ⟨U, hU, hne, hd⟩
    refine ⟨(List.getElem?_eq_some_iff.mp hU).1, hne, ?_⟩
    rw [hU]; exact (dependsOnDB_iff T U).mpr hd

/-- **C10 (model meets oracle, trailing separators).** -/
theorem c10_model_meets_oracle_dir {cfg : Config} (hwf : WFD cfg) {i : Nat} {T : Target}
    (hT : cfg[i]? = some T) (j : Nat) : j ∈ deps cfg i ↔ j ∈ specDepsD cfg i := by
  rw [c10_deps_iff_dir hwf hT, mem_specDepsD hT]

/-- on normal target paths the two specifications coincide -/
theorem dependsOnD_normal {T U : Target} (hT : Normal T.path) (hU : Normal U.path) :
    DependsOnD T U ↔ DependsOn T U := by
  simp [DependsOnD, DependsOn, dirOf_normal hT, dirOf_normal hU]

/-- `core/` (declared with a trailing separator), `app` using `core`, `tool` using `core/include`,
`core/sub` nested in it -/
def exCfgSlash : Config :=
  [ { path := [99,111,114,101,47], uses := [], ignores := [] },
    { path := [97,112,112], uses := [[99,111,114,101]], ignores := [] },
    { path := [116,111,111,108], uses := [[99,111,114,101,47,105,110,99,108,117,100,101]], ignores := [] },
    { path := [99,111,114,101,47,115,117,98], uses := [], ignores := [] } ]

example : wfDB exCfgSlash = true ∧ wfB exCfgSlash = false := by decide
example : deps exCfgSlash 0 = [] ∧ deps exCfgSlash 1 = [0] ∧ deps exCfgSlash 2 = [0] ∧ deps exCfgSlash 3 = [0] := by decide
/-- what the lookup of `uses: ["core"]` found before the `fix:` commit (entry as written): nothing -/
example : hit [99,111,114,101,47] [99,111,114,101] = false ∧ hit [99,111,114,101,47] (slashQ [99,111,114,101]) = true := by decide

end Monorail
