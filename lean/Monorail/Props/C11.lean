import Monorail.Proofs.ArgMap
/-!
# C11 — executables get the documented argv (argument table algebra) and resolution
-/
namespace Monorail

theorem fileArgs_eq_spec (inp : ArgInput) (files : TargetFiles)
    (hkeys : ∀ n src, files n = some src → (src.map (·.1)).Nodup) (c : String) :
    fileArgs inp files c =
      ((if inp.useBase then ["base"] else []) ++ inp.argmaps).flatMap (fileEntry files c) := by
  unfold fileArgs
  congr 1
  funext n
  unfold fileEntryAll fileEntry
  cases hf : files n with
  | none => rfl
  | some src => exact allArgs_eq_lookup (hkeys n src hf) c

/-- **C11 (argv).** For every set of argmap files (any target may lack any file), every list of
requested argmaps, with or without the base argmap, every `--args`, and every list of distinct
targets taking part in the run: the argument list the table yields for `(t, c)` is the documented
concatenation — base entry, then each requested argmap's entry in the order given, then `--args`
(which apply only to the single named target and single command). -/
theorem c11_argv (inp : ArgInput) (files : String → TargetFiles) (targets : List String)
    (hnd : targets.Nodup)
    (hkeys : ∀ t n src, files t n = some src → (src.map (·.1)).Nodup)
    {tbl : Table} (h : buildTable inp targets files = .ok tbl) {t : String} (ht : t ∈ targets)
    (c : String) : getArgs tbl t c = argvSpec inp files t c := by
  unfold buildTable mergeRunInput at h
  unfold argvSpec
  rw [← fileArgs_eq_spec inp (files t) (hkeys t) c]
  split at h
  · rename_i hempty
    cases h
    have hargs : inp.args = [] := by simpa using hempty
    rw [getArgs_foldTargets inp files targets hnd]
    simp [getArgs, ht, hargs]
  · split at h
    · cases h
    · rename_i hne hlen
      split at h
      · rename_i t0 hnamed
        cases h
        have hlen1 : inp.commands.length = 1 := by simpa using hlen
        obtain ⟨c0, hc0⟩ := List.length_eq_one_iff.mp hlen1
        have hfold : getArgs (targets.foldl (fun tb t => mergeTargetArgmaps inp tb t (files t)) []) t c
            = fileArgs inp (files t) c := by
          rw [getArgs_foldTargets inp files targets hnd]; simp [getArgs, ht]
        rw [getArgs_mergeTarget]
        by_cases htt : t = t0
        · subst htt
          rw [if_pos rfl, hfold]
          by_cases hcc : c0 = c
          · subst hcc; simp [hnamed, hc0, allArgs]
          · have hcc' : ¬ c = c0 := fun e => hcc e.symm
            simp [hnamed, hc0, allArgs, hcc, hcc']
        · have htt' : ¬ t0 = t := fun e => htt e.symm
          rw [if_neg htt, hfold]
          simp [hnamed, htt']
      · cases h

/-- **C11 (`--args` rule).** `--args` with a number of commands other than one is an error … -/
theorem c11_args_commands (inp : ArgInput) (targets : List String) (files : String → TargetFiles)
    (hargs : inp.args ≠ []) (hc : inp.commands.length ≠ 1) :
    buildTable inp targets files = .error .argsManyCommands := by
  unfold buildTable mergeRunInput
  have : inp.args.isEmpty = false := by simpa using hargs
  simp [this, hc]

/-- … and with a number of named targets other than one as well. -/
theorem c11_args_targets (inp : ArgInput) (targets : List String) (files : String → TargetFiles)
    (hargs : inp.args ≠ []) (hc : inp.commands.length = 1) (ht : inp.namedTargets.length ≠ 1) :
    buildTable inp targets files = .error .argsManyTargets := by
  unfold buildTable mergeRunInput
  have : inp.args.isEmpty = false := by simpa using hargs
  simp only [this, hc]
  match hn : inp.namedTargets with
  | [] => simp
  | [t] => simp [hn] at ht
  | _ :: _ :: _ => simp

/-- **C11 (isolation).** The arguments of `(t, c)` depend only on `t`'s own files. -/
theorem c11_isolation (inp : ArgInput) (files files' : String → TargetFiles) (t c : String)
    (h : files t = files' t) : argvSpec inp files t c = argvSpec inp files' t c := by
  unfold argvSpec; rw [h]

/-- **C11 (missing files).** Argmap files that do not exist contribute nothing. -/
theorem c11_missing (inp : ArgInput) (files : String → TargetFiles) (t c : String)
    (h : ∀ n, files t n = none) :
    argvSpec inp files t c = if inp.namedTargets = [t] ∧ inp.commands = [c] then inp.args else [] := by
  unfold argvSpec
  have : fileEntry (files t) c = fun _ => [] := by
    funext n; simp [fileEntry, h]
  rw [this]
  have hz : ∀ l : List String, l.flatMap (fun _ => ([] : List String)) = [] := by
    intro l; induction l with
    | nil => rfl
    | cons a as ih => simpa using ih
  rw [hz]; simp

/-- **C11 (argmap names and files).** Distinct argmap names stand for distinct files - whatever
characters the names contain, dots included - so describing a target's argmap directory by
name ↦ content (`TargetFiles`) loses nothing: no two requested names can read one file, and a name
never reads the file of another name. -/
theorem c11_file_inj (a b : String) (h : argmapFile a = argmapFile b) : a = b := by
  unfold argmapFile at h
  have := congrArg String.toList h
  simp only [String.toList_append] at this
  exact String.ext (List.append_cancel_right this)

example : argmapFile "dev.linux" = "dev.linux.json" ∧ argmapFile "dev.linux" ≠ argmapFile "dev" := by decide

/-- **C11 (resolution).** A non-empty definition path wins; otherwise the executable is a file of
the commands directory whose stem equals the command name, and there is none iff no such file. -/
theorem c11_resolve_def (p : String) (hp : p ≠ "") (dir : List (String × String)) (c : String) :
    resolveCommand (some p) dir c = some p := by
  simp [resolveCommand, hp]

theorem c11_resolve_stem (d : Option String) (hd : d = none ∨ d = some "")
    (dir : List (String × String)) (c : String) (f : String) :
    resolveCommand d dir c = some f → ∃ e ∈ dir, e.1 = c ∧ e.2 = f := by
  intro h
  have : (dir.find? (fun e => e.1 = c)).map (·.2) = some f := by
    rcases hd with rfl | rfl <;> simpa [resolveCommand] using h
  obtain ⟨e, he, hf⟩ := Option.map_eq_some_iff.mp this
  exact ⟨e, List.mem_of_find?_eq_some he, by simpa using List.find?_some he, hf⟩

theorem c11_resolve_none (d : Option String) (hd : d = none ∨ d = some "")
    (dir : List (String × String)) (c : String) :
    resolveCommand d dir c = none ↔ ∀ e ∈ dir, e.1 ≠ c := by
  have : resolveCommand d dir c = (dir.find? (fun e => e.1 = c)).map (·.2) := by
    rcases hd with rfl | rfl <;> simp [resolveCommand]
  rw [this]
  simp [List.find?_eq_none]

/-! ## Non-vacuity -/

def exFiles : String → TargetFiles := fun t n =>
  if t = "app" ∧ n = "base" then some [("build", ["--release"]), ("test", ["-q"])]
  else if t = "app" ∧ n = "ci" then some [("build", ["--locked", "a b"])]
  else if t = "lib" ∧ n = "ci" then some [("build", [""])]
  else none

def exInp : ArgInput :=
  { useBase := true, argmaps := ["ci", "nope"], args := ["x y"], commands := ["build"], namedTargets := ["app"] }

example : (buildTable exInp ["lib", "app"] exFiles).toOption =
    some [("lib", [("build", [""])]), ("app", [("build", ["--release", "--locked", "a b", "x y"]), ("test", ["-q"])])] := by
  decide
example : argvSpec exInp exFiles "app" "build" = ["--release", "--locked", "a b", "x y"] := by decide
example : argvSpec exInp exFiles "lib" "build" = [""] := by decide

end Monorail
