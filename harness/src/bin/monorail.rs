// The real entry point of /repo, compiled here so that it shares the hooks-on build of the library.
include!("/repo/src/bin/monorail.rs");
