import Monorail.Model.Path
/-! Lemmas relating the code's byte-level matching rule to the component-level specification. -/
namespace Monorail

theorem comps_ne_nil (l : Path) : comps l ≠ [] := by
  induction l with
  | nil => simp [comps]
  | cons c cs ih =>
    simp only [comps]
    split
    · simp
    · split <;> simp

theorem comps_append_sep (x y : Path) :
    comps (x ++ sep :: y) = comps x ++ comps y := by
  induction x with
  | nil => simp [comps]
  | cons c cs ih =>
    simp only [List.cons_append, comps]
    by_cases h : c = sep
    · simp [h, ih]
    · simp only [h, if_false, ih]
      cases hx : comps cs with
      | nil => exact absurd hx (comps_ne_nil cs)
      | cons a t => simp

theorem joinComps_comps (l : Path) : joinComps (comps l) = l := by
  induction l with
  | nil => simp [comps, joinComps]
  | cons c cs ih =>
    simp only [comps]
    by_cases h : c = sep
    · subst h
      simp only [if_true]
      cases hx : comps cs with
      | nil => exact absurd hx (comps_ne_nil cs)
      | cons a t => rw [hx] at ih; simp [joinComps, ih]
    · simp only [h, if_false]
      cases hx : comps cs with
      | nil => exact absurd hx (comps_ne_nil cs)
      | cons a t =>
        rw [hx] at ih
        cases t with
        | nil => simp [joinComps] at ih ⊢; exact ih
        | cons b t' => simp [joinComps] at ih ⊢; exact ih

theorem comps_injective {a b : Path} (h : comps a = comps b) : a = b := by
  rw [← joinComps_comps a, ← joinComps_comps b, h]

theorem joinComps_append (a b : List Path) (ha : a ≠ []) (hb : b ≠ []) :
    joinComps (a ++ b) = joinComps a ++ sep :: joinComps b := by
  induction a with
  | nil => exact absurd rfl ha
  | cons x xs ih =>
    cases xs with
    | nil =>
      cases b with
      | nil => exact absurd rfl hb
      | cons y ys => simp [joinComps]
    | cons x' xs' =>
      have := ih (by simp)
      simp only [List.cons_append] at this ⊢
      simp [joinComps, this]

theorem withinB_iff (d p : Path) : withinB d p = true ↔ Within d p := by
  simp [withinB, Within, List.isPrefixOf_iff_prefix]

theorem within_refl (p : Path) : Within p p := List.prefix_refl _

theorem within_trans {a b c : Path} (h1 : Within a b) (h2 : Within b c) : Within a c :=
  List.IsPrefix.trans h1 h2

/-- a normal path is non-empty -/
theorem normal_ne_nil {p : Path} (h : Normal p) : p ≠ [] := by
  intro hp; subst hp; simp [Normal, comps] at h

/-- a normal path does not end with a separator -/
theorem normal_getLast {p : Path} (h : Normal p) : p.getLast? ≠ some sep := by
  intro hl
  obtain ⟨x, rfl⟩ : ∃ x, p = x ++ [sep] := by
    rcases List.getLast?_eq_some_iff.mp hl with ⟨ys, rfl⟩
    exact ⟨ys, rfl⟩
  have : comps (x ++ [sep]) = comps x ++ [[]] := by
    have := comps_append_sep x []
    simpa [comps] using this
  simp [Normal, this] at h

theorem normalB_iff (p : Path) : normalB p = true ↔ Normal p := by
  simp [normalB, Normal]

/-- Every component-prefix is a byte-prefix on a boundary, and conversely. (No hypothesis.) -/
theorem within_iff_bytes (d p : Path) :
    Within d p ↔ d.isPrefixOf p = true ∧ (p.length = d.length ∨ p[d.length]? = some sep) := by
  constructor
  · rintro ⟨r, hr⟩
    cases r with
    | nil =>
      have : d = p := comps_injective (by simpa using hr)
      subst this
      simp
    | cons r0 rs =>
      have hp : p = d ++ sep :: joinComps (r0 :: rs) := by
        rw [← joinComps_comps p, ← hr, joinComps_append _ _ (comps_ne_nil d) (by simp),
          joinComps_comps]
      rw [hp]
      refine ⟨?_, Or.inr ?_⟩
      · rw [List.isPrefixOf_iff_prefix]; exact List.prefix_append _ _
      · simp
  · rintro ⟨hpre, hb⟩
    rw [List.isPrefixOf_iff_prefix] at hpre
    obtain ⟨t, rfl⟩ := hpre
    rcases hb with hlen | hsep
    · have : t = [] := by
        have : (d ++ t).length = d.length := hlen
        simp at this; exact this
      subst this; simp [Within]
    · cases t with
      | nil => simp at hsep
      | cons c t' =>
        have : c = sep := by simpa using hsep
        subst this
        unfold Within
        rw [comps_append_sep]
        exact List.prefix_append _ _

/-- THE TIE between the code's rule and the spec: for a normal key, the repaired trie search hits
exactly when the query equals the key or lies inside it by whole components. -/
theorem hit_iff {k : Path} (hk : Normal k) (q : Path) : hit k q = true ↔ Within k q := by
  have hne := normal_ne_nil hk
  have hlast := normal_getLast hk
  rw [within_iff_bytes]
  simp only [hit, boundary, Bool.and_eq_true, Bool.or_eq_true, Bool.not_eq_true', beq_iff_eq,
    List.isEmpty_eq_false_iff]
  constructor
  · rintro ⟨⟨_, hp⟩, hb⟩
    refine ⟨hp, ?_⟩
    rcases hb with (h | h) | h
    · exact Or.inl h
    · exact absurd h hlast
    · exact Or.inr h
  · rintro ⟨hp, hb⟩
    refine ⟨⟨hne, hp⟩, ?_⟩
    rcases hb with h | h
    · exact Or.inl (Or.inl h)
    · exact Or.inr h

/-! ## Keys and queries written with a trailing separator -/

theorem dirOf_normal {p : Path} (h : Normal p) : dirOf p = p := by
  simp [dirOf, normal_getLast h]

theorem dirOf_snoc (d : Path) : dirOf (d ++ [sep]) = d := by
  simp [dirOf]

theorem eq_snoc_of_getLast {p : Path} (h : p.getLast? = some sep) : p = dirOf p ++ [sep] := by
  rcases List.getLast?_eq_some_iff.mp h with ⟨ys, rfl⟩
  rw [dirOf_snoc]

theorem slashQ_getLast (u : Path) : (slashQ u).getLast? = some sep := by
  simp [slashQ]

theorem comps_snoc_sep (x : Path) : comps (x ++ [sep]) = comps x ++ [[]] := by
  have := comps_append_sep x []
  simpa [comps] using this

/-- a component list without empty components is a prefix of `x ++ [[]]` only by being one of `x` -/
theorem prefix_snoc_nil {l x : List Path} (hl : [] ∉ l) : l <+: x ++ [[]] ↔ l <+: x := by
  rw [List.prefix_concat_iff]
  constructor
  · rintro (h | h)
    · exfalso; apply hl; rw [h]; simp
    · exact h
  · exact Or.inr

theorem within_snoc {d x : Path} (hd : Normal d) : Within d (x ++ [sep]) ↔ Within d x := by
  unfold Within
  rw [comps_snoc_sep]
  exact prefix_snoc_nil hd

/-- looking a `uses` entry up with one trailing separator asks the same question as the entry -/
theorem within_slashQ {d u : Path} (hd : Normal d) : Within d (slashQ u) ↔ Within d u := by
  unfold slashQ
  by_cases h : u.getLast? = some sep
  · rw [← eq_snoc_of_getLast h]
  · rw [within_snoc hd]
    simp [dirOf, h]

theorem prefix_snoc_iff (d q : Path) (c : Nat) :
    (d ++ [c]).isPrefixOf q = true ↔ d.isPrefixOf q = true ∧ q[d.length]? = some c := by
  simp only [List.isPrefixOf_iff_prefix]
  constructor
  · rintro ⟨t, rfl⟩
    exact ⟨⟨[c] ++ t, by simp⟩, by simp⟩
  · rintro ⟨⟨t, rfl⟩, h⟩
    cases t with
    | nil => simp at h
    | cons a t' =>
      have : a = c := by simpa using h
      subst this
      exact ⟨t', by simp⟩

/-- THE TIE for keys that may carry a trailing separator: the repaired search hits exactly when the
query equals or lies inside the directory the key names - provided the query is not that directory
written without the separator (which the `uses` lookup rules out by asking with `slashQ`). -/
theorem hit_dir {k : Path} (hk : Normal (dirOf k)) {q : Path}
    (hq : k.getLast? = some sep → q ≠ dirOf k) : hit k q = true ↔ Within (dirOf k) q := by
  by_cases hs : k.getLast? = some sep
  · have hkeq := eq_snoc_of_getLast hs
    have hne := hq hs
    generalize dirOf k = d at hk hkeq hne
    subst hkeq
    have hdne := normal_ne_nil hk
    have hdl := normal_getLast hk
    rw [within_iff_bytes]
    have hh : hit (d ++ [sep]) q = (d ++ [sep]).isPrefixOf q := by
      simp [hit, boundary]
    rw [hh, prefix_snoc_iff]
    constructor
    · rintro ⟨hp, hb⟩; exact ⟨hp, Or.inr hb⟩
    · rintro ⟨hp, hb⟩
      refine ⟨hp, ?_⟩
      rcases hb with hlen | hb
      · exfalso
        apply hne
        rw [List.isPrefixOf_iff_prefix] at hp
        obtain ⟨t, rfl⟩ := hp
        have : t = [] := by
          have : (d ++ t).length = d.length := hlen
          simp at this; exact this
        subst this; simp
      · exact hb
  · have : dirOf k = k := by simp [dirOf, hs]
    rw [this] at hk ⊢
    exact hit_iff hk q

/-- the `uses` lookup as the code performs it -/
theorem hit_slashQ {k : Path} (hk : Normal (dirOf k)) (u : Path) :
    hit k (slashQ u) = true ↔ Within (dirOf k) u := by
  rw [hit_dir hk, within_slashQ hk]
  intro _ heq
  have h1 := slashQ_getLast u
  rw [heq] at h1
  exact normal_getLast hk h1

/-- the nesting lookup: the query is another target's path as written -/
theorem hit_nest {k q : Path} (hk : Normal (dirOf k)) (hne : dirOf k ≠ dirOf q) :
    hit k q = true ↔ Within (dirOf k) (dirOf q) := by
  by_cases hs : q.getLast? = some sep
  · have hqeq := eq_snoc_of_getLast hs
    rw [hit_dir hk, hqeq, within_snoc hk, dirOf_snoc]
    intro _ heq
    apply normal_getLast hk
    rw [← heq]; exact hs
  · have hd : dirOf q = q := by simp [dirOf, hs]
    rw [hd] at hne ⊢
    rw [hit_dir hk]
    intro _ heq
    exact hne heq.symm

end Monorail
