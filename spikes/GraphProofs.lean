import Spike.Graph
namespace G

theorem mem_peel {g : Graph} {rem : List Nat} {v : Nat} :
    v ∈ peel g rem ↔ v ∈ rem ∧ ∀ u ∈ rem, v ∉ g.out u := by
  simp [peel, List.mem_filter, List.all_eq_true]

/-- position-indexed statement: `v ∈ ls[j]` -/
def InLayer (ls : List (List Nat)) (j : Nat) (v : Nat) : Prop := ∃ l, ls[j]? = some l ∧ v ∈ l

/-- ORDER: if `u` depends on `v` (v ∈ out u), both remaining, and `v` lands in layer `j`,
then `u` landed in a strictly earlier layer (get_groups order: dependents first). -/
theorem order_aux (g : Graph) : ∀ (fuel : Nat) (rem : List Nat) (u v j : Nat),
    u ∈ rem → v ∈ g.out u → InLayer (layersAux g fuel rem).1 j v →
    ∃ i, i < j ∧ InLayer (layersAux g fuel rem).1 i u := by
  intro fuel
  induction fuel with
  | zero => intro rem u v j _ _ h; simp [layersAux, InLayer] at h
  | succ fuel ih =>
    intro rem u v j hu huv h
    simp only [layersAux] at h ⊢
    split at h
    · simp [InLayer] at h
    · rename_i hne
      simp only [hne] at ⊢
      cases j with
      | zero =>
        -- v ∈ peel g rem contradicts u ∈ rem with an edge to v
        obtain ⟨l, hl, hv⟩ := h
        simp at hl; subst hl
        exact absurd huv ((mem_peel.mp hv).2 u hu)
      | succ j =>
        obtain ⟨l, hl, hv⟩ := h
        simp only [List.getElem?_cons_succ] at hl
        by_cases hup : u ∈ peel g rem
        · exact ⟨0, Nat.succ_pos _, peel g rem, by simp, hup⟩
        · have hu' : u ∈ rem.filter (fun v => !(peel g rem).contains v) := by
            simp [List.mem_filter, hu, hup]
          obtain ⟨i, hij, l', hl', hul'⟩ := ih _ u v j hu' huv ⟨l, hl, hv⟩
          exact ⟨i+1, Nat.succ_lt_succ hij, l', hl', hul'⟩

/-- PARTITION: layers ++ leftover is a permutation of the start set. -/
theorem perm_aux (g : Graph) : ∀ (fuel : Nat) (rem : List Nat),
    ((layersAux g fuel rem).1.flatten ++ (layersAux g fuel rem).2).Perm rem := by
  intro fuel
  induction fuel with
  | zero => intro rem; simp [layersAux]
  | succ fuel ih =>
    intro rem
    simp only [layersAux]
    split
    · simp
    · simp only [List.flatten_cons, List.append_assoc]
      have h1 := ih (rem.filter (fun v => !(peel g rem).contains v))
      have h2 : (peel g rem ++ rem.filter (fun v => !(peel g rem).contains v)).Perm rem := by
        have : peel g rem = rem.filter (fun v => (peel g rem).contains v) := by
          conv => lhs; unfold peel
          apply List.filter_congr
          intro x hx
          rw [Bool.eq_iff_iff]
          simp only [List.contains_iff_mem, mem_peel, List.all_eq_true, Bool.not_eq_true']
          constructor
          · intro h; exact ⟨hx, fun u hu => by simpa using h u hu⟩
          · intro h u hu; simpa using h.2 u hu
        conv => lhs; arg 1; rw [this]
        exact List.filter_append_perm _ rem
      exact (List.Perm.append_left _ h1).trans h2

/-- a set of remaining nodes in which everyone has a predecessor inside the set is never peeled -/
theorem stuck_aux (g : Graph) (C : List Nat) (hC : ∀ v ∈ C, ∃ u ∈ C, v ∈ g.out u) :
    ∀ (fuel : Nat) (rem : List Nat), (∀ v ∈ C, v ∈ rem) → ∀ v ∈ C, v ∈ (layersAux g fuel rem).2 := by
  intro fuel
  induction fuel with
  | zero => intro rem h v hv; simpa [layersAux] using h v hv
  | succ fuel ih =>
    intro rem h v hv
    simp only [layersAux]
    split
    · exact h v hv
    · apply ih _ _ v hv
      intro w hw
      simp only [List.mem_filter, h w hw, true_and]
      obtain ⟨u, huC, hwu⟩ := hC w hw
      have : w ∉ peel g rem := fun hp => (mem_peel.mp hp).2 u (h u huC) hwu
      simpa using this
end G
