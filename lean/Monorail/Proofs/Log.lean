import Monorail.Model.Log
/-! Lemmas about the log reader. -/
namespace Monorail

theorem splitLines_spec : ∀ b : Bytes, (splitLines b).1.flatten ++ (splitLines b).2 = b := by
  intro b
  induction b with
  | nil => rfl
  | cons x xs ih =>
    simp only [splitLines]
    split
    · rename_i h; simp [ih]
    · cases hr : (splitLines xs).1 with
      | nil => simp [hr] at ih ⊢; exact ih
      | cons l ls => simp [hr] at ih ⊢; exact ih

/-- every completed line ends with the newline and contains no other newline -/
theorem splitLines_lines : ∀ (b : Bytes) (l : Bytes), l ∈ (splitLines b).1 →
    ∃ body, l = body ++ [newline] ∧ newline ∉ body := by
  intro b
  induction b with
  | nil => intro l h; simp [splitLines] at h
  | cons x xs ih =>
    intro l h
    simp only [splitLines] at h
    split at h
    · rename_i hx
      rcases List.mem_cons.mp h with rfl | h
      · exact ⟨[], by simp [hx], by simp⟩
      · exact ih l h
    · rename_i hx
      cases hr : (splitLines xs).1 with
      | nil => simp [hr] at h
      | cons l0 ls =>
        simp only [hr] at h
        rcases List.mem_cons.mp h with rfl | h
        · obtain ⟨body, hb, hn⟩ := ih l0 (by rw [hr]; simp)
          exact ⟨x :: body, by simp [hb], by simp [hn, Ne.symm hx]⟩
        · exact ih l (by rw [hr]; exact List.mem_cons_of_mem _ h)

/-- the unterminated remainder contains no newline -/
theorem splitLines_rest : ∀ b : Bytes, newline ∉ (splitLines b).2 := by
  intro b
  induction b with
  | nil => simp [splitLines]
  | cons x xs ih =>
    simp only [splitLines]
    split
    · exact ih
    · rename_i hx
      cases hr : (splitLines xs).1 with
      | nil => simp [Ne.symm hx, ih]
      | cons l ls => simpa using ih

theorem dataBytes_append (a b : List CReq) : dataBytes (a ++ b) = dataBytes a ++ dataBytes b := by
  induction a with
  | nil => rfl
  | cons r rest ih => cases r <;> simp [dataBytes, ih]

/-- everything that matters for the compressor and for the reader's result -/
def coreOf (s : RSt) : Bytes × List Bytes × List CReq × Option Bool := (s.buf, s.lines, s.out, s.done)

theorem flush_core (ok ok' : Nat → Bool) (s t : RSt) (h : coreOf s = coreOf t) :
    coreOf (flush ok s) = coreOf (flush ok' t) := by
  simp only [coreOf, Prod.mk.injEq] at h
  obtain ⟨h1, h2, h3, h4⟩ := h
  unfold flush
  rw [h2]
  by_cases he : t.lines.isEmpty
  · simp [he, coreOf, h1, h2, h3, h4]
  · simp only [he, Bool.false_eq_true, if_false]
    cases s.client <;> cases t.client <;> cases ok s.writes <;> cases ok' t.writes <;>
      simp [coreOf, h1, h2, h3, h4]

theorem finish_core (ok ok' : Nat → Bool) (s t : RSt) (r : Bool) (h : coreOf s = coreOf t) :
    coreOf (finish ok s r) = coreOf (finish ok' t r) := by
  have hb : s.buf = t.buf := by simpa [coreOf] using congrArg (·.1) h
  unfold finish
  have h1 : coreOf (if s.buf.isEmpty then s else { s with lines := s.lines ++ [s.buf], buf := [] }) =
      coreOf (if t.buf.isEmpty then t else { t with lines := t.lines ++ [t.buf], buf := [] }) := by
    rw [hb]
    simp only [coreOf, Prod.mk.injEq] at h
    by_cases he : t.buf.isEmpty
    · simp [he, coreOf, h.1, h.2.1, h.2.2.1, h.2.2.2]
    · simp [he, coreOf, h.2.1, h.2.2.1, h.2.2.2]
  have h2 := flush_core ok ok' _ _ h1
  simp only [coreOf, Prod.mk.injEq] at h2 ⊢
  exact ⟨h2.1, h2.2.1, by rw [h2.2.2.1], trivial⟩

theorem rstep_core (ok ok' : Nat → Bool) (s t : RSt) (ev : REv) (h : coreOf s = coreOf t) :
    coreOf (rstep ok s ev) = coreOf (rstep ok' t ev) := by
  have hd : s.done = t.done := by simpa [coreOf] using congrArg (·.2.2.2) h
  unfold rstep
  rw [hd]
  by_cases hdone : t.done.isSome
  · simp [hdone, h]
  · simp only [hdone, Bool.false_eq_true, if_false]
    cases ev with
    | chunk bs =>
      simp only [coreOf, Prod.mk.injEq] at h ⊢
      simp [h.1, h.2.1, h.2.2.1, h.2.2.2]
    | tick => exact flush_core ok ok' s t h
    | eof => exact finish_core ok ok' s t true h
    | cancel => exact finish_core ok ok' s t false h

theorem rrun_core (ok ok' : Nat → Bool) (c c' : Bool) (evs : List REv) :
    coreOf (rrun ok c evs) = coreOf (rrun ok' c' evs) := by
  unfold rrun
  have : ∀ (s t : RSt), coreOf s = coreOf t →
      coreOf (evs.foldl (rstep ok) s) = coreOf (evs.foldl (rstep ok') t) := by
    induction evs with
    | nil => intro s t h; exact h
    | cons e rest ih => intro s t h; exact ih _ _ (rstep_core ok ok' s t e h)
  exact this _ _ rfl

/-- no end of stream inside the list -/
def Open (evs : List REv) : Prop := ∀ e ∈ evs, e ≠ .eof ∧ e ≠ .cancel

theorem flush_bytes (ok : Nat → Bool) (s : RSt) :
    dataBytes (flush ok s).out ++ (flush ok s).lines.flatten = dataBytes s.out ++ s.lines.flatten ∧
    (flush ok s).buf = s.buf ∧ (flush ok s).done = s.done ∧
    (CReq.endReq ∉ s.out → CReq.endReq ∉ (flush ok s).out) ∧ (flush ok s).lines = [] := by
  unfold flush
  by_cases he : s.lines.isEmpty
  · have : s.lines = [] := by simpa using he
    simp [he, this]
  · simp only [he, Bool.false_eq_true, if_false]
    cases s.client <;> cases ok s.writes <;> simp [dataBytes_append, dataBytes]

theorem open_inv (ok : Nat → Bool) : ∀ (evs : List REv), Open evs → ∀ (s : RSt), s.done = none →
    (evs.foldl (rstep ok) s).done = none ∧
    dataBytes (evs.foldl (rstep ok) s).out ++ (evs.foldl (rstep ok) s).lines.flatten ++ (evs.foldl (rstep ok) s).buf
      = dataBytes s.out ++ s.lines.flatten ++ s.buf ++ chunkBytes evs ∧
    (CReq.endReq ∉ s.out → CReq.endReq ∉ (evs.foldl (rstep ok) s).out) := by
  intro evs
  induction evs with
  | nil => intro _ s hd; simp [chunkBytes, hd]
  | cons e rest ih =>
    intro hopen s hd
    have hrest : Open rest := fun x hx => hopen x (List.mem_cons_of_mem _ hx)
    have he := hopen e List.mem_cons_self
    simp only [List.foldl_cons]
    cases e with
    | chunk bs =>
      have hstep : rstep ok s (.chunk bs) =
          { s with lines := s.lines ++ (splitLines (s.buf ++ bs)).1, buf := (splitLines (s.buf ++ bs)).2 } := by
        simp [rstep, hd]
      obtain ⟨i1, i2, i3⟩ := ih hrest (rstep ok s (.chunk bs)) (by rw [hstep]; exact hd)
      refine ⟨i1, ?_, ?_⟩
      · rw [i2, hstep]
        simp only [chunkBytes, List.flatten_append, List.append_assoc]
        have := splitLines_spec (s.buf ++ bs)
        rw [← List.append_assoc (List.flatten (splitLines (s.buf ++ bs)).1), this]
        simp [List.append_assoc]
      · intro hn; apply i3; rw [hstep]; exact hn
    | tick =>
      have hstep : rstep ok s .tick = flush ok s := by simp [rstep, hd]
      obtain ⟨f1, f2, f3, f4, _⟩ := flush_bytes ok s
      obtain ⟨i1, i2, i3⟩ := ih hrest (rstep ok s .tick) (by rw [hstep, f3]; exact hd)
      refine ⟨i1, ?_, ?_⟩
      · rw [i2, hstep, f2, f1]; simp [chunkBytes]
      · intro hn; apply i3; rw [hstep]; exact f4 hn
    | eof => exact absurd rfl he.1
    | cancel => exact absurd rfl he.2

end Monorail
