import Lean.Data.Json
import Monorail.Model.Index
/-! JSON glue of the line-protocol driver (unverified, part of the trusted base). -/
open Lean
namespace Monorail.Driver

def strBytes (s : String) : Path := s.toUTF8.toList.map (·.toNat)

def bytesStr (p : Path) : String :=
  match String.fromUTF8? (ByteArray.mk (p.map (·.toUInt8)).toArray) with
  | some s => s
  | none => "?"

def getStr (j : Json) (k : String) : Except String String := j.getObjValAs? String k
def getNat (j : Json) (k : String) : Except String Nat := j.getObjValAs? Nat k
def getBool (j : Json) (k : String) : Except String Bool := j.getObjValAs? Bool k
def getArr (j : Json) (k : String) : Except String (Array Json) := do
  let v ← j.getObjVal? k
  v.getArr?

def optArr (j : Json) (k : String) : Array Json :=
  match j.getObjVal? k with
  | .ok (.arr a) => a
  | _ => #[]

def pathsOf (a : Array Json) : Except String (List Path) :=
  a.toList.mapM (fun x => do let s ← x.getStr?; pure (strBytes s))

def natsOf (a : Array Json) : Except String (List Nat) :=
  a.toList.mapM (fun x => x.getNat?)

def natListsOf (a : Array Json) : Except String (List (List Nat)) :=
  a.toList.mapM (fun x => do let r ← x.getArr?; natsOf r)

def targetOf (j : Json) : Except String Target := do
  let p ← getStr j "path"
  let uses ← pathsOf (optArr j "uses")
  let ignores ← pathsOf (optArr j "ignores")
  pure { path := strBytes p, uses := uses, ignores := ignores }

def configOf (j : Json) : Except String Config := do
  let ts ← getArr j "targets"
  ts.toList.mapM targetOf

def jNats (l : List Nat) : Json := Json.arr (l.map (fun (n : Nat) => (toJson n))).toArray
def jNatLists (l : List (List Nat)) : Json := Json.arr (l.map jNats).toArray
def jPaths (l : List Path) : Json := Json.arr (l.map (fun p => Json.str (bytesStr p))).toArray
def jPathLists (l : List (List Path)) : Json := Json.arr (l.map jPaths).toArray

end Monorail.Driver
