fn main() {}
