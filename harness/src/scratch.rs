//! Scratch work directories (outside /repo, /verif and /tmp), removed as each case finishes.
use std::path::{Path, PathBuf};

pub struct Scratch {
    pub root: PathBuf,
    n: u64,
}
impl Scratch {
    pub fn new() -> Scratch {
        let base = std::env::var("VERIF_SCRATCH").unwrap_or_else(|_| "/var/tmp".to_string());
        let root = PathBuf::from(base).join(format!("mrverif.{}", std::process::id()));
        let _ = std::fs::remove_dir_all(&root);
        std::fs::create_dir_all(&root).expect("scratch root");
        Scratch { root, n: 0 }
    }
    pub fn case_dir(&mut self) -> PathBuf {
        self.n += 1;
        let d = self.root.join(format!("c{}", self.n));
        std::fs::create_dir_all(&d).expect("case dir");
        d
    }
    pub fn done(&self, d: &Path) {
        let _ = std::fs::remove_dir_all(d);
    }
}
impl Drop for Scratch {
    fn drop(&mut self) {
        let _ = std::fs::remove_dir_all(&self.root);
    }
}
