/-! Feasibility spike: path components vs byte-level boundary test (import-free). -/
namespace P
variable {α : Type} [DecidableEq α]

/-- split a list at every occurrence of `sep` (always a non-empty list of components) -/
def comps (sep : α) : List α → List (List α)
  | [] => [[]]
  | c :: cs =>
    if c = sep then [] :: comps sep cs
    else match comps sep cs with
      | [] => [[c]]
      | h :: t => (c :: h) :: t

/-- the repaired matching rule of the code: byte prefix that ends on a component boundary -/
def pathPrefix (sep : α) (d p : List α) : Bool :=
  d.isPrefixOf p && (p.length == d.length || p[d.length]? == some sep)

theorem comps_ne_nil (sep : α) (l : List α) : comps sep l ≠ [] := by
  induction l with
  | nil => simp [comps]
  | cons c cs ih =>
    simp only [comps]
    split
    · simp
    · split <;> simp

theorem comps_append_sep (sep : α) (x y : List α) :
    comps sep (x ++ sep :: y) = comps sep x ++ comps sep y := by
  induction x with
  | nil => simp [comps]
  | cons c cs ih =>
    simp only [List.cons_append, comps]
    by_cases h : c = sep
    · simp [h, ih]
    · simp only [h, if_false, ih]
      cases hx : comps sep cs with
      | nil => exact absurd hx (comps_ne_nil sep cs)
      | cons a t => simp

def join (sep : α) : List (List α) → List α
  | [] => []
  | [c] => c
  | c :: d :: t => c ++ sep :: join sep (d :: t)

theorem join_comps (sep : α) (l : List α) : join sep (comps sep l) = l := by
  induction l with
  | nil => simp [comps, join]
  | cons c cs ih =>
    simp only [comps]
    by_cases h : c = sep
    · subst h
      simp only [if_true]
      cases hx : comps c cs with
      | nil => exact absurd hx (comps_ne_nil c cs)
      | cons a t => rw [hx] at ih; simp [join, ih]
    · simp only [h, if_false]
      cases hx : comps sep cs with
      | nil => exact absurd hx (comps_ne_nil sep cs)
      | cons a t =>
        rw [hx] at ih
        cases t with
        | nil => simp [join] at ih ⊢; exact ih
        | cons b t' => simp [join] at ih ⊢; exact ih

#eval comps '/' "a/bc//d".toList
#eval pathPrefix '/' "app".toList "app2/x".toList   -- false
#eval pathPrefix '/' "app".toList "app/x".toList    -- true
end P
