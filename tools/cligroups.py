#!/usr/bin/env python3
"""C03 / C09 at CLI level, after the in-process enumeration (`mrverif c03|c09`).

Every API that groups targets is driven through the real binary on a generated repository that is
walked through several states (no checkpoint; checkpoint and nothing changed; checkpoint and a few
targets changed; changes recorded with `checkpoint update --pending`):

    analyze --target-groups        groups of the changed targets
    target show --target-groups    groups of all targets
    run -c build                   groups of the changed targets, in results[].target_groups
    run -c build -t R.. --deps     groups of the dependency closure of R

Oracle (independent of the Lean model: the documented dependency relation is recomputed here from
the configuration, whole components):
  C09  the configuration has a cycle (reachable from R for --deps) => exit status != 0 with a graph
       cycle error, no groups printed, no executable started, no hang;
  C03  otherwise => success; the groups partition exactly the requested set; every target is in a
       strictly later group than every target of the requested set it (transitively) depends on;
       no empty group.
The Lean model (`groups` op: labeledGroups over the adjacency of the configuration, pruned to the
requested set) must give the same groups as sets: a difference is a correspondence failure."""
import json
import os
import subprocess
import sys
import time
from concurrent.futures import ThreadPoolExecutor

import rungen
import scen


def gen_config(rng, want_cycle):
    ts = rungen.gen_acyclic_targets(rng, 2, 6)
    # a trailing slash is legal in a target path and names the same directory
    if rng.chance(1, 4):
        t = rng.pick(ts)
        bare = t["path"]
        t["path"] = bare + "/"
        # a uses entry may name it with or without the slash (D11: without was not matched)
        for u in ts:
            if "uses" in u:
                u["uses"] = [x + "/" if x == bare and rng.chance(1, 2) else x for x in u["uses"]]
    # `ignores` say which changes a target disregards; they take no part in the dependency relation,
    # not even when they cover one of the target's own `uses` entries
    for t in ts:
        if t.get("uses") and rng.chance(1, 3):
            u = rng.pick(t["uses"])
            t["ignores"] = [u.rsplit("/", 1)[0] if "/" in u and rng.chance(1, 2) else u]
    if not want_cycle:
        return ts if is_acyclic(ts) else rungen.gen_acyclic_targets(rng, 2, 6)
    if rng.chance(1, 4):
        # the only cycle runs through targets with long multi-byte names (the cycle error names one)
        a = "д" * rng.range(40, 70) + "/" + "ж" * rng.range(40, 70)
        b = "д" * rng.range(40, 70) + "б/" + "я" * rng.range(30, 60)
        ts.insert(rng.below(len(ts) + 1), {"path": a, "uses": [b if rng.chance(1, 2) else b + "/src/x.rs"]})
        ts.insert(rng.below(len(ts) + 1), {"path": b, "uses": [a]})
        return ts
    paths = [t["path"] for t in ts]
    for _ in range(40):
        kind = rng.below(3)
        a = rng.pick(ts)
        if kind == 0:
            # uses alone: close a cycle along an existing dependency
            b = rng.pick(ts)
            if a is b:
                continue
            a.setdefault("uses", []).append(b["path"] if rng.chance(1, 2) else strip(b["path"]) + "/src/lib.rs")
            if is_acyclic(ts):
                b.setdefault("uses", []).append(a["path"] if rng.chance(1, 2) else strip(a["path"]) + "/x")
        elif kind == 1:
            # uses combined with nesting: a target using a path inside a target nested in it
            child = strip(a["path"]) + "/" + rng.pick(["inner", "plugin", "z"])
            if child in [strip(p) for p in paths]:
                continue
            ts.insert(rng.below(len(ts) + 1), {"path": child})
            paths.append(child)
            a.setdefault("uses", []).append(child if rng.chance(1, 2) else child + "/file.txt")
        else:
            a.setdefault("uses", []).append(strip(a["path"]) + "/self.txt")  # inside itself: no edge, no cycle
            continue
        if not is_acyclic(ts):
            # the entry that closes the cycle may well be covered by the same target's `ignores`:
            # that changes which changes the target disregards, not what it depends on
            if rng.chance(1, 2) and a.get("uses"):
                u = a["uses"][-1]
                a.setdefault("ignores", []).append(u.rsplit("/", 1)[0] if "/" in u and rng.chance(1, 2) else u)
            return ts
    return ts


def strip(p):
    return p[:-1] if p.endswith("/") else p


def comps(p):
    return [c for c in p.split("/") if c != ""]


def within(d, p):
    cd, cp = comps(d), comps(p)
    return len(cd) > 0 and cp[:len(cd)] == cd


def deps_of(ts):
    n = len(ts)
    adj = [[] for _ in range(n)]
    for i, t in enumerate(ts):
        for j, u in enumerate(ts):
            if i != j and (within(u["path"], t["path"]) or any(within(u["path"], x) for x in t.get("uses", []))):
                adj[i].append(j)
    return adj


def reach(adj, roots):
    seen = set()
    st = list(roots)
    while st:
        v = st.pop()
        if v in seen:
            continue
        seen.add(v)
        st.extend(adj[v])
    return seen


def on_cycle(adj, v):
    return v in reach(adj, adj[v])


def is_acyclic(ts):
    adj = deps_of(ts)
    return not any(on_cycle(adj, v) for v in range(len(ts)))


def cyclic_from(adj, roots):
    return any(on_cycle(adj, v) for v in reach(adj, roots))


def is_cycle_error(rc, err):
    return rc not in (0, None) and ('"type":"graph"' in err.replace(" ", "") or "cycle" in err.lower())


def judge(ts, adj, requested, groups):
    """groups: list of lists of labels, dependencies first. Returns None or the C03 failure text."""
    idx = {t["path"]: i for i, t in enumerate(ts)}
    flat = [x for g in groups for x in g]
    if any(x not in idx for x in flat):
        return "a group names something that is not a configured target"
    if sorted(flat) != sorted(ts[i]["path"] for i in requested):
        return "the groups do not partition exactly the requested targets"
    if any(len(g) == 0 for g in groups):
        return "an empty group"
    pos = {}
    for k, g in enumerate(groups):
        for x in g:
            pos[idx[x]] = k
    for v in requested:
        for w in reach(adj, adj[v]):
            if w in pos and w != v and pos[w] >= pos[v]:
                return "a target is not strictly after a target it depends on"
    return None


class Walk:
    def __init__(self, seed, prop, model, rep):
        self.seed, self.prop, self.model, self.rep = seed, prop, model, rep
        self.rng = scen.Rng(seed)
        want_cycle = self.rng.chance(3, 4) if prop == "C09" else self.rng.chance(1, 4)
        self.ts = gen_config(self.rng, want_cycle)
        self.adj = deps_of(self.ts)
        self.cyclic = not is_acyclic(self.ts)
        self.paths = [t["path"] for t in self.ts]
        self.case = {"seed": seed, "mode": "cligroups", "targets": self.ts}
        self.steps = []
        self.stop = False

    def model_groups(self, visible):
        r = self.model.ask({"op": "groups", "targets": [{"path": t["path"], "uses": t.get("uses", []), "ignores": t.get("ignores", [])} for t in self.ts],
                            "visible": visible})
        return r["model"]

    def fail(self, prop, kind, extra):
        d = {"kind": kind, "case": dict(self.case, steps=self.steps)}
        d.update(extra)
        if prop == self.prop:
            self.rep.oracle_fail(d)
            self.stop = True
        else:
            self.rep.count("foreign_" + prop)

    def check(self, api, args, requested, roots, groups_of, repo, is_run=False, may_fail=False):
        """requested: node set the groups must partition (None: whatever the API reports as changed);
        roots: nodes whose reachable cycle forces rejection"""
        if self.stop:
            return
        repo.clear_traces()
        rc, j, out, err = repo.mono(*args, timeout=60)
        self.steps.append(" ".join(args))
        self.rep.evaluations += 1
        self.rep.count("api_" + api)
        if rc is None:
            scen.reap_helpers(repo)
            self.fail("C09" if cyclic_from(self.adj, roots) else "C03", "the invocation did not terminate", {"api": api})
            return
        must_reject = cyclic_from(self.adj, roots)
        started = repo.traces() if is_run else []
        if must_reject:
            self.rep.count("cyclic_queries")
            if self.prop == "C09":
                self.rep.nontrivial_case({"seed": self.seed, "step": len(self.steps)})
            if rc == 0:
                self.fail("C09", "cycle_accepted", {"api": api, "stdout": out.decode("utf-8", "replace")[-400:]})
            elif not is_cycle_error(rc, err):
                self.fail("C09", "a cyclic configuration was rejected with something other than the graph cycle error", {"api": api, "rc": rc, "stderr": err[-400:]})
            elif started:
                self.fail("C09", "run started an executable for a cyclic configuration", {"api": api, "started": [t["target"] for t in started]})
            m = self.model_groups(None if roots == list(range(len(self.ts))) else [self.paths[i] for i in roots])
            if "err" not in m:
                self.rep.disagree({"kind": "the model accepts a configuration the documented relation calls cyclic", "case": self.case})
            return
        if (rc != 0 and not (may_fail and rc == 1 and j is not None)) or j is None:
            if is_cycle_error(rc, err):
                self.fail("C03", "acyclic_rejected", {"api": api, "rc": rc, "stderr": err[-400:]})
            else:
                self.fail("C03", "a grouping API failed on an acyclic configuration", {"api": api, "rc": rc, "stderr": err[-400:]})
            return
        for groups in groups_of(j):
            req = requested
            if req is None:
                # the changed set is C01/C02's business: take it from the answer itself
                names = j.get("targets")
                if names is None:
                    names = sorted(x for g in groups for x in g)
                req = [self.paths.index(x) for x in names if x in self.paths]
            why = judge(self.ts, self.adj, req, groups)
            if why:
                self.fail("C03", why, {"api": api, "requested": [self.paths[i] for i in req], "groups": groups})
                return
            if self.prop == "C03" and len(groups) >= 2:
                self.rep.nontrivial_case({"seed": self.seed, "step": len(self.steps)})
            m = self.model_groups(None if roots == list(range(len(self.ts))) else [self.paths[i] for i in roots])
            if "ok" not in m:
                self.rep.disagree({"kind": "the model rejects a configuration the documented relation calls acyclic", "case": self.case, "model": m})
                return
            keep = set(self.paths[i] for i in req)
            want = [sorted(x for x in g if x in keep) for g in m["ok"]]
            want = [g for g in want if g]
            if [sorted(g) for g in groups] != want:
                self.rep.disagree({"kind": "model and implementation groups differ", "case": dict(self.case, steps=self.steps), "api": api,
                                   "implementation": groups, "model": want})
                return

    def queries(self, repo, changed):
        n = len(self.ts)
        allr = list(range(n))
        self.check("analyze", ["analyze", "--target-groups"], changed, allr, lambda j: [j.get("target_groups") or []], repo)
        self.check("target_show", ["target", "show", "--target-groups"], allr, allr, lambda j: [j.get("target_groups") or []], repo)
        if self.rng.chance(1, 2):
            self.check("run", ["run", "-c", "build"], changed, allr,
                       lambda j: [[sorted(g.keys()) for g in r["target_groups"]] for r in j["results"]], repo, is_run=True)
        nameable = [i for i in range(n) if " " not in self.paths[i]]   # -t splits its values on spaces
        if not nameable:
            return
        if self.rng.chance(1, 3):
            # two commands, the first one failing for one target: the groups reported for the command
            # that is skipped are still the layering of the requested targets
            victim = self.rng.pick(self.paths)
            repo.set_plan({"build|%s" % strip(victim): {"exit": 3}})
            self.check("run_two_commands", ["run", "-c", "build", "test"], changed, allr,
                       lambda j: [[sorted(g.keys()) for g in r["target_groups"]] for r in j["results"]], repo, is_run=True, may_fail=True)
            repo.set_plan({})
        k = self.rng.range(1, min(3, len(nameable)))
        roots = sorted(set(self.rng.pick(nameable) for _ in range(k)))
        clo = sorted(reach(self.adj, roots))
        self.check("run_deps", ["run", "-c", "build", "-t"] + [self.paths[i] for i in roots] + ["--deps"], clo, roots,
                   lambda j: [[sorted(g.keys()) for g in r["target_groups"]] for r in j["results"]], repo, is_run=True)

    def go(self):
        repo = scen.Repo(self.ts, git=True)
        try:
            for t in self.ts:
                # not every target defines the command: an undefined member (or a whole undefined
                # layer) is still part of the groups `run` reports
                if self.rng.chance(3, 4):
                    repo.install(strip(t["path"]), "build")
            repo.commit_all()
            n = len(self.ts)
            self.steps.append("(no checkpoint)")
            self.queries(repo, list(range(n)))
            if self.stop:
                return
            rc, j, out, err = repo.mono("checkpoint", "update")
            self.steps.append("checkpoint update")
            if rc != 0:
                self.rep.count("checkpoint_update_failed")
                return
            # a run stores results under out_dir, which is ignored: still nothing changed
            self.queries(repo, None)
            if self.stop:
                return
            k = self.rng.range(1, n)
            for i in sorted(set(self.rng.below(n) for _ in range(k))):
                p = os.path.join(repo.dir, strip(self.paths[i]), self.rng.pick(["file.txt", "new.txt"]))
                with open(p, "a") as f:
                    f.write("edit\n")
            self.steps.append("edit some targets")
            self.queries(repo, None)
            if self.stop:
                return
            rc, j, out, err = repo.mono("checkpoint", "update", "--pending")
            self.steps.append("checkpoint update --pending")
            if rc == 0:
                self.queries(repo, None)
            self.rep.sample({"targets": self.ts, "cyclic": self.cyclic, "steps": len(self.steps)})
        finally:
            repo.done()


def main():
    args = scen.parse_args(sys.argv)
    prop = args["prop"]
    t0 = time.time()
    inproc = os.path.join(scen.VERIF, "evidence", ".%s.inproc.%d.json" % (prop, os.getpid()))
    cmd = [os.path.join(scen.HARNESS, "mrverif"), prop.lower(), "--seed", str(args["seed"]), "--tier", args["tier"],
           "--model", scen.MODEL, "--corpus", args["corpus"], "--out", inproc, "--budget", str(args["budget"])]
    if args.get("current"):
        cmd += ["--current", args["current"]]
    try:
        p = subprocess.run(cmd, stdout=subprocess.PIPE, stderr=subprocess.STDOUT, text=True,
                           timeout=900 if args["tier"] == "quick" else 3 * 3600)
    except subprocess.TimeoutExpired:
        # the implementation did not come back on the case being evaluated: neither groups nor an error
        case = None
        try:
            case = json.load(open(args["current"]))
        except (OSError, ValueError, TypeError):
            pass
        rep = {"evaluations": 0, "distinct_nontrivial": 0, "samples": [case], "hist": {"hang": 1},
               "oracle_failures": [{"kind": "hang: grouping did not finish within the time limit", "case": case}],
               "disagreements": [], "exhaustive": [], "notes": ["timeout of the in-process enumeration"]}
        open(args["out"], "w").write(json.dumps(rep)) if args["out"] else print(json.dumps(rep))
        return
    if p.returncode != 0 or not os.path.exists(inproc):
        sys.stderr.write(p.stdout[-3000:])
        sys.exit(3)
    base = json.load(open(inproc))
    os.remove(inproc)
    rep = scen.Report()
    model = scen.Model()
    seeds = []
    for c in scen.load_corpus(args["corpus"], prop):
        cc = c.get("case", c)
        if isinstance(cc, dict) and cc.get("mode") == "cligroups" and "seed" in cc:
            seeds.append(cc["seed"])
    rng = scen.Rng(args["seed"] + 31)
    n = (200 if args["tier"] == "thorough" else 16) * args["budget"]
    seeds += [rng.next() for _ in range(n)]
    scen.run_cases(lambda s: Walk(s, prop, model, rep).go(), seeds, rep, 8)
    j = rep.to_json()
    merged = dict(base)
    merged["evaluations"] = base["evaluations"] + j["evaluations"]
    merged["distinct_nontrivial"] = base["distinct_nontrivial"] + j["distinct_nontrivial"]
    merged["hist"] = dict(base["hist"])
    for k, v in j["hist"].items():
        merged["hist"]["cli_" + k] = v
    merged["samples"] = base["samples"][:3] + j["samples"][:3]
    merged["oracle_failures"] = base["oracle_failures"] + j["oracle_failures"]
    merged["disagreements"] = base["disagreements"] + j["disagreements"]
    merged["notes"] = base.get("notes", []) + ["in-process cases: %d, CLI queries: %d in %d repository walks" % (base["evaluations"], j["evaluations"], len(seeds))]
    merged["wall_s"] = time.time() - t0
    model.close()
    scen.cleanup_scratch()
    s = json.dumps(merged, indent=1)
    if args["out"]:
        open(args["out"], "w").write(s)
    else:
        print(s)


if __name__ == "__main__":
    main()
