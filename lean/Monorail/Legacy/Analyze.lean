import Monorail.Model.Analyze
import Monorail.Spec.C01
/-!
# LEGACY: `analyze_change` before repairs D1 and D2

On the pinned tree the `uses` branch of `analyze_change` walked the enclosing targets of the using
target (`target2`) but inserted the using target itself (`target`) every time. The using target's
ancestors were therefore never reported through `uses`. The definitions below keep that behaviour;
the examples show, on a concrete configuration, that it differs from the repaired model and that the
C01 oracle (`c01CheckTargetsD`, proved equal to the specification in `Props/C01`) rejects it.
Nothing here is used by the model or the driver.
-/
namespace Monorail

/-- LEGACY `uses` branch: one copy of the using target per enclosing target -/
def viaUsesLegacy (cfg : Config) (p : Path) : List Path :=
  let ign := ignoreTargets cfg p
  ((allUses cfg).filter (fun m => hit m p && !ign.contains m)).flatMap (fun m =>
    ((use2targets cfg m).filter (fun t => !ign.contains t)).flatMap (fun t =>
      (searchTargets cfg t).map (fun _ => t)))

def analyzeChangeLegacy (cfg : Config) (p : Path) : List Path :=
  let ign := ignoreTargets cfg p
  (searchTargets cfg p ++ viaUsesLegacy cfg p).filter (fun t => !ign.contains t)

/-- the summary set of the legacy `analyze` (chunking does not matter for a set) -/
def analyzeTargetsLegacy (cfg : Config) (cs : List Path) : List Path :=
  sortDedupBy pathLt (cs.flatMap (analyzeChangeLegacy cfg))

/-- `top`, `top/in` (uses `sh`), `app` -/
def exCfgD2 : Config :=
  [ { path := [116,111,112], uses := [], ignores := [] },
    { path := [116,111,112,47,105,110], uses := [[115,104]], ignores := [] },
    { path := [97,112,112], uses := [], ignores := [] } ]

/-- change `sh/f`: the repaired model reports `top` and `top/in` … -/
example : (analyze exCfgD2 [[115,104,47,102]] 50).targets = [[116,111,112],[116,111,112,47,105,110]] := by decide
/-- … the legacy code only `top/in` … -/
example : analyzeTargetsLegacy exCfgD2 [[115,104,47,102]] = [[116,111,112,47,105,110]] := by decide
/-- … which the C01 oracle rejects, and the model's answer it accepts. -/
example : c01CheckTargetsD exCfgD2 [[115,104,47,102]] (analyzeTargetsLegacy exCfgD2 [[115,104,47,102]])
    = some "an affected target is missing" := by decide
example : c01CheckTargetsD exCfgD2 [[115,104,47,102]] (analyze exCfgD2 [[115,104,47,102]] 50).targets = none := by decide

/-- Where no using target is nested in another target the legacy branch is harmless: a direct hit
agrees. -/
example : analyzeTargetsLegacy exCfgD2 [[97,112,112,47,120]] = (analyze exCfgD2 [[97,112,112,47,120]] 50).targets := by decide

/-! ## D1: raw byte-prefix trie hits (before the component-boundary filter) -/

/-- LEGACY direct hits: every stored key that is a byte prefix of the change -/
def searchTargetsLegacy (cfg : Config) (q : Path) : List Path :=
  (cfg.map (·.path)).filter (fun k => hitLegacy k q)

/-- `app`, `app2` -/
def exCfgD1 : Config :=
  [ { path := [97,112,112], uses := [], ignores := [] },
    { path := [97,112,112,50], uses := [], ignores := [] } ]

/-- change `app2/f`: the legacy lookup also flags `app`, whose name is a byte prefix of `app2` … -/
example : searchTargetsLegacy exCfgD1 [97,112,112,50,47,102] = [[97,112,112],[97,112,112,50]] := by decide
/-- … the repaired lookup does not … -/
example : (analyze exCfgD1 [[97,112,112,50,47,102]] 50).targets = [[97,112,112,50]] := by decide
/-- … and the C01 oracle rejects the legacy answer. -/
example : c01CheckTargetsD exCfgD1 [[97,112,112,50,47,102]] (searchTargetsLegacy exCfgD1 [97,112,112,50,47,102])
    = some "a target is reported although no change affects it" := by decide

end Monorail
