import Monorail.Props.C02
import Monorail.Props.C01
/-!
# C07 — after `checkpoint update --pending` nothing is changed; later edits re-flag exactly
-/
namespace Monorail

theorem pendingLookup_map (r : GitRepo) : ∀ (l : List Path) (p : Path), p ∈ l →
    pendingLookup (l.map (fun q => (q, r.digest q))) p = some (r.digest p) := by
  intro l
  induction l with
  | nil => intro p h; cases h
  | cons a as ih =>
    intro p h
    simp only [List.map_cons, pendingLookup]
    by_cases hap : a = p
    · subst hap; simp
    · simp only [hap, if_false]
      rcases List.mem_cons.mp h with h | h
      · exact absurd h.symm hap
      · exact ih p h

theorem pendingChanges_eq (r : GitRepo) : r.pendingChanges = sortPaths (r.untracked ++ r.diffWork r.head) := by
  simp [GitRepo.pendingChanges, GitRepo.changes, GitRepo.pendingFilter, GitRepo.diffChanges]

/-- **C07 (fixpoint).** Whatever the state of the repository — committed, staged, unstaged,
untracked, deleted or moved files — and whatever checkpoint existed before: immediately after
`checkpoint update --pending` the change set is empty. -/
theorem c07_fixpoint (r : GitRepo) (old : Option Checkpoint) :
    r.changes (checkpointUpdate r old none true) none none = [] := by
  unfold GitRepo.changes
  apply sortPaths_eq_nil.mpr
  have hd : r.diffChanges (checkpointUpdate r old none true) none none = r.diffWork r.head := by
    simp [GitRepo.diffChanges, checkpointUpdate, newIdOf]
  rw [hd]
  by_cases hempty : r.pendingChanges.isEmpty
  · have hnil : r.untracked ++ r.diffWork r.head = [] := by
      have : r.pendingChanges = [] := by simpa using hempty
      rw [pendingChanges_eq] at this
      exact sortPaths_eq_nil.mp this
    rw [hnil]
    unfold GitRepo.pendingFilter
    split
    · split <;> simp
    · rfl
  · have hpend : (checkpointUpdate r old none true).pending =
        some (r.pendingChanges.map (fun p => (p, r.digest p))) := by
      simp [checkpointUpdate, hempty]
    unfold GitRepo.pendingFilter
    rw [hpend]
    have hne : (r.pendingChanges.map (fun p => (p, r.digest p))).isEmpty = false := by
      cases hL : r.pendingChanges with
      | nil => simp [hL] at hempty
      | cons a as => rfl
    simp only [hne, Bool.false_eq_true, if_false]
    apply List.filter_eq_nil_iff.mpr
    intro p hp
    have hpL : p ∈ r.pendingChanges := by rw [pendingChanges_eq]; exact mem_sortPaths.mpr hp
    simp [pendingLookup_map r _ p hpL]

/-- the update without `--id` records HEAD -/
theorem c07_records_head (r : GitRepo) (old : Option Checkpoint) (pending : Bool) :
    (checkpointUpdate r old none pending).id = some r.head := rfl

/-- **C07 (no targets, nothing to run).** With an empty change set `analyze` reports no target, for
every configuration and batch size — so `run` has nothing to execute. -/
theorem c07_no_targets (cfg : Config) (k : Nat) : (analyze cfg [] k).targets = [] := by
  simp [analyze, chunks, chunksAux, sortDedupBy]

/-- a path whose membership in what git prints is unaffected by an edit of another path -/
theorem write_other {r : GitRepo} (p q : Path) (b : Blob) (hq : q ≠ p) :
    (applyGit r (.write p b)).work q = r.work q ∧ (applyGit r (.write p b)).index q = r.index q ∧
    (applyGit r (.write p b)).tree (applyGit r (.write p b)).head q = r.tree r.head q := by
  simp [applyGit, treeSet, hq, GitRepo.tree, GitRepo.head]

/-- how `update --pending` forms the pending map -/
theorem update_pending_eq (r : GitRepo) (old : Option Checkpoint) :
    (checkpointUpdate r old none true).pending =
      if r.pendingChanges.isEmpty then (baseCk old).pending
      else some (r.pendingChanges.map (fun p => (p, r.digest p))) := by
  unfold checkpointUpdate
  by_cases h : r.pendingChanges.isEmpty <;> simp [h]

theorem pendingLookup_map_none (r : GitRepo) : ∀ (l : List Path) (q : Path), q ∉ l →
    pendingLookup (l.map (fun x => (x, r.digest x))) q = none := by
  intro l
  induction l with
  | nil => intro q _; rfl
  | cons a as ih =>
    intro q hq
    simp only [List.mem_cons, not_or] at hq
    have hne : ¬ a = q := fun e => hq.1 e.symm
    simp only [List.map_cons, pendingLookup, hne, if_false]
    exact ih q hq.2

/-- **C07 (re-flag exactly).** After `update --pending` at repository `r`, let a file `p` be created
or changed to content `b` it never had — different from what HEAD holds for `p`, from what is on
disk now, and from any digest a retained pending map records for `p` — `p` not being an ignored
untracked file. Then exactly `p` is reported: a path `q` is in the change set iff `q = p`. -/
theorem c07_reflag {r : GitRepo} (h : GitInv r) (old : Option Checkpoint) (p : Path) (b : Blob)
    (hhead : r.tree r.head p ≠ some b) (hdig : r.digest p ≠ some b)
    (hold : ∀ c m, old = some c → c.pending = some m → pendingLookup m p ≠ some (some b))
    (hign : (r.index p).isSome ∨ r.ignored p = false) (q : Path) :
    q ∈ (applyGit r (.write p b)).changes (checkpointUpdate r old none true) none none ↔ q = p := by
  have h' : GitInv (applyGit r (.write p b)) := applyGit_inv h _
  have hid := c07_records_head r old true
  have hfix := c07_fixpoint r old
  have hhead' : (applyGit r (.write p b)).head = r.head := by simp [applyGit, GitRepo.head]
  rw [c02_set h' _ r.head hid]
  constructor
  · rintro ⟨hin, hnp⟩
    by_cases hqp : q = p
    · exact hqp
    exfalso
    obtain ⟨w1, w2, w3⟩ := write_other (r := r) p q b hqp
    rw [hhead'] at w3
    have hwv : (applyGit r (.write p b)).workView q = r.workView q := by
      simp [GitRepo.workView, w1, w2]
    have hig : (applyGit r (.write p b)).ignored q = r.ignored q := by simp [applyGit]
    have hdq : (applyGit r (.write p b)).digest q = r.digest q := by simp [GitRepo.digest, w1]
    have : q ∈ r.changes (checkpointUpdate r old none true) none none := by
      rw [c02_set h _ r.head hid]
      refine ⟨?_, ?_⟩
      · rw [w1, w2, w3, hwv, hig] at hin; exact hin
      · intro ⟨m, hm, hne, hl⟩
        exact hnp ⟨m, hm, hne, by rw [hdq]; exact hl⟩
    rw [hfix] at this; cases this
  · rintro rfl
    have hw : (applyGit r (.write q b)).work q = some b := by simp [applyGit, treeSet]
    have hi : (applyGit r (.write q b)).index q = r.index q := by simp [applyGit]
    have ht : (applyGit r (.write q b)).tree r.head q = r.tree r.head q := by simp [applyGit, GitRepo.tree]
    have hig : (applyGit r (.write q b)).ignored q = r.ignored q := by simp [applyGit]
    refine ⟨?_, ?_⟩
    · by_cases hidx : (r.index q).isSome
      · left
        refine ⟨Or.inl (by rw [hi]; exact hidx), ?_⟩
        simp only [GitRepo.workView, hi, hidx, if_true, hw, ht]
        exact fun e => hhead e.symm
      · right
        have hidx' : (r.index q).isNone := by
          cases hq : r.index q with
          | none => rfl
          | some x => simp [hq] at hidx
        refine ⟨by rw [hw]; rfl, by rw [hi]; exact hidx', ?_⟩
        rw [hig]
        rcases hign with h1 | h1
        · exact absurd h1 hidx
        · exact h1
    · rintro ⟨m, hm, _, hl⟩
      have hd : (applyGit r (.write q b)).digest q = some b := by simp [GitRepo.digest, hw]
      rw [hd] at hl
      rw [update_pending_eq] at hm
      split at hm
      · -- nothing was pending at update time: the old map was retained
        cases hold' : old with
        | none => simp [hold', baseCk] at hm
        | some c =>
          simp only [hold', baseCk] at hm
          exact hold c m hold' hm hl
      · cases hm
        by_cases hqL : q ∈ r.pendingChanges
        · rw [pendingLookup_map r _ q hqL] at hl
          exact hdig (Option.some.inj hl)
        · rw [pendingLookup_map_none r _ q hqL] at hl; cases hl

/-- **C07 (exactly the targets affected by that path reappear).** Since the change set after the
edit has exactly the member `p`, the reported targets are those of analysing `[p]` alone. -/
theorem c07_targets {r : GitRepo} (h : GitInv r) (old : Option Checkpoint) (p : Path) (b : Blob)
    (hhead : r.tree r.head p ≠ some b) (hdig : r.digest p ≠ some b)
    (hold : ∀ c m, old = some c → c.pending = some m → pendingLookup m p ≠ some (some b))
    (hign : (r.index p).isSome ∨ r.ignored p = false) (cfg : Config) {k k' : Nat} (hk : 0 < k) (hk' : 0 < k') :
    (analyze cfg ((applyGit r (.write p b)).changes (checkpointUpdate r old none true) none none) k).targets
      = (analyze cfg [p] k').targets := by
  apply c01_batch_indep cfg _ _ hk hk'
  intro q
  rw [c07_reflag h old p b hhead hdig hold hign q]
  simp

/-- **C07 (updating again clears).** A further `update --pending` returns to the fixpoint — an
instance of `c07_fixpoint` at the edited repository. -/
theorem c07_clear (r : GitRepo) (old : Option Checkpoint) (p : Path) (b : Blob) :
    let r' := applyGit r (.write p b)
    r'.changes (checkpointUpdate r' (some (checkpointUpdate r old none true)) none true) none none = [] :=
  c07_fixpoint _ _

/-! ## Non-vacuity: a dirty repository (moved, untracked, deleted files), update, then an edit -/

-- exRepo: commit 1 holds a,b ; a moved to c, d created (untracked), x ignored
example : exRepo.changes (checkpointUpdate exRepo none none true) none none = [] := by decide
example : (applyGit exRepo (.write [98] 9)).changes (checkpointUpdate exRepo none none true) none none = [[98]] := by
  decide
example : (checkpointUpdate exRepo none none true).pending =
    some [([97], none), ([99], some 1), ([100], some 4)] := by decide

end Monorail
