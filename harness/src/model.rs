//! Client of the Lean driver (`mrmodel`): one JSON request per line, one JSON answer per line.
use serde_json::Value;
use std::io::{BufRead, BufReader, Write};
use std::process::{Child, ChildStdin, ChildStdout, Command, Stdio};

pub struct Model {
    child: Child,
    stdin: ChildStdin,
    stdout: BufReader<ChildStdout>,
    pub requests: u64,
}
impl Model {
    pub fn spawn(path: &str) -> Model {
        let mut child = Command::new(path)
            .stdin(Stdio::piped())
            .stdout(Stdio::piped())
            .spawn()
            .unwrap_or_else(|e| panic!("cannot start model driver {}: {}", path, e));
        let stdin = child.stdin.take().unwrap();
        let stdout = BufReader::new(child.stdout.take().unwrap());
        Model { child, stdin, stdout, requests: 0 }
    }
    pub fn ask(&mut self, req: &Value) -> Value {
        let mut line = serde_json::to_string(req).unwrap();
        line.push('\n');
        self.stdin.write_all(line.as_bytes()).expect("model driver died");
        self.stdin.flush().unwrap();
        let mut resp = String::new();
        self.stdout.read_line(&mut resp).expect("model driver died");
        self.requests += 1;
        let v: Value = serde_json::from_str(&resp)
            .unwrap_or_else(|e| panic!("bad model answer {:?}: {}", resp, e));
        if let Some(e) = v.get("error") {
            panic!("model driver error {} for request {}", e, line);
        }
        v
    }
}
impl Drop for Model {
    fn drop(&mut self) {
        let _ = self.child.kill();
        let _ = self.child.wait();
    }
}
