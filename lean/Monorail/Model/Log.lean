/-!
# Log capture: reader, flush, compressor routing, listener stream

`rstep` mirrors `process_reader` + `process_bufs` (repaired): bytes arrive in arbitrary chunks,
`read_until(b'\n')` completes a line whenever a newline is available, the flush tick sends the
completed lines to the compressor (and, when a listener is attached and alive, to the listener as
one block), end of stream sends what is left — including an unterminated last line — and `End`.
A listener write may fail at any point (`ok n = false` for the n-th write): the listener is then
dropped and nothing else changes.

Compressor: the i-th registered file goes to thread `i % T` as encoder `i / T`; each thread consumes
its channel in FIFO order. Import-free.
-/
namespace Monorail

abbrev Bytes := List Nat

def newline : Nat := 10

/-- split into the complete lines (each ending with a newline) and the unterminated remainder -/
def splitLines : Bytes → List Bytes × Bytes
  | [] => ([], [])
  | b :: bs =>
    let r := splitLines bs
    if b = newline then ([b] :: r.1, r.2)
    else match r.1 with
      | [] => ([], b :: r.2)
      | l :: ls => ((b :: l) :: ls, r.2)

inductive REv where
  | chunk (bs : Bytes)
  | tick
  | eof
  | cancel
deriving Repr, DecidableEq

inductive CReq where
  | data (lines : List Bytes)
  | endReq
deriving Repr, DecidableEq

structure RSt where
  buf : Bytes                    -- the line being read
  lines : List Bytes             -- completed lines not yet flushed
  out : List CReq                -- requests sent to the compressor, in order
  blocks : List (List Bytes)     -- blocks written to the listener, in order
  client : Bool                  -- a listener is attached and has not failed
  writes : Nat                   -- listener writes attempted so far
  done : Option Bool             -- some true = Ok(()), some false = Err (cancelled)
deriving Repr, DecidableEq

def RSt.init (client : Bool) : RSt :=
  { buf := [], lines := [], out := [], blocks := [], client := client, writes := 0, done := none }

/-- `process_bufs` -/
def flush (ok : Nat → Bool) (s : RSt) : RSt :=
  if s.lines.isEmpty then s
  else
    let s1 := { s with out := s.out ++ [.data s.lines], lines := [] }
    if s.client then
      if ok s.writes then { s1 with blocks := s.blocks ++ [s.lines], writes := s.writes + 1 }
      else { s1 with client := false, writes := s.writes + 1 }
    else s1

def finish (ok : Nat → Bool) (s : RSt) (result : Bool) : RSt :=
  let s1 := if s.buf.isEmpty then s else { s with lines := s.lines ++ [s.buf], buf := [] }
  let s2 := flush ok s1
  { s2 with out := s2.out ++ [.endReq], done := some result }

def rstep (ok : Nat → Bool) (s : RSt) : REv → RSt
  | ev =>
    if s.done.isSome then s
    else match ev with
      | .chunk bs =>
        let r := splitLines (s.buf ++ bs)
        { s with lines := s.lines ++ r.1, buf := r.2 }
      | .tick => flush ok s
      | .eof => finish ok s true
      | .cancel => finish ok s false

def rrun (ok : Nat → Bool) (client : Bool) (evs : List REv) : RSt :=
  evs.foldl (rstep ok) (RSt.init client)

/-- the bytes a request sequence makes the compressor write -/
def dataBytes : List CReq → Bytes
  | [] => []
  | .data ls :: rest => ls.flatten ++ dataBytes rest
  | .endReq :: rest => dataBytes rest

/-- the bytes of the chunks of an event list -/
def chunkBytes : List REv → Bytes
  | [] => []
  | .chunk bs :: rest => bs ++ chunkBytes rest
  | _ :: rest => chunkBytes rest

/-- LEGACY (pinned tree): the line buffer lived for one `select!` iteration only, so a tick that
fired while a line was partly read dropped the part already read -/
def rstepLegacy (ok : Nat → Bool) (s : RSt) : REv → RSt
  | .tick => flush ok { s with buf := [] }
  | ev => rstep ok s ev

/-! ## compressor routing -/

/-- `Compressor::register` for the i-th registration with `T` threads: (thread, encoder index) -/
def route (T i : Nat) : Nat × Nat := (i % T, i / T)

/-- what thread-local encoder `e` has written after the thread consumed `reqs` in order -/
def fileOf (reqs : List (Nat × CReq)) (e : Nat) : Bytes :=
  dataBytes ((reqs.filter (fun r => r.1 = e)).map (·.2))

/-- what arrives on a compressor thread's channel: a client's request for one of its encoders, or
a client's `Shutdown` -/
inductive TMsg where
  | req (e : Nat) (r : CReq)
  | shutdown
deriving Repr, DecidableEq

/-- the thread consumes its channel in order and leaves its loop at the first `Shutdown`; whatever
is still queued behind it is never written -/
def consumed : List TMsg → List (Nat × CReq)
  | [] => []
  | .shutdown :: _ => []
  | .req e r :: rest => (e, r) :: consumed rest

/-- content of the file of encoder `e` once the thread has exited -/
def threadFile (msgs : List TMsg) (e : Nat) : Bytes := fileOf (consumed msgs) e

/-! ## `log show` and the listener -/

/-- `log show`: header then content for every selected non-empty log -/
def showLogs (logs : List (Bytes × Bytes)) : Bytes :=
  logs.flatMap (fun hl => if hl.2.isEmpty then [] else hl.1 ++ hl.2)

/-- what the listener connection carries: blocks `(key, lines)` in mutex-acquisition order, each
written as header(key) ++ lines -/
def connBytes (header : Nat → Bytes) (conn : List (Nat × List Bytes)) : Bytes :=
  conn.flatMap (fun b => header b.1 ++ b.2.flatten)

/-- the listener's view of key `k`: the bodies of the blocks carrying its header, concatenated -/
def project (conn : List (Nat × List Bytes)) (k : Nat) : Bytes :=
  ((conn.filter (fun b => b.1 = k)).map (fun b => b.2.flatten)).flatten

/-- `is_log_allowed` with the stream selection -/
def logAllowed (targets commands : List String) (inclOut inclErr : Bool) (target command : String)
    (isStdout : Bool) : Bool :=
  (targets.isEmpty || targets.contains target) && (commands.isEmpty || commands.contains command) &&
    (if isStdout then inclOut else inclErr)

end Monorail
