import Monorail.Model.Path
import Monorail.Model.Index
import Monorail.Proofs.Path
import Monorail.Proofs.Index
