import Monorail.Model.Exec
/-! Ordering facts about event traces that grow by completions and by blocks of spawns. -/
namespace Monorail

/-- every spawn before a spawn of a *different* group has completed before it -/
def Barrier (tr : List Ev) : Prop :=
  ∀ pre g a post, tr = pre ++ Ev.spawn g a :: post →
    ∀ g' b, Ev.spawn g' b ∈ pre → g' ≠ g → ∃ oc, Ev.done b oc ∈ pre

/-- between two spawns of the same group there are only spawns of that group -/
def Contig (tr : List Ev) : Prop :=
  ∀ pre g a mid b post, tr = pre ++ Ev.spawn g a :: (mid ++ Ev.spawn g b :: post) →
    ∀ e ∈ mid, ∃ c, e = Ev.spawn g c

/-- every spawn in the trace has completed -/
def Complete (tr : List Ev) : Prop := ∀ g b, Ev.spawn g b ∈ tr → ∃ oc, Ev.done b oc ∈ tr

/-- groups are entered in plan order -/
def Ordered (tr : List Ev) : Prop :=
  ∀ pre g a post, tr = pre ++ Ev.spawn g a :: post → ∀ g' b, Ev.spawn g' b ∈ pre → g' ≤ g

theorem split_append {α : Type} {tr B pre post : List α} {x : α} (h : tr ++ B = pre ++ x :: post) :
    (∃ post', tr = pre ++ x :: post' ∧ post = post' ++ B) ∨
    (∃ pre', pre = tr ++ pre' ∧ B = pre' ++ x :: post) := by
  rcases List.append_eq_append_iff.mp h with ⟨a', hc, hb⟩ | ⟨c', ha, hd⟩
  · exact Or.inr ⟨a', hc, hb⟩
  · cases c' with
    | nil =>
      simp only [List.append_nil, List.nil_append] at ha hd
      exact Or.inr ⟨[], by simp [ha], by simp [hd]⟩
    | cons y ys =>
      simp only [List.cons_append, List.cons.injEq] at hd
      obtain ⟨rfl, hpost⟩ := hd
      exact Or.inl ⟨ys, ha, hpost⟩

theorem barrier_nil : Barrier [] := by
  intro pre g a post h
  exact absurd h (by simp)

theorem contig_nil : Contig [] := by
  intro pre g a mid b post h
  exact absurd h (by simp)

theorem barrier_append_done {tr : List Ev} (h : Barrier tr) (i : Nat) (oc : Outcome) :
    Barrier (tr ++ [Ev.done i oc]) := by
  intro pre g a post heq g' b hb hne
  rcases split_append heq with ⟨post', htr, _⟩ | ⟨pre', _, hB⟩
  · exact h pre g a post' htr g' b hb hne
  · cases pre' with
    | nil => simp at hB
    | cons y ys => simp at hB

theorem contig_append_done {tr : List Ev} (h : Contig tr) (i : Nat) (oc : Outcome) :
    Contig (tr ++ [Ev.done i oc]) := by
  intro pre g a mid b post heq e he
  rcases split_append heq with ⟨post', htr, hpost⟩ | ⟨pre', _, hB⟩
  · -- the first spawn lies in tr; so does the second, because the only new event is a completion
    have h2 : post' ++ [Ev.done i oc] = mid ++ Ev.spawn g b :: post := hpost.symm
    rcases split_append h2 with ⟨post'', hp, _⟩ | ⟨pre'', _, hB⟩
    · exact h pre g a mid b post'' (by rw [htr, hp]) e he
    · cases pre'' with
      | nil => simp at hB
      | cons y ys => simp at hB
  · cases pre' with
    | nil => simp at hB
    | cons y ys => simp at hB

theorem ordered_nil : Ordered [] := by
  intro pre g a post h
  exact absurd h (by simp)

theorem ordered_append_done {tr : List Ev} (h : Ordered tr) (i : Nat) (oc : Outcome) :
    Ordered (tr ++ [Ev.done i oc]) := by
  intro pre g a post heq g' b hb
  rcases split_append heq with ⟨post', htr, _⟩ | ⟨pre', _, hB⟩
  · exact h pre g a post' htr g' b hb
  · cases pre' with
    | nil => simp at hB
    | cons y ys => simp at hB

theorem mem_spawnBlock {gnew : Nat} {ids : List Nat} {e : Ev} (h : e ∈ ids.map (Ev.spawn gnew)) :
    ∃ c, e = Ev.spawn gnew c := by
  obtain ⟨c, _, rfl⟩ := List.mem_map.mp h
  exact ⟨c, rfl⟩

theorem barrier_append_spawns {tr : List Ev} (h : Barrier tr) (hc : Complete tr) (gnew : Nat)
    (hfresh : ∀ g' b, Ev.spawn g' b ∈ tr → g' ≠ gnew) (ids : List Nat) :
    Barrier (tr ++ ids.map (Ev.spawn gnew)) := by
  intro pre g a post heq g' b hb hne
  rcases split_append heq with ⟨post', htr, _⟩ | ⟨pre', hpre, hB⟩
  · exact h pre g a post' htr g' b hb hne
  · have hg : g = gnew := by
      have : Ev.spawn g a ∈ ids.map (Ev.spawn gnew) := by rw [hB]; simp
      obtain ⟨c, hc'⟩ := mem_spawnBlock this
      cases hc'; rfl
    subst hg
    rw [hpre] at hb ⊢
    rcases List.mem_append.mp hb with hb | hb
    · obtain ⟨oc, hoc⟩ := hc g' b hb
      exact ⟨oc, List.mem_append_left _ hoc⟩
    · have : Ev.spawn g' b ∈ ids.map (Ev.spawn g) := by rw [hB]; exact List.mem_append_left _ hb
      obtain ⟨c, hc'⟩ := mem_spawnBlock this
      cases hc'
      exact absurd rfl hne

theorem contig_append_spawns {tr : List Ev} (h : Contig tr) (gnew : Nat)
    (hfresh : ∀ g' b, Ev.spawn g' b ∈ tr → g' ≠ gnew) (ids : List Nat) :
    Contig (tr ++ ids.map (Ev.spawn gnew)) := by
  intro pre g a mid b post heq e he
  rcases split_append heq with ⟨post', htr, hpost⟩ | ⟨pre', _, hB⟩
  · -- first spawn in tr
    have h2 : post' ++ ids.map (Ev.spawn gnew) = mid ++ Ev.spawn g b :: post := hpost.symm
    rcases split_append h2 with ⟨post'', hp, _⟩ | ⟨pre'', _, hB⟩
    · exact h pre g a mid b post'' (by rw [htr, hp]) e he
    · -- second spawn in the new block: then g = gnew, but a spawn of g is already in tr
      have : Ev.spawn g b ∈ ids.map (Ev.spawn gnew) := by rw [hB]; simp
      obtain ⟨c, hc'⟩ := mem_spawnBlock this
      cases hc'
      exact absurd rfl (hfresh gnew a (by rw [htr]; simp))
  · -- both spawns in the new block: everything between them is in the block
    have hsub : e ∈ ids.map (Ev.spawn gnew) := by
      rw [hB]; simp only [List.mem_append, List.mem_cons]
      exact Or.inr (Or.inr (Or.inl he))
    have hg : Ev.spawn g a ∈ ids.map (Ev.spawn gnew) := by rw [hB]; simp
    obtain ⟨c, hc'⟩ := mem_spawnBlock hg
    cases hc'
    exact mem_spawnBlock hsub

theorem ordered_append_spawns {tr : List Ev} (h : Ordered tr) (gnew : Nat)
    (hle : ∀ g' b, Ev.spawn g' b ∈ tr → g' ≤ gnew) (ids : List Nat) :
    Ordered (tr ++ ids.map (Ev.spawn gnew)) := by
  intro pre g a post heq g' b hb
  rcases split_append heq with ⟨post', htr, _⟩ | ⟨pre', hpre, hB⟩
  · exact h pre g a post' htr g' b hb
  · have hg : g = gnew := by
      have : Ev.spawn g a ∈ ids.map (Ev.spawn gnew) := by rw [hB]; simp
      obtain ⟨c, hc'⟩ := mem_spawnBlock this
      cases hc'; rfl
    subst hg
    rw [hpre] at hb
    rcases List.mem_append.mp hb with hb | hb
    · exact hle g' b hb
    · have : Ev.spawn g' b ∈ ids.map (Ev.spawn g) := by rw [hB]; exact List.mem_append_left _ hb
      obtain ⟨c, hc'⟩ := mem_spawnBlock this
      cases hc'
      exact Nat.le_refl _

end Monorail
