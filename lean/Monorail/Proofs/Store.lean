import Monorail.Model.Store
/-! Lemmas about the run-slot store. -/
namespace Monorail

theorem succ_mod' (m k : Nat) (hk : 0 < k) :
    (m + 1) % k = if m % k + 1 = k then 0 else m % k + 1 := by
  have hlt : m % k < k := Nat.mod_lt m hk
  rw [Nat.add_mod]
  by_cases h1 : k = 1
  · subst h1; simp [Nat.mod_one]
  · have hk1 : 1 % k = 1 := Nat.mod_eq_of_lt (by omega)
    rw [hk1]
    split
    · rename_i h; rw [h]; exact Nat.mod_self k
    · rename_i h; exact Nat.mod_eq_of_lt (by omega)

/-- the slot the `n+1`-th run uses -/
theorem nextId_after (max : Nat) (hmax : 0 < max) (n : Nat) :
    nextId (if n = 0 then none else some ((n - 1) % max + 1)) max = n % max + 1 := by
  unfold nextId
  by_cases hn : n = 0
  · subst hn
    simp
  · simp only [hn, if_false, Option.getD_some]
    obtain ⟨m, rfl⟩ : ∃ m, n = m + 1 := ⟨n - 1, by omega⟩
    simp only [Nat.add_sub_cancel]
    rw [succ_mod' m max hmax]
    have hlt : m % max < max := Nat.mod_lt m hmax
    split
    · rename_i h
      have : m % max + 1 = max := by omega
      simp [this]
    · rename_i h
      have : ¬ m % max + 1 = max := by omega
      simp [this]

theorem mod_ne_of_close {j n max : Nat} (hjn : j < n) (hclose : n < j + max) : j % max ≠ n % max := by
  intro h
  have h0 : (n - j) % max = 0 := Nat.sub_mod_eq_zero_of_mod_eq h.symm
  have hlt : n - j < max := by omega
  rw [Nat.mod_eq_of_lt hlt] at h0
  omega

/-- effects that touch only slot `n` and the temporary pointer file -/
def LocalTo (n : Nat) : Eff → Prop
  | .wipe i => i = n
  | .mkSlot i => i = n
  | .writeLog i _ _ => i = n
  | .writeResult i _ => i = n
  | .ptrTmp _ => True
  | .ptrRename => False

theorem setSlot_ne {slots : Nat → Option Slot} {i j : Nat} {v : Option Slot} (h : j ≠ i) :
    setSlot slots i v j = slots j := by simp [setSlot, h]

theorem setSlot_eq {slots : Nat → Option Slot} {i : Nat} {v : Option Slot} :
    setSlot slots i v i = v := by simp [setSlot]

theorem applyEff_local {n : Nat} {e : Eff} (he : LocalTo n e) (s : Store) :
    (applyEff s e).pointer = s.pointer ∧ ∀ j, j ≠ n → (applyEff s e).slots j = s.slots j := by
  cases e with
  | wipe i => simp only [LocalTo] at he; subst he; exact ⟨rfl, fun j hj => setSlot_ne hj⟩
  | mkSlot i => simp only [LocalTo] at he; subst he; exact ⟨rfl, fun j hj => setSlot_ne hj⟩
  | writeLog i k c =>
    simp only [LocalTo] at he; subst he
    simp only [applyEff]
    cases s.slots i with
    | none => exact ⟨rfl, fun _ _ => rfl⟩
    | some sl => exact ⟨rfl, fun j hj => setSlot_ne hj⟩
  | writeResult i c =>
    simp only [LocalTo] at he; subst he
    simp only [applyEff]
    cases s.slots i with
    | none => exact ⟨rfl, fun _ _ => rfl⟩
    | some sl => exact ⟨rfl, fun j hj => setSlot_ne hj⟩
  | ptrTmp v => exact ⟨rfl, fun _ _ => rfl⟩
  | ptrRename => cases he

theorem applyAll_local {n : Nat} : ∀ (effs : List Eff), (∀ e ∈ effs, LocalTo n e) → ∀ (s : Store),
    (applyAll s effs).pointer = s.pointer ∧ ∀ j, j ≠ n → (applyAll s effs).slots j = s.slots j := by
  intro effs
  induction effs with
  | nil => intro _ s; exact ⟨rfl, fun _ _ => rfl⟩
  | cons e rest ih =>
    intro h s
    simp only [applyAll, List.foldl_cons]
    obtain ⟨h1, h2⟩ := applyEff_local (h e List.mem_cons_self) s
    obtain ⟨h3, h4⟩ := ih (fun x hx => h x (List.mem_cons_of_mem _ hx)) (applyEff s e)
    exact ⟨h3.trans h1, fun j hj => (h4 j hj).trans (h2 j hj)⟩

/-- the body of a run (everything before the final rename) is local to the next slot -/
def runBody (n : Nat) (r : Run) : List Eff :=
  [.wipe n, .mkSlot n] ++ r.logs.map (fun kc => .writeLog n kc.1 (.full kc.2)) ++
    [.writeResult n (.full r.doc), .ptrTmp n]

theorem runEffects_eq (max : Nat) (s : Store) (r : Run) :
    runEffects max s r = runBody (nextId s.pointer max) r ++ [.ptrRename] := by
  simp [runEffects, runBody]

theorem runBody_local (n : Nat) (r : Run) : ∀ e ∈ runBody n r, LocalTo n e := by
  intro e he
  simp only [runBody, List.mem_append, List.mem_cons, List.mem_map, List.not_mem_nil, or_false] at he
  rcases he with ((rfl | rfl) | ⟨kc, _, rfl⟩) | rfl | rfl <;> simp [LocalTo]

theorem writeLogs_slot (n : Nat) : ∀ (logs : List (Nat × Nat)) (s : Store) (sl : Slot),
    s.slots n = some sl →
    (applyAll s (logs.map (fun kc => Eff.writeLog n kc.1 (.full kc.2)))).slots n =
      some { sl with logs := logs.foldl (fun l kc => setLog l kc.1 (.full kc.2)) sl.logs } ∧
    (applyAll s (logs.map (fun kc => Eff.writeLog n kc.1 (.full kc.2)))).tmp = s.tmp := by
  intro logs
  induction logs with
  | nil => intro s sl h; simp [applyAll, h]
  | cons kc rest ih =>
    intro s sl h
    simp only [List.map_cons, applyAll, List.foldl_cons]
    have h1 : (applyEff s (Eff.writeLog n kc.1 (.full kc.2))).slots n =
        some { sl with logs := setLog sl.logs kc.1 (.full kc.2) } := by
      simp [applyEff, h, setSlot]
    have h2 : (applyEff s (Eff.writeLog n kc.1 (.full kc.2))).tmp = s.tmp := by
      simp only [applyEff, h]
    obtain ⟨i1, i2⟩ := ih _ _ h1
    exact ⟨by simpa [applyAll] using i1, by simpa [applyAll, h2] using i2⟩

theorem tail_spec (s2 : Store) (n doc : Nat) (sl : Slot) (h : s2.slots n = some sl) :
    (applyEff (applyEff (applyEff s2 (.writeResult n (.full doc))) (.ptrTmp n)) .ptrRename).pointer = some n ∧
    (applyEff (applyEff (applyEff s2 (.writeResult n (.full doc))) (.ptrTmp n)) .ptrRename).tmp = none ∧
    (applyEff (applyEff (applyEff s2 (.writeResult n (.full doc))) (.ptrTmp n)) .ptrRename).slots n =
      some { sl with result := some (.full doc) } := by
  simp [applyEff, h, setSlot]

/-- what a complete run does to the store -/
theorem doRun_spec (max : Nat) (s : Store) (r : Run) :
    (doRun max s r).pointer = some (nextId s.pointer max) ∧
    (doRun max s r).tmp = none ∧
    (doRun max s r).slots (nextId s.pointer max) = some (slotOfRun r) ∧
    ∀ j, j ≠ nextId s.pointer max → (doRun max s r).slots j = s.slots j := by
  generalize hn : nextId s.pointer max = n
  have hother : ∀ j, j ≠ n → (doRun max s r).slots j = s.slots j := by
    intro j hj
    unfold doRun
    rw [runEffects_eq, hn]
    simp only [applyAll, List.foldl_append, List.foldl_cons, List.foldl_nil]
    have := (applyAll_local (runBody n r) (runBody_local n r) s).2 j hj
    simp only [applyAll] at this
    simpa [applyEff] using this
  -- compute the effect on slot n and the pointer
  unfold doRun runEffects
  rw [hn]
  simp only [applyAll, List.foldl_append, List.foldl_cons, List.foldl_nil]
  have hs1n : (applyEff (applyEff s (.wipe n)) (.mkSlot n)).slots n = some { result := none, logs := [] } := by
    simp [applyEff, setSlot]
  obtain ⟨hl1, hl2⟩ := writeLogs_slot n r.logs _ _ hs1n
  simp only [applyAll] at hl1 hl2
  generalize hs2 : List.foldl applyEff (applyEff (applyEff s (Eff.wipe n)) (Eff.mkSlot n))
    (List.map (fun kc => Eff.writeLog n kc.1 (Content.full kc.2)) r.logs) = s2 at hl1 hl2 ⊢
  obtain ⟨t1, t2, t3⟩ := tail_spec s2 n r.doc _ hl1
  refine ⟨t1, t2, ?_, ?_⟩
  · rw [t3]; simp [slotOfRun]
  · intro j hj
    have := hother j hj
    unfold doRun runEffects at this
    rw [hn] at this
    simp only [applyAll, List.foldl_append, List.foldl_cons, List.foldl_nil] at this
    rw [hs2] at this
    exact this

end Monorail
