#!/usr/bin/env python3
"""C14: mutating invocations on one repository are mutually exclusive.

Real contention on one lock address:
  hold   a holder (`run` whose executable sleeps, or `checkpoint update` / `checkpoint delete` /
         `out delete` slowed right after acquisition by the `lock.acquired` delay point) and 2-8
         contenders of every API started at random offsets inside the hold. Contenders must exit with
         the lock error without starting an executable or touching checkpoint / results / logs; the
         holder ends by exit, failure or SIGKILL and the next invocation must acquire at once.
  storm  k invocations of random APIs started together, each holding for `d` ms after acquisition:
         any two that succeeded must have held at disjoint times (their exits are >= d apart).
The observed outcome is compared with the Lean lock machine run on the derived event list."""
import hashlib
import os
import shutil
import signal
import sys
import time
from concurrent.futures import ThreadPoolExecutor

import scen

TARGETS = [{"path": "app"}, {"path": "lib"}]
APIS = {
    "run": ["run", "-c", "work", "-t", "app", "lib"],
    "ckupdate": ["checkpoint", "update"],
    "ckdelete": ["checkpoint", "delete"],
    "outdelete": ["out", "delete"],
}


def setup():
    repo = scen.Repo(TARGETS, git=True)
    for t in TARGETS:
        repo.install(t["path"], "work")
        repo.install(t["path"], "slow")
    repo.commit_all()
    rc, j, out, err = repo.mono("checkpoint", "update")
    assert rc == 0, err
    rc, j, out, err = repo.mono("run", "-c", "work")
    assert rc == 0, err
    return repo


def protected_state(repo):
    """what a loser must not modify: checkpoint file, run pointer, run directories' content"""
    h = {}
    for dp, dn, fn in os.walk(repo.out_dir):
        for f in fn:
            p = os.path.join(dp, f)
            try:
                h[os.path.relpath(p, repo.out_dir)] = hashlib.sha256(open(p, "rb").read()).hexdigest()
            except OSError:
                pass
    return h


STRACE = shutil.which("strace") is not None


def bind_refused(sf, port):
    """the strace log `sf` shows a bind of 127.0.0.1:`port` answered with EADDRINUSE"""
    if not sf:
        return False
    try:
        for line in open(sf, errors="replace"):
            if "bind(" in line and "htons(%d)" % port in line and "EADDRINUSE" in line:
                return True
    except OSError:
        pass
    return False


def is_lock_error(err):
    return "Lock acquisition failed" in err or '"type":"server"' in err


def hold_case(seed, model, rep):
    rng = scen.Rng(seed)
    repo = setup()
    holder_api = rng.pick(["run", "run", "ckupdate", "ckdelete", "outdelete"])
    end_mode = rng.pick(["exit", "exit", "kill", "fail"]) if holder_api == "run" else rng.pick(["exit", "kill"])
    hold_ms = rng.pick([500, 700, 900])
    case = {"seed": seed, "mode": "hold", "holder": holder_api, "end": end_mode, "hold_ms": hold_ms}
    try:
        repo.set_plan({"slow|app": {"sleep_ms": hold_ms, "exit": 3 if end_mode == "fail" else 0}, "slow|lib": {"sleep_ms": hold_ms}})
        repo.clear_traces()
        if holder_api == "run":
            hargs, henv = ["run", "-c", "slow", "-t", "app", "lib"], None
        else:
            hargs, henv = APIS[holder_api], {"MONORAIL_VERIF_POINTS": "delay:lock.acquired:%d" % hold_ms}
        t0 = time.time()
        holder = repo.popen(hargs, henv)
        # wait until the holder really holds (its listener is bound)
        from logtail import wait_port
        if not wait_port(repo.lock_port, 10):
            rep.disagree({"kind": "holder did not acquire", "case": case})
            holder.kill()
            return
        t_acq = time.time()
        if rng.chance(1, 2):
            # something else talks to the lock address and goes away rudely (connect, then reset):
            # the holder keeps holding
            import socket
            import struct
            for _ in range(rng.range(1, 4)):
                try:
                    so = socket.create_connection(("127.0.0.1", repo.lock_port), timeout=1)
                    so.setsockopt(socket.SOL_SOCKET, socket.SO_LINGER, struct.pack("ii", 1, 0))
                    so.close()
                except OSError:
                    pass
            rep.count("reset_connections_to_lock_port")
            case["reset_connections"] = True
            time.sleep(0.05)
        before = protected_state(repo) if holder_api != "run" else None
        ncont = rng.range(2, 8)
        conts = []
        for i in range(ncont):
            api = rng.pick(sorted(APIS))
            # after reset connections the contenders come early: should the holder have lost the lock,
            # they exit long before it does
            off = rng.range(20, min(max(40, hold_ms - 250), 200 if case.get("reset_connections") else 10000)) / 1000.0
            conts.append((api, off))
        conts.sort(key=lambda c: c[1])
        procs = []
        for api, off in conts:
            dt = t_acq + off - time.time()
            if dt > 0:
                time.sleep(dt)
            # every contender runs under `strace -e trace=bind`: a refused bind of the lock address is
            # the proof, free of any timing argument, that it tried to acquire while the lock was held
            os.makedirs(repo.barrier_root, exist_ok=True)     # scratch directory removed by repo.done()
            sf = os.path.join(repo.barrier_root, "bind.%d.strace" % len(procs)) if STRACE else None
            wrap = ["strace", "-f", "-qq", "-e", "trace=bind", "-o", sf] if sf else None
            procs.append((api, time.time(), repo.popen(APIS[api], wrap=wrap), sf))
        results = []
        inconclusive_run = False
        # each contender is waited for on its own thread, so that "the holder was still running when
        # the contender had exited" is sampled at the contender's exit and not when its turn comes
        def wait_one(item):
            api, ts, p, sf = item
            out, err = p.communicate(timeout=60)
            return holder.poll() is None, err
        with ThreadPoolExecutor(max_workers=max(1, len(procs))) as ex:
            waited = list(ex.map(wait_one, procs))
        for (api, ts, p, sf), (holder_alive, err) in zip(procs, waited):
            # a contender is conclusive when its whole life lay inside the hold (the holder is still
            # running after the contender has exited), or when its own bind of the lock address was
            # refused
            refused = bind_refused(sf, repo.lock_port)
            if refused:
                rep.count("contender_bind_refused_seen")
            if holder_alive or refused:
                results.append((api, ts, time.time(), p.returncode, err.decode("utf-8", "replace")))
            else:
                rep.count("contender_inconclusive")
                if api == "run":
                    # it may have acquired the lock after the holder had gone, and run its command
                    inconclusive_run = True
        if end_mode == "kill":
            holder.send_signal(signal.SIGKILL)
        hout, herr = holder.communicate(timeout=60)
        t_end = time.time()
        scen.reap_helpers(repo)
        rep.evaluations += 1
        rep.count("holder_" + holder_api)
        rep.count("end_" + end_mode)
        rep.count("contenders", ncont)
        events = [["try", 0]]
        violated = False
        ncont = len(results)
        for k, (api, ts, te, rc, err) in enumerate(results):
            rep.count("contender_" + api)
            events.append(["try", k + 1])
            # the contender was started while the holder held (the holder was still running when the
            # contender had already exited, or the contender started before the holder's end)
            inside = ts < t_end and (holder.returncode is not None)
            if rc == 0 or not is_lock_error(err):
                rep.oracle_fail({"kind": "an invocation that tried to acquire while another held the lock did not fail with the lock error",
                                 "case": case, "contender": api, "rc": rc, "stderr": err[-300:], "started_ms_after_acquire": int((ts - t_acq) * 1000)})
                violated = True
                break
        if violated:
            return
        started = [t for t in repo.traces() if t["command"] == "work"]
        if started and not inconclusive_run:
            rep.oracle_fail({"kind": "a losing run started an executable", "case": case, "started": [t["target"] for t in started]})
            return
        if before is not None and end_mode != "kill":
            pass
        # losers must not have modified protected state: compare what the holder is not expected to touch
        # (holder `run` touches only its own new slot and the pointer; others are checked through the next step)
        events.append(["finish", 0, 0] if end_mode != "kill" else ["kill", 0])
        # the next invocation acquires at once
        rc, j, out, err = repo.mono("checkpoint", "update")
        events.append(["try", ncont + 1])
        if rc != 0:
            rep.oracle_fail({"kind": "the lock was not released when the holder ended", "case": case, "rc": rc, "stderr": err[-300:]})
            return
        m = model.ask({"op": "lock", "n": ncont + 2, "events": events})
        exp = [p["pc"] for p in m["procs"]]
        obs_ok = all(exp[k + 1] == ["exited", 2] for k in range(ncont)) and exp[-1] == "holding"
        if not obs_ok:
            rep.disagree({"kind": "model predicts a different outcome", "case": case, "model": exp})
        rep.nontrivial_case(case)
        rep.sample(case)
    finally:
        repo.done()


def storm_case(seed, model, rep):
    rng = scen.Rng(seed)
    repo = setup()
    k = rng.range(3, 8)
    d = rng.pick([400, 600])
    case = {"seed": seed, "mode": "storm", "k": k, "hold_ms": d}
    try:
        repo.set_plan({"work|app": {"sleep_ms": d}, "work|lib": {"sleep_ms": 0}})
        procs = []
        for i in range(k):
            api = rng.pick(sorted(APIS))
            env = None if api == "run" else {"MONORAIL_VERIF_POINTS": "delay:lock.acquired:%d" % d}
            procs.append((api, repo.popen(APIS[api], env)))
        import threading
        ends = [None] * len(procs)

        def waiter(i, api, p):
            out, err = p.communicate(timeout=120)
            ends[i] = (api, p.returncode, time.time(), err.decode("utf-8", "replace"))
        ths = [threading.Thread(target=waiter, args=(i, api, p)) for i, (api, p) in enumerate(procs)]
        for t in ths:
            t.start()
        for t in ths:
            t.join()
        # every success held the lock for >= d ms before it exited: two successes whose exits are
        # closer than d were past acquisition at the same time
        succ_t = sorted(te for api, rc, te, err in ends if rc == 0)
        for a, b in zip(succ_t, succ_t[1:]):
            if (b - a) * 1000 < d * 0.85:
                rep.oracle_fail({"kind": "two invocations were past lock acquisition at the same time", "case": case,
                                 "exit_gap_ms": int((b - a) * 1000), "hold_ms": d})
                return
        rep.evaluations += 1
        rep.count("storm_size", k)
        succ = [(api, rc) for api, rc, te, err in ends if rc == 0]
        fails = [(api, rc, err) for api, rc, te, err in ends if rc != 0]
        for api, rc, err in fails:
            if not is_lock_error(err) and not (api == "ckdelete" and "No such file" in err):
                rep.oracle_fail({"kind": "a contender failed with something other than the lock error", "case": case, "api": api,
                                 "rc": rc, "stderr": err[-300:]})
                return
        rep.count("storm_successes", len(succ))
        rep.nontrivial_case(case)
        case["successes"] = len(succ)
        rep.sample(case)
        return len(succ)
    finally:
        repo.done()


def overlap_case(seed, model, rep):
    """two invocations: the second is started while the first is inside its post-acquisition delay;
    both succeeding means both were past acquisition at the same time"""
    rng = scen.Rng(seed)
    repo = setup()
    first = rng.pick(["ckupdate", "ckdelete", "outdelete", "run"])
    second = rng.pick(sorted(APIS))
    d = 800
    case = {"seed": seed, "mode": "overlap", "first": first, "second": second}
    try:
        repo.set_plan({"work|app": {"sleep_ms": d}, "work|lib": {"sleep_ms": d}})
        env = {"MONORAIL_VERIF_POINTS": "delay:lock.acquired:%d" % d}
        repo.clear_traces()
        p1 = repo.popen(APIS[first], env)
        time.sleep(0.25)
        alive = p1.poll() is None
        t2 = time.time()
        p2 = repo.popen(APIS[second], None)
        o2, e2 = p2.communicate(timeout=60)
        t2e = time.time()
        still = p1.poll() is None
        o1, e1 = p1.communicate(timeout=60)
        rep.evaluations += 1
        rep.count("overlap_first_" + first)
        if not (alive and still):
            rep.count("overlap_inconclusive")
            return
        # the first was alive (inside its hold) during the whole life of the second
        if p1.returncode == 0 and (p2.returncode == 0 or not is_lock_error(e2.decode("utf-8", "replace"))):
            rep.oracle_fail({"kind": "two invocations were past lock acquisition at the same time", "case": case,
                             "second_rc": p2.returncode, "second_stderr": e2.decode("utf-8", "replace")[-300:]})
            return
        rep.nontrivial_case(case)
    finally:
        repo.done()


def nested_case(seed, model, rep):
    """a command executed by `run` calls back into monorail on the same repository (and leaves a
    straggler behind): the nested mutating invocation is a contender like any other"""
    rng = scen.Rng(seed)
    repo = setup()
    api = rng.pick(["ckupdate", "ckdelete", "outdelete", "run"])
    case = {"seed": seed, "mode": "nested", "nested": api}
    try:
        before = protected_state(repo)
        repo.set_plan({"slow|app": {"sleep_ms": 100, "spawn": [scen.MONORAIL, "-f", repo.cfg_path] + APIS[api]}, "slow|lib": {"sleep_ms": 50}})
        repo.clear_traces()
        rc, j, out, err = repo.mono("run", "-c", "slow", "-t", "app", "lib", timeout=120)
        rep.evaluations += 1
        rep.count("nested_cases")
        tr = [t for t in repo.traces() if t["command"] == "slow" and t["target"] == "app"]
        sp = (tr[0].get("spawned") if tr else None) or {}
        if rc != 0 or not tr or sp.get("rc") is None and not sp.get("stderr"):
            rep.count("nested_inconclusive")
            return
        if sp.get("rc") == 0 or not is_lock_error(sp.get("stderr", "")):
            rep.oracle_fail({"kind": "an invocation that tried to acquire while another held the lock did not fail with the lock error",
                             "case": case, "contender": "%s started by a command of the running `run`" % api, "rc": sp.get("rc"),
                             "stderr": sp.get("stderr", "")[-300:]})
            return
        started = [t for t in repo.traces() if t["command"] == "work"]
        if started:
            rep.oracle_fail({"kind": "a losing run started an executable", "case": case, "started": [t["target"] for t in started]})
            return
        rep.nontrivial_case(case)
    finally:
        repo.done()


def port_listening(port):
    want = ":%04X" % port
    try:
        for line in open("/proc/net/tcp").read().split("\n")[1:]:
            f = line.split()
            if len(f) > 3 and f[1].endswith(want) and f[3] == "0A":
                return True
    except OSError:
        pass
    return False


def defaultport_case(seed, model, rep):
    """the `server.lock` object is present but names no port: the documented default (5917) is the
    lock address, for every invocation"""
    rng = scen.Rng(seed)
    if port_listening(5917):
        rep.count("default_port_busy_skipped")
        return
    repo = setup()
    case = {"seed": seed, "mode": "defaultport"}
    try:
        repo.cfg["server"]["lock"] = rng.pick([{"bind_timeout_ms": 500}, {"host": "127.0.0.1"}, {}])
        repo.write_config()
        repo.lock_port = 5917
        repo.set_plan({"slow|app": {"sleep_ms": 900}, "slow|lib": {"sleep_ms": 900}})
        holder = repo.popen(["run", "-c", "slow", "-t", "app", "lib"])
        from logtail import wait_port
        if not wait_port(5917, 10):
            holder.kill()
            rep.count("default_port_holder_not_listening")
            holder.communicate()
            if holder.returncode == 0:
                rep.oracle_fail({"kind": "an invocation that tried to acquire while another held the lock did not fail with the lock error",
                                 "case": case, "detail": "the holder does not listen on the default lock port 5917"})
            return
        api = rng.pick(sorted(APIS))
        p = repo.popen(APIS[api])
        out, err = p.communicate(timeout=60)
        alive = holder.poll() is None
        hout, herr = holder.communicate(timeout=60)
        rep.evaluations += 1
        rep.count("default_port_cases")
        if alive and (p.returncode == 0 or not is_lock_error(err.decode("utf-8", "replace"))):
            rep.oracle_fail({"kind": "an invocation that tried to acquire while another held the lock did not fail with the lock error",
                             "case": case, "contender": api, "rc": p.returncode, "stderr": err.decode("utf-8", "replace")[-300:]})
            return
        rep.nontrivial_case(case)
    finally:
        repo.done()


def namedhost_case(seed, model, rep):
    """the lock host is given by name and the bind timeout is 0 ms: name resolution makes the bind
    asynchronous, so the bind races its timer. Whichever wins, an invocation that has not bound the
    lock address is not past acquisition: while a holder executes, every contender exits non-zero
    with a lock error (refused bind or bind timeout)."""
    rng = scen.Rng(seed)
    repo = setup()
    case = {"seed": seed, "mode": "namedhost"}
    try:
        repo.cfg["server"]["lock"] = {"host": "localhost", "port": repo.lock_port, "bind_timeout_ms": 0}
        repo.write_config()
        repo.set_plan({"slow|app": {"sleep_ms": 1200}, "slow|lib": {"sleep_ms": 1200}})
        from logtail import wait_port
        holder = None
        for attempt in range(30):
            h = repo.popen(["run", "-c", "slow", "-t", "app", "lib"])
            if wait_port(repo.lock_port, 0.4):
                holder = h
                break
            # the holder itself lost the race against its timer (legitimate) - or a changed
            # implementation let it proceed without the address; either way it is not a holder
            h.kill()
            h.communicate()
            scen.reap_helpers(repo)
        if holder is None:
            rep.count("namedhost_no_holder")
            return
        t_acq = time.time()
        judged = 0
        events = [["try", 0]]
        while time.time() - t_acq < 0.8:
            api = rng.pick(["ckupdate", "ckupdate", "ckdelete", "run"])
            p = repo.popen(APIS[api])
            out, err = p.communicate(timeout=60)
            err = err.decode("utf-8", "replace")
            if holder.poll() is not None:
                break
            judged += 1
            events.append(["timeout" if "Bind timed out" in err else "try", judged])
            rep.count("namedhost_contender_timeout" if "Bind timed out" in err else "namedhost_contender_refused" if is_lock_error(err) else "namedhost_contender_other")
            if p.returncode == 0 or not (is_lock_error(err) or "Bind timed out" in err):
                rep.oracle_fail({"kind": "an invocation that tried to acquire while another held the lock did not fail with the lock error",
                                 "case": case, "contender": api, "rc": p.returncode, "stderr": err[-300:],
                                 "detail": "lock host given by name, bind_timeout_ms 0; the holder was still executing when this contender had exited"})
                holder.kill()
                holder.communicate()
                scen.reap_helpers(repo)
                return
        holder.communicate(timeout=60)
        scen.reap_helpers(repo)
        rep.evaluations += 1
        rep.count("namedhost_cases")
        rep.count("namedhost_contenders_judged", judged)
        if judged:
            # the lock machine: whether refused or timed out, every contender exited with the lock
            # error status and the holder still holds
            m = model.ask({"op": "lock", "n": judged + 1, "events": events})
            exp = [p["pc"] for p in m["procs"]]
            if exp[0] != "holding" or m["lock"] != 0 or any(e != ["exited", 2] for e in exp[1:]) or any(p["effects"] for p in m["procs"][1:]):
                rep.disagree({"kind": "model predicts a different outcome", "case": case, "model": exp[:8]})
            rep.nontrivial_case(case)
    finally:
        repo.done()


def oddport_case(seed, model, rep):
    """a lock port outside 0..65535 (legal JSON, a `usize` in the configuration): whatever the
    implementation makes of it, two invocations are never past acquisition at the same time"""
    rng = scen.Rng(seed)
    repo = setup()
    port = rng.pick([65536, 131072, 65536 * 3, 2 ** 32])
    case = {"seed": seed, "mode": "oddport", "port": port}
    try:
        repo.cfg["server"]["lock"] = {"port": port}
        repo.write_config()
        repo.set_plan({"slow|app": {"sleep_ms": 900}, "slow|lib": {"sleep_ms": 900}})
        repo.clear_traces()
        holder = repo.popen(["run", "-c", "slow", "-t", "app", "lib"])
        t0 = time.time()
        while time.time() - t0 < 3 and holder.poll() is None and not [t for t in repo.traces() if t["command"] == "slow"]:
            time.sleep(0.01)
        rep.evaluations += 1
        rep.count("oddport_cases")
        if holder.poll() is not None:
            # refused for everybody: nothing is ever past acquisition
            hout, herr = holder.communicate()
            rep.count("oddport_refused" if holder.returncode != 0 else "oddport_holder_finished_early")
            rep.nontrivial_case(case)
            return
        api = rng.pick(["run", "ckupdate"])
        p = repo.popen(APIS[api])
        out, err = p.communicate(timeout=60)
        alive = holder.poll() is None
        holder.communicate(timeout=60)
        scen.reap_helpers(repo)
        if alive and p.returncode == 0:
            rep.oracle_fail({"kind": "two invocations were past lock acquisition at the same time", "case": case, "contender": api,
                             "detail": "the first run was executing its command when the contender finished successfully"})
            return
        rep.nontrivial_case(case)
    finally:
        repo.done()


def main():
    args = scen.parse_args(sys.argv)
    t0 = time.time()
    rep = scen.Report()
    model = scen.Model()
    cases = []
    for c in scen.load_corpus(args["corpus"], "C14"):
        cc = c.get("case", c)
        if "seed" in cc:
            cases.append((cc.get("mode", "hold"), cc["seed"]))
    rng = scen.Rng(args["seed"])
    n = (60 if args["tier"] == "thorough" else 6) * args["budget"]
    for _ in range(n):
        cases.append(("hold", rng.next()))
    for _ in range(n):
        cases.append(("overlap", rng.next()))
    for _ in range(max(2, n // 3)):
        cases.append(("storm", rng.next()))
    if args["budget"] > 0:
        cases.append(("defaultport", rng.next()))
        for _ in range((12 if args["tier"] == "thorough" else 3) * args["budget"]):
            cases.append(("nested", rng.next()))
        for _ in range((10 if args["tier"] == "thorough" else 2) * args["budget"]):
            cases.append(("namedhost", rng.next()))
        for _ in range((6 if args["tier"] == "thorough" else 2) * args["budget"]):
            cases.append(("oddport", rng.next()))
    fn = {"oddport": oddport_case, "namedhost": namedhost_case, "hold": hold_case, "storm": storm_case, "overlap": overlap_case, "defaultport": defaultport_case, "nested": nested_case}
    scen.run_cases(lambda c: fn[c[0]](c[1], model, rep), cases, rep, 6)
    scen.finish(args, rep, t0, model)


if __name__ == "__main__":
    main()
