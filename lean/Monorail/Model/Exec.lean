/-!
# The executor's bookkeeping (`process_plan`, `schedule_task`, `process_task_results`)

The plan is flattened into the list of target groups in execution order (all groups of the first
command, then of the second, …): once the run has failed, later groups of the same command and all
groups of later commands are treated alike — every member becomes `skipped`.

The machine is *reactive*: `start` schedules the first group that spawns something, `step` consumes
one completion (`id`, outcome) of a running task. Which running task completes next, and whether a
sibling of a failed task finishes normally or is torn down without an exit code (`aborted`, its log
readers were cancelled), is input — so "for every schedule" is "for every input list".

`trace` is the chronological history of spawn and completion events; it is what the theorems about
ordering talk about. Import-free.
-/
namespace Monorail

inductive Disp where
  | run          -- the command resolves to an executable file
  | undefined    -- no file found
  | notExec      -- file found, no execute permission
deriving Repr, DecidableEq

structure Task where
  id : Nat
  disp : Disp
deriving Repr, DecidableEq

abbrev Group := List Task

inductive Status where
  | success
  | error (code : Option Int)
  | undefined
  | notExecutable
  | skipped
deriving Repr, DecidableEq

inductive Outcome where
  | code (k : Int)    -- the child exited with status k
  | aborted           -- the task ended without an exit status (readers cancelled / I/O error)
deriving Repr, DecidableEq

inductive Ev where
  | spawn (grp : Nat) (id : Nat)
  | done (id : Nat) (oc : Outcome)
deriving Repr, DecidableEq

structure Sched where
  failed : Bool
  spawns : List Nat
  results : List (Nat × Status)

/-- one iteration of the scheduling loop of `process_plan` (`schedule_task` or the `skipped` arm) -/
def schedMember (fou : Bool) (acc : Sched) (t : Task) : Sched :=
  if acc.failed then { acc with results := acc.results ++ [(t.id, .skipped)] }
  else match t.disp with
    | .run => { acc with spawns := acc.spawns ++ [t.id] }
    | .undefined => { acc with failed := fou, results := acc.results ++ [(t.id, .undefined)] }
    | .notExec => { acc with failed := true, results := acc.results ++ [(t.id, .notExecutable)] }

def schedGroup (fou : Bool) (failed : Bool) (g : Group) : Sched :=
  g.foldl (schedMember fou) { failed := failed, spawns := [], results := [] }

structure Adv where
  spawns : List Nat
  results : List (Nat × Status)
  failed : Bool
  rest : List Group
  gidx : Nat

/-- schedule groups until one of them has spawned something (or the plan is exhausted) -/
def advance (fou : Bool) : List Group → Nat → Bool → Adv
  | [], gi, f => { spawns := [], results := [], failed := f, rest := [], gidx := gi }
  | g :: rest, gi, f =>
    let r := schedGroup fou f g
    if r.spawns.isEmpty then
      let a := advance fou rest (gi + 1) r.failed
      { a with results := r.results ++ a.results }
    else { spawns := r.spawns, results := r.results, failed := r.failed, rest := rest, gidx := gi }

structure ExecSt where
  rest : List Group
  gidx : Nat
  running : List Nat
  results : List (Nat × Status)
  failed : Bool
  trace : List Ev

def statusOf : Outcome → Status
  | .code k => if k = 0 then .success else .error (some k)
  | .aborted => .error none

def Outcome.fails : Outcome → Bool
  | .code k => k != 0
  | .aborted => true

def startExec (fou : Bool) (plan : List Group) : ExecSt :=
  let a := advance fou plan 0 false
  { rest := a.rest, gidx := a.gidx, running := a.spawns, results := a.results, failed := a.failed,
    trace := a.spawns.map (Ev.spawn a.gidx) }

/-- one completion is joined (`process_task_results`); when the group has drained, move on -/
def stepExec (fou : Bool) (s : ExecSt) (id : Nat) (oc : Outcome) : ExecSt :=
  if s.running.contains id then
    let running' := s.running.erase id
    let results' := s.results ++ [(id, statusOf oc)]
    let failed' := s.failed || oc.fails
    let trace' := s.trace ++ [Ev.done id oc]
    if running'.isEmpty then
      let a := advance fou s.rest (s.gidx + 1) failed'
      { rest := a.rest, gidx := a.gidx, running := a.spawns, results := results' ++ a.results,
        failed := a.failed, trace := trace' ++ a.spawns.map (Ev.spawn a.gidx) }
    else { s with running := running', results := results', failed := failed', trace := trace' }
  else s

def runExec (fou : Bool) (plan : List Group) (inputs : List (Nat × Outcome)) : ExecSt :=
  inputs.foldl (fun s io => stepExec fou s io.1 io.2) (startExec fou plan)

/-- the process exit status of `run` -/
def exitStatus (s : ExecSt) : Nat := if s.failed then 1 else 0

end Monorail
