//! C01: `analyze::analyze` (in-process, real rayon chunking) vs the Lean model `analyze`, and the
//! Lean oracle (spec on path components, both readings of the documented grey case) evaluated on
//! the implementation's own output. Every case is also re-run with the change list permuted and
//! padded with duplicates: the summary must not move.
use crate::ctx::{classify, Ctx};
use crate::gen::{self, ConfigCase, GenOpts};
use serde_json::{json, Value};

#[derive(Clone, Debug)]
pub struct Case {
    pub cfg: ConfigCase,
    pub changes: Option<Vec<String>>,
}
impl Case {
    pub fn to_json(&self) -> Value {
        json!({"config": self.cfg.to_model(), "changes": self.changes})
    }
    pub fn from_json(v: &Value) -> Case {
        Case {
            cfg: ConfigCase::from_model(&v["config"]),
            changes: v["changes"].as_array().map(|a| a.iter().map(|s| s.as_str().unwrap().to_string()).collect()),
        }
    }
}

/// canonical form of an AnalyzeOutput JSON (implementation) — sets sorted
fn canon_impl(out: &Value) -> Value {
    let targets = out["targets"].clone();
    let changes: Vec<Value> = out["changes"]
        .as_array()
        .map(|a| {
            a.iter()
                .map(|c| {
                    let mut ts: Vec<(String, String)> = c["targets"]
                        .as_array()
                        .map(|t| {
                            t.iter()
                                .map(|e| (e["path"].as_str().unwrap().to_string(), e["reason"].as_str().unwrap().to_string()))
                                .collect()
                        })
                        .unwrap_or_default();
                    ts.sort_by(|a, b| (a.0.as_bytes(), rcode(&a.1)).cmp(&(b.0.as_bytes(), rcode(&b.1))));
                    json!({"path": c["path"], "targets": ts.iter().map(|(p, r)| json!([p, r])).collect::<Vec<_>>()})
                })
                .collect()
        })
        .unwrap_or_default();
    let groups = canon_groups(&out["target_groups"]);
    json!({"targets": targets, "changes": changes, "groups": groups})
}
fn rcode(r: &str) -> u8 {
    match r { "target" => 0, "uses" => 1, _ => 2 }
}
pub fn canon_groups(g: &Value) -> Value {
    match g.as_array() {
        Some(a) => Value::Array(
            a.iter()
                .map(|grp| {
                    let mut v: Vec<String> = grp.as_array().unwrap().iter().map(|s| s.as_str().unwrap().to_string()).collect();
                    v.sort_by(|a, b| a.as_bytes().cmp(b.as_bytes()));
                    json!(v)
                })
                .collect(),
        ),
        None => g.clone(),
    }
}
fn canon_model(ok: &Value) -> Value {
    json!({"targets": ok["targets"], "changes": ok["changes"], "groups": canon_groups(&ok["groups"])})
}

fn call_impl(work: &std::path::Path, case: &Case, changes: Option<Vec<String>>, sc: bool, sct: bool, stg: bool) -> Result<Value, &'static str> {
    let r = monorail::verif::analyze(&case.cfg.to_config_json(), changes, sc, sct, stg, work);
    match r {
        Ok(s) => Ok(serde_json::from_str(&s).unwrap()),
        Err(e) => Err(classify(&e)),
    }
}

pub enum Verdict {
    Pass,
    OracleFail(Value),
    Disagree(Value),
}

pub fn judge(ctx: &mut Ctx, case: &Case, perm_seed: u64) -> (Verdict, Value) {
    let work = ctx.scratch.case_dir();
    case.cfg.materialise(&work);
    let r = judge_in(ctx, case, perm_seed, &work);
    ctx.scratch.done(&work);
    r
}

fn judge_in(ctx: &mut Ctx, case: &Case, perm_seed: u64, work: &std::path::Path) -> (Verdict, Value) {
    let obs = call_impl(work, case, case.changes.clone(), true, true, true);
    let mut req = json!({"op": "c01", "targets": case.cfg.to_model(), "changes": case.changes, "k": 50});
    if let Ok(o) = &obs {
        let bd: Vec<Value> = o["changes"].as_array().map(|a| a.iter().map(|c| c["targets"].clone()).collect()).unwrap_or_default();
        req["obs"] = json!({"targets": o["targets"], "changes": bd});
    }
    let resp = ctx.model.ask(&req);
    let model = &resp["model"];
    if resp["oracle"] == "fail" {
        return (
            Verdict::OracleFail(json!({
                "kind": "analyze output violates the change-to-target specification",
                "why": resp["why"], "config": case.cfg.to_model(), "changes": case.changes,
                "implementation": obs.as_ref().ok().map(canon_impl),
            })),
            resp,
        );
    }
    // model vs implementation
    let agree = match (&obs, model.get("ok"), model.get("err")) {
        (Ok(o), Some(ok), _) => {
            let a = canon_impl(o);
            let b = canon_model(ok);
            if case.changes.is_some() { a == b } else { a["targets"] == b["targets"] && a["groups"] == b["groups"] }
        }
        (Err(k), _, Some(e)) => e.as_str() == Some(*k),
        _ => false,
    };
    if !agree {
        return (
            Verdict::Disagree(json!({
                "kind": "model and implementation analyze outputs differ",
                "config": case.cfg.to_model(), "changes": case.changes,
                "model": model.get("ok").map(canon_model).unwrap_or(model.clone()),
                "implementation": match &obs { Ok(o) => canon_impl(o), Err(k) => json!({"err": k}) },
                "wf": resp["wf"],
            })),
            resp,
        );
    }
    // order / multiplicity / batching independence, on the implementation itself
    if let (Ok(o), Some(cs)) = (&obs, &case.changes) {
        if !cs.is_empty() {
            let mut r = crate::rng::Rng::new(perm_seed);
            let mut cs2 = cs.clone();
            let extra = r.range(0, 60);
            for _ in 0..extra {
                cs2.push(r.pick(cs).clone());
            }
            r.shuffle(&mut cs2);
            if let Ok(o2) = call_impl(work, case, Some(cs2.clone()), false, false, r.chance(1, 2)) {
                if o2["targets"] != o["targets"] {
                    return (
                        Verdict::OracleFail(json!({
                            "kind": "analyze targets depend on order / multiplicity / batching of the changes",
                            "config": case.cfg.to_model(), "changes": cs, "changes_permuted": cs2,
                            "targets": o["targets"], "targets_permuted": o2["targets"],
                        })),
                        resp,
                    );
                }
            }
        }
    }
    (Verdict::Pass, resp)
}

fn shrink_cands(c: &Case) -> Vec<Case> {
    let mut out = vec![];
    if let Some(cs) = &c.changes {
        if cs.len() > 1 {
            // halves first, then single removals
            let h = cs.len() / 2;
            out.push(Case { cfg: c.cfg.clone(), changes: Some(cs[..h].to_vec()) });
            out.push(Case { cfg: c.cfg.clone(), changes: Some(cs[h..].to_vec()) });
        }
        if cs.len() <= 12 {
            for i in 0..cs.len() {
                let mut d = cs.clone();
                d.remove(i);
                out.push(Case { cfg: c.cfg.clone(), changes: Some(d) });
            }
        }
    }
    for cfg in gen::shrink_config(&c.cfg) {
        out.push(Case { cfg, changes: c.changes.clone() });
    }
    out
}

fn shrink(ctx: &mut Ctx, case: &Case, want_oracle: bool, perm_seed: u64) -> Case {
    let mut cur = case.clone();
    let mut steps = 0;
    'outer: loop {
        for cand in shrink_cands(&cur) {
            steps += 1;
            if steps > 3000 {
                return cur;
            }
            let (v, _) = judge(ctx, &cand, perm_seed);
            let keep = match v {
                Verdict::OracleFail(_) => want_oracle,
                Verdict::Disagree(_) => !want_oracle,
                Verdict::Pass => false,
            };
            if keep {
                cur = cand;
                continue 'outer;
            }
        }
        return cur;
    }
}

fn handle_case(ctx: &mut Ctx, case: &Case, origin: &str) {
    ctx.report.evaluations += 1;
    let perm_seed = ctx.rng.next();
    let (v, resp) = judge(ctx, case, perm_seed);
    let nchanges = case.changes.as_ref().map(|c| c.len()).unwrap_or(0);
    ctx.report.count(&format!("origin_{}", origin));
    ctx.report.count(&format!("targets_{}", case.cfg.targets.len().min(12)));
    ctx.report.count(match nchanges { 0 => "changes_0", 1..=6 => "changes_1_6", 7..=50 => "changes_7_50", _ => "changes_gt_batch" });
    ctx.report.count(if case.changes.is_none() { "no_checkpoint" } else { "checkpointed" });
    ctx.report.count(if resp["wf"] == true { "wf" } else { "not_wf" });
    ctx.report.count(&format!("oracle_{}", resp["oracle"].as_str().unwrap_or("?")));
    if let Some(ok) = resp["model"].get("ok") {
        let nt = ok["targets"].as_array().map(|a| a.len()).unwrap_or(0);
        let mut reasons = std::collections::BTreeSet::new();
        for c in ok["changes"].as_array().unwrap_or(&vec![]) {
            for e in c["targets"].as_array().unwrap_or(&vec![]) {
                reasons.insert(e[1].as_str().unwrap_or("").to_string());
            }
        }
        for r in &reasons {
            ctx.report.count(&format!("reason_{}", r));
        }
        if resp["wf"] == true && case.cfg.targets.len() >= 2 && nchanges >= 1 && (nt >= 1 || reasons.contains("ignores")) {
            ctx.report.nontrivial_case(&case.to_json());
        }
    } else {
        ctx.report.count(&format!("model_err_{}", resp["model"]["err"].as_str().unwrap_or("?")));
    }
    if nchanges <= 8 {
        ctx.report.sample(case.to_json());
    }
    match v {
        Verdict::Pass => {}
        Verdict::OracleFail(_) => {
            ctx.report.count("oracle_failures");
            if ctx.report.oracle_failures.len() < 4 {
                let small = shrink(ctx, case, true, perm_seed);
                if let (Verdict::OracleFail(d), _) = judge(ctx, &small, perm_seed) {
                    ctx.report.oracle_failures.push(d);
                }
            }
        }
        Verdict::Disagree(_) => {
            ctx.report.count("disagreements");
            if ctx.report.disagreements.len() < 4 {
                let small = shrink(ctx, case, false, perm_seed);
                if let (Verdict::Disagree(d), _) = judge(ctx, &small, perm_seed) {
                    ctx.report.disagreements.push(d);
                }
            }
        }
    }
}

/// small universe, every single change: ≤ 3 targets over candidate paths with uses/ignores choices
fn exhaustive(ctx: &mut Ctx, thorough: bool) {
    let paths = ["a", "ab", "a/b", "b"];
    let extras: Vec<(Vec<&str>, Vec<&str>)> = vec![
        (vec![], vec![]),
        (vec!["b/x"], vec![]),
        (vec!["ab"], vec![]),
        (vec![], vec!["a/b"]),
        (vec!["s"], vec!["s/i"]),
        (vec!["a"], vec!["a/b/f"]),
    ];
    let changes = ["a/f", "ab/f", "a/b/f", "a/bc", "b/x", "b/x/y", "s/i", "s/j", "abc", "a"];
    let n = if thorough { 3 } else { 2 };
    let mut count = 0u64;
    let mut idx = vec![0usize; n];
    let total = paths.len() * extras.len();
    loop {
        let pi: Vec<usize> = idx.iter().map(|x| x / extras.len()).collect();
        let distinct = (0..n).all(|i| (0..i).all(|j| pi[i] != pi[j]));
        if distinct {
            let cfg = ConfigCase {
                targets: (0..n)
                    .map(|k| {
                        let (u, g) = &extras[idx[k] % extras.len()];
                        gen::TargetSpec {
                            path: paths[pi[k]].to_string(),
                            uses: u.iter().map(|s| s.to_string()).collect(),
                            ignores: g.iter().map(|s| s.to_string()).collect(),
                        }
                    })
                    .collect(),
            };
            for c in changes.iter() {
                handle_case(ctx, &Case { cfg: cfg.clone(), changes: Some(vec![c.to_string()]) }, "exhaustive");
                count += 1;
            }
        }
        let mut k = 0;
        while k < n {
            idx[k] += 1;
            if idx[k] < total { break; }
            idx[k] = 0;
            k += 1;
        }
        if k == n { break; }
    }
    ctx.report.exhaustive.push(format!(
        "all ordered choices of {} distinct target paths from {:?} x 6 uses/ignores shapes x every single change from {:?}: {} cases",
        n, paths, changes, count
    ));
}

pub fn run(ctx: &mut Ctx) {
    for c in crate::corpus::load(&ctx.corpus_dir, "C01") {
        handle_case(ctx, &Case::from_json(&c), "corpus");
    }
    if ctx.budget == 0 {
        return;
    }
    exhaustive(ctx, ctx.thorough);
    let n = if ctx.thorough { 30_000 } else { 2_500 } * ctx.budget;
    let opts = GenOpts { max_targets: if ctx.thorough { 60 } else { 12 }, allow_dups: true, allow_odd: true, allow_slash: true };
    for _ in 0..n {
        let mut r = ctx.rng.fork();
        let cfg = gen::config(&mut r, &opts);
        let changes = if r.chance(1, 25) { None } else { Some(gen::changes(&mut r, &cfg, 400)) };
        handle_case(ctx, &Case { cfg, changes }, "random");
    }
}
