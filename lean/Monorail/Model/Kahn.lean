import Monorail.Model.Graph
/-!
# `Dag::get_groups`, concretely

The counter / queue loop of the code: an in-degree per node (counting edges from visible nodes, with
multiplicity), a work queue of the nodes whose in-degree is zero, and for every node taken from the
queue a decrement of the in-degree of each node it depends on; a node whose in-degree reaches zero
joins the next queue (`push_front`, so the next queue is in reverse discovery order). When the
queues are exhausted, a visible node with a non-zero in-degree means a cycle.

`Proofs/Kahn.lean` proves that this loop produces, layer by layer, the same groups (as sets) as the
abstract `layers`, and fails exactly when `layers` leaves something over. Import-free.
-/
namespace Monorail

structure KSt where
  deg : Nat → Nat
  next : List Nat

/-- `in_degree[n2] -= 1; if in_degree[n2] == 0 && visibility[n2] { next_work.push_front(n2) }` -/
def decEdge (visB : Nat → Bool) (st : KSt) (n2 : Nat) : KSt :=
  let d := st.deg n2 - 1
  { deg := fun v => if v = n2 then d else st.deg v,
    next := if d = 0 && visB n2 then n2 :: st.next else st.next }

/-- one node taken from the work queue -/
def procNode (g : Graph) (visB : Nat → Bool) (st : KSt) (n1 : Nat) : KSt :=
  (g.out n1).foldl (decEdge visB) st

/-- one pass over the work queue: the nodes of `work` form the current group -/
def procLayer (g : Graph) (visB : Nat → Bool) (deg : Nat → Nat) (work : List Nat) : KSt :=
  work.foldl (procNode g visB) { deg := deg, next := [] }

def kahnAux (g : Graph) (visB : Nat → Bool) : Nat → (Nat → Nat) → List Nat → List (List Nat) × (Nat → Nat)
  | 0, deg, _ => ([], deg)
  | fuel + 1, deg, work =>
    if work.isEmpty then ([], deg)
    else
      let st := procLayer g visB deg work
      let r := kahnAux g visB fuel st.deg st.next
      (work :: r.1, r.2)

/-- in-degree of `v` counting the edges that start in `rem`, with multiplicity -/
def indegOf (g : Graph) (rem : List Nat) (v : Nat) : Nat :=
  (rem.map (fun u => (g.out u).count v)).sum

/-- the loop of `get_groups` on the visible set `vis`; the first queue is filled in node order -/
def kahnRun (g : Graph) (vis : List Nat) : List (List Nat) × (Nat → Nat) :=
  kahnAux g (fun v => vis.contains v) vis.length (indegOf g vis)
    ((List.range g.size).filter (fun v => indegOf g vis v == 0 && vis.contains v))

/-- `get_groups`: a visible node whose in-degree is still non-zero afterwards means a cycle -/
def kahn (g : Graph) (vis : List Nat) : Except GraphErr (List (List Nat)) :=
  if vis.any (fun v => (kahnRun g vis).2 v != 0) then .error .cycle else .ok (kahnRun g vis).1

end Monorail
