#!/usr/bin/env python3
"""C02 / C07 / C19: histories on real git repositories.

Random sequences of file operations (create / edit / delete / move, names with spaces, quotes,
tabs, non-ASCII, leading dashes), staging, commits, `checkpoint update [-i older] [-p]`,
`checkpoint delete`, `out delete --all`, interleaved with queries (`analyze --changes [-b -e]`,
`checkpoint show`, `analyze`, `run`). Every answer of the real binary is compared with

  * the specification recomputed by this harness from git plumbing that the implementation does not
    use (ls-tree, ls-files, hash-object, check-ignore) and its own sha256 of the files on disk, and
  * the Lean model (abstract git + checkpoint store + change provider, `Model/Git.lean`).

Attribution: change set wrong -> C02; after `update -p` something is still changed / run executes,
or a later edit is not re-flagged exactly -> C07; `show` is not the last update, HEAD not recorded,
behaviour without checkpoint wrong -> C19."""
import hashlib
import json
import os
import subprocess
import sys
import time
from concurrent.futures import ThreadPoolExecutor

import scen

TARGETS = [{"path": "app"}, {"path": "app2", "uses": ["shared"]}, {"path": "lib", "ignores": ["lib/docs"]},
           {"path": "dir with space"}, {"path": "ünï"}, {"path": "lib/core"}]
DIRS = ["app", "app2", "lib", "lib/docs", "lib/core", "dir with space", "ünï", "shared", "misc"]
NAMES = ["f.txt", "a b.txt", "é.rs", "q\"uote.md", "tab\there", "-dash", "sub/deep/x.c", "x.log", "g.go", "back\\slash.txt",
         "docs\\x.md"]


def sha256_file(p):
    try:
        if os.path.isdir(p):
            return ""
        return hashlib.sha256(open(p, "rb").read()).hexdigest()
    except OSError:
        return ""


class History:
    def __init__(self, seed, prop):
        self.rng = scen.Rng(seed)
        self.seed = seed
        self.prop = prop
        out_dir = None
        if seed % 5 == 0:
            # an output directory given as an absolute path outside the repository (or with `..`)
            base = os.path.join(scen.scratch_root(), "out-%d" % (seed % 1000003))
            os.makedirs(base, exist_ok=True)
            out_dir = base if seed % 10 == 0 else os.path.join("..", os.path.basename(base))
        self.repo = scen.Repo(TARGETS, git=True, out_dir=out_dir)
        r = self.repo
        for t in TARGETS:
            r.install(t["path"], "build")
        with open(os.path.join(r.dir, ".gitignore"), "w") as f:
            f.write("monorail-out/\n*.log\n")
        self.shas = [r.commit_all("initial")]
        self.events = []          # for the Lean model
        self.known = []           # paths ever written
        self.blob = 0
        self.log = []             # human readable history, goes into replays
        self.has_ck = False

    def done(self):
        self.repo.done()

    # --- operations -------------------------------------------------------------------------
    def path_pool(self):
        return self.known if self.known and self.rng.chance(2, 3) else None

    def pick_new_path(self):
        return self.rng.pick(DIRS) + "/" + self.rng.pick(NAMES)

    def existing_files(self):
        return [p for p in self.known if os.path.isfile(os.path.join(self.repo.dir, p))]

    def op_write(self, p=None, fresh=True, allow_empty=True):
        if p is None:
            ex = self.existing_files()
            p = self.rng.pick(ex) if ex and self.rng.chance(1, 2) else self.pick_new_path()
        self.blob += 1
        b = self.blob
        full = os.path.join(self.repo.dir, p)
        os.makedirs(os.path.dirname(full), exist_ok=True)
        if allow_empty and self.rng.chance(1, 10):
            b = 0          # an empty file: a file, with content (blob 0), not an absent path
        with open(full, "w") as f:
            f.write("content %d\n" % b if b else "")
        if self.rng.chance(1, 4):
            # content that arrives with an old timestamp (cp -p, mv, tar x, rsync -t)
            # (every such write gets its own second: git compares whole seconds, and two same-sized
            # versions of a file carrying the same old timestamp would look identical to it)
            old = time.time() - self.rng.pick([3600, 86400, 10 * 86400]) - 3 * self.blob
            os.utime(full, (old, old))
        if p not in self.known:
            self.known.append(p)
        self.events.append(["write", p, b])
        self.log.append("write %r := %d" % (p, b))
        return p

    def op_bulk(self, n):
        """many new paths at once: the change list is analysed in batches of 50 and merged, so the
        sortedness / completeness of what is reported is only exercised beyond 100 changes"""
        d = self.rng.pick(DIRS)
        k = 0
        while k < n:
            p = "%s/bulk%d/%s%03d.txt" % (d if k % 3 else self.rng.pick(DIRS), self.rng.below(4),
                                          self.rng.pick(["f", "F", "é", "a b", "données-éàü-变更-", "ファイル"]), self.rng.below(1000))
            if p in self.known:
                continue
            self.op_write(p)
            k += 1
        self.log = self.log[:-n] + ["bulk write of %d new paths" % n]

    def op_delete(self, p=None):
        ex = self.existing_files()
        if p is None:
            if not ex:
                return None
            p = self.rng.pick(ex)
        os.remove(os.path.join(self.repo.dir, p))
        self.events.append(["delete", p])
        self.log.append("delete %r" % p)
        return p

    def op_move(self):
        ex = self.existing_files()
        if not ex:
            return
        p = self.rng.pick(ex)
        q = self.pick_new_path()
        if os.path.exists(os.path.join(self.repo.dir, q)) or q == p:
            return
        full = os.path.join(self.repo.dir, q)
        os.makedirs(os.path.dirname(full), exist_ok=True)
        os.rename(os.path.join(self.repo.dir, p), full)
        if q not in self.known:
            self.known.append(q)
        self.events.append(["move", p, q])
        self.log.append("move %r -> %r" % (p, q))

    def op_addall(self):
        self.repo.git("add", "-A")
        self.events.append(["addall"])
        self.log.append("git add -A")

    def op_add(self):
        ex = self.existing_files()
        if not ex:
            return
        p = self.rng.pick(ex)
        if p.endswith(".log"):
            return  # ignored: `git add` refuses
        self.repo.git("add", "--", p)
        self.events.append(["add", p])
        self.log.append("git add %r" % p)

    def op_commit(self):
        self.repo.git("commit", "-q", "--allow-empty", "-m", "c%d" % len(self.shas))
        self.shas.append(self.repo.git("rev-parse", "HEAD").strip())
        self.events.append(["commit"])
        self.log.append("git commit")

    def index_differs_from_head(self):
        return self.repo.git("diff", "--cached", "--name-only", "HEAD").strip() != ""

    def op_amend(self):
        """rewrite the tip commit: the checkpoint may then name a commit that is no ancestor of HEAD;
        what is reported is a difference of trees, so for the model this is just another commit"""
        self.repo.git("commit", "-q", "--amend", "--allow-empty", "-m", "amended %d" % len(self.shas))
        self.shas.append(self.repo.git("rev-parse", "HEAD").strip())
        self.events.append(["commit"])
        self.log.append("git commit --amend")

    def op_touch(self):
        """a tracked file gets a new timestamp (or is rewritten with the same bytes): not a change"""
        ex = [p for p in self.existing_files() if p in self.index_paths()]
        if not ex:
            return
        p = self.rng.pick(ex)
        full = os.path.join(self.repo.dir, p)
        if self.rng.chance(1, 2):
            data = open(full, "rb").read()
            with open(full, "wb") as f:
                f.write(data)
        t = time.time() - self.rng.pick([7, 3600, -5]) - 3 * self.blob
        os.utime(full, (t, t))
        self.log.append("touch %r" % p)

    # --- ground truth from git plumbing the implementation does not use ------------------------
    def tree_of(self, sha):
        out = subprocess.run(["git", "ls-tree", "-r", "-z", sha], cwd=self.repo.dir, stdout=subprocess.PIPE).stdout
        t = {}
        for ent in out.split(b"\0"):
            if not ent:
                continue
            meta, name = ent.split(b"\t", 1)
            t[name.decode("utf-8", "surrogateescape")] = meta.split()[2].decode()
        return t

    def index_paths(self):
        out = subprocess.run(["git", "ls-files", "-z"], cwd=self.repo.dir, stdout=subprocess.PIPE).stdout
        return {n.decode("utf-8", "surrogateescape") for n in out.split(b"\0") if n}

    def disk_files(self):
        res = []
        for dp, dn, fn in os.walk(self.repo.dir):
            if ".git" in dn:
                dn.remove(".git")
            if "monorail-out" in dn and dp == self.repo.dir:
                dn.remove("monorail-out")
            for f in fn:
                res.append(os.path.relpath(os.path.join(dp, f), self.repo.dir))
        return res

    def hash_object(self, p):
        return subprocess.run(["git", "hash-object", "--", p], cwd=self.repo.dir, stdout=subprocess.PIPE).stdout.decode().strip()

    def is_ignored(self, p):
        return subprocess.run(["git", "check-ignore", "-q", "--", p], cwd=self.repo.dir).returncode == 0

    def spec_changes(self, ck, begin=None, end=None):
        """the specification of the reported change set, as a sorted list"""
        b = begin if begin is not None else (ck["id"] or None)
        if b is not None and end is not None:
            ta, tb = self.tree_of(b), self.tree_of(end)
            tracked = {p for p in set(ta) | set(tb) if ta.get(p) != tb.get(p)}
        else:
            base = self.tree_of(b if b is not None else "HEAD")
            idx = self.index_paths()
            tracked = set()
            for p in set(base) | idx:
                full = os.path.join(self.repo.dir, p)
                cur = self.hash_object(p) if (p in idx and os.path.isfile(full)) else None
                if cur != base.get(p):
                    tracked.add(p)
        idx = self.index_paths()
        untracked = {p for p in self.disk_files() if p not in idx and not self.is_ignored(p)}
        allp = tracked | untracked
        pend = ck.get("pending") or {}
        if pend:
            allp = {p for p in allp if not (p in pend and pend[p] == sha256_file(os.path.join(self.repo.dir, p)))}
        return sorted(allp, key=lambda s: s.encode("utf-8", "surrogateescape"))

    # --- queries -----------------------------------------------------------------------------------
    def show(self):
        rc, j, out, err = self.repo.mono("checkpoint", "show")
        return (j or {}).get("checkpoint") if rc == 0 else None

    def analyze_changes(self, begin=None, end=None):
        args = ["analyze", "--changes"]
        if begin:
            args += ["-b", begin]
        if end:
            args += ["-e", end]
        rc, j, out, err = self.repo.mono(*args)
        return rc, j, err


def model_ck(h, ck):
    """checkpoint as the model prints it -> comparable with the real one"""
    if ck is None:
        return None
    pend = None
    if ck.get("pending") is not None:
        pend = {}
        for p, d in ck["pending"]:
            pend[p] = hashlib.sha256((("content %d\n" % d) if d else "").encode()).hexdigest() if d is not None else ""
    return {"id": h.shas[ck["id"]] if ck["id"] is not None else "", "pending": pend}


def real_ck(ck):
    if ck is None:
        return None
    return {"id": ck.get("id", ""), "pending": ck.get("pending")}


def run_history(seed, prop, model, rep, length):
    h = History(seed, prop)
    r = h.repo
    rng = h.rng
    case = {"seed": seed, "prop": prop, "length": length}
    last_update_return = None
    bulked = False

    def fail(p, kind, **kw):
        d = {"kind": kind, "case": case, "history": h.log[-40:]}
        d.update(kw)
        if p == prop:
            rep.oracle_fail(d)
            return True          # the history ends at the first violation of the property under check
        if p == "MODEL":
            rep.disagree(d)
        else:
            rep.count("violations_of_" + p)
        return False             # keep going: the property under check may be violated further on

    def ask_model(extra):
        ign = [p for p in h.known if p.endswith(".log")]
        return model.ask({"op": "git", "ignored": ign, "events": h.events + extra})["answers"]

    def do_query(step):
        if not h.has_ck:
            return False
        begin = end = None
        bi = ei = None
        if rng.chance(1, 4) and len(h.shas) > 1:
            bi, ei = rng.below(len(h.shas)), rng.below(len(h.shas))
            if rng.chance(1, 3):
                ei = len(h.shas) - 1
            begin, end = h.shas[bi], h.shas[ei]
            if ei == len(h.shas) - 1 and r.git("rev-parse", "HEAD").strip() == end and rng.chance(1, 2):
                end = "HEAD"          # the same commit, spelled symbolically
                rep.count("query_end_spelled_HEAD")
        rc, j, err = h.analyze_changes(begin, end)
        rep.evaluations += 1
        rep.count("query_range" if begin else "query")
        if rc != 0 or j is None:
            if fail("C02", "analyze --changes failed", rc=rc, stderr=err[-300:]):
                return True
            return False
        got = [c["path"] for c in j.get("changes", [])]
        ck = h.show()
        want = h.spec_changes(ck, begin, end)
        if sorted(set(got), key=lambda s: s.encode()) != want or got != sorted(got, key=lambda s: s.encode()):
            if fail("C02", "reported changes are not exactly the difference from the checkpoint", reported=got, expected=want,
                    begin=bi, end=ei, checkpoint=ck):
                return True
        # C01 end to end: the targets reported next to these changes are the ones the documented
        # mapping gives for exactly this change list (names with spaces, backslashes, multi-byte
        # characters reach the mapping as git hands them over)
        if "targets" in j:
            a = model.ask({"op": "c01", "targets": [{"path": t["path"], "uses": t.get("uses", []), "ignores": t.get("ignores", [])} for t in TARGETS],
                           "changes": want, "k": 50})
            exp_t = (a["model"].get("ok") or {}).get("targets")
            if exp_t is not None and j.get("targets") != exp_t:
                if fail("C01", "analyze output violates the change-to-target specification", reported_targets=j.get("targets"),
                        expected_targets=exp_t, changes=want[:20], begin=bi, end=ei):
                    return True
        ans = ask_model([["changes", bi, ei]])
        if ans[-1] != got:
            if fail("MODEL", "model and implementation change sets differ", model=ans[-1], implementation=got, begin=bi, end=ei):
                return True
        if len(want) >= 1:
            rep.nontrivial_case({"seed": seed, "step": step})
        if shown_differs(h, last_update_return):
            if fail("C19", "checkpoint show changed although no update happened", shown=real_ck(h.show()), last=last_update_return):
                return True
        return False

    try:
        for step in range(length):
            k = rng.below(100)
            if k < 30:
                if not bulked and seed % 2 == 0 and rng.chance(1, 8):
                    bulked = True
                    tracked = rng.chance(1, 2)
                    if tracked and not h.has_ck:
                        rcu, ju, _, _ = r.mono("checkpoint", "update")
                        h.events.append(["update", None, False])
                        h.log.append("update")
                        if rcu == 0 and ju is not None:
                            h.has_ck = True
                            last_update_return = real_ck(ju["checkpoint"])
                    h.op_bulk(rng.range(500, 800) if tracked else rng.range(90, 260))
                    rep.count("bulk_writes")
                    if tracked:
                        # tracked: the names come back through `git diff` (several pipe reads long)
                        h.op_addall()
                        h.op_commit()
                        rep.count("bulk_committed")
                        if do_query(step):
                            return
                else:
                    h.op_write()
            elif k < 38:
                h.op_delete()
            elif k < 45:
                h.op_move()
            elif k < 53:
                h.op_addall()
            elif k < 58:
                h.op_add()
            elif k < 66:
                if len(h.shas) > 1 and rng.chance(1, 6):
                    h.op_amend()
                elif rng.chance(1, 6):
                    h.op_touch()
                else:
                    h.op_commit()
            elif k < 80:
                # checkpoint update
                args = ["checkpoint", "update"]
                mid = None
                if rng.chance(1, 4) and len(h.shas) > 1:
                    mid = rng.below(len(h.shas))
                    args += ["-i", h.shas[mid]]
                pend = rng.chance(1, 2)
                if pend:
                    args.append("-p")
                    emptied = None
                    if rng.chance(1, 4):
                        # a committed file is truncated to nothing: recorded as an (empty) file, not as absent
                        committed = [q for q in h.existing_files() if q in h.tree_of("HEAD") and not q.endswith(".log")]
                        if committed:
                            emptied = rng.pick(committed)
                            full = os.path.join(r.dir, emptied)
                            open(full, "w").close()
                            h.events.append(["write", emptied, 0])
                            h.log.append("write %r := 0 (truncated)" % emptied)
                    if rng.chance(1, 3):
                        # a deletion / move of a committed file that the pending map will record
                        committed = [q for q in h.existing_files() if q in h.tree_of("HEAD")]
                        if committed:
                            if rng.chance(1, 2):
                                h.op_delete(rng.pick(committed))
                            else:
                                h.op_move()
                rc, j, out, err = r.mono(*args)
                rep.evaluations += 1
                rep.count("update_pending" if pend else "update")
                if mid is not None:
                    rep.count("update_with_id")
                h.events.append(["update", mid, pend])
                h.log.append(" ".join(args[1:]))
                ans = ask_model([])
                mck = model_ck(h, ans[-1])
                if rc != 0 or j is None:
                    if fail("C19", "checkpoint update failed", rc=rc, stderr=err[-300:]):
                        return
                    continue
                got = real_ck(j["checkpoint"])
                last_update_return = got
                h.has_ck = True
                head = r.git("rev-parse", "HEAD").strip()
                if mid is None and got["id"] != head:
                    if fail("C19", "update without --id did not record HEAD", recorded=got["id"], head=head):
                        return
                if mid is not None and got["id"] != h.shas[mid]:
                    if fail("C19", "update --id did not record the given id", recorded=got["id"]):
                        return
                if got != mck:
                    if fail("MODEL", "model and implementation disagree on the updated checkpoint", model=mck, implementation=got):
                        return
                shown = real_ck(h.show())
                if shown != got:
                    if fail("C19", "checkpoint show is not what the update returned", shown=shown, returned=got):
                        return
                if pend and mid is None:
                    # C07: immediately after update --pending nothing is changed and run executes nothing
                    rc2, j2, err2 = h.analyze_changes()
                    if rc2 != 0 or j2 is None or j2.get("targets") or j2.get("changes"):
                        if fail("C07", "something is still changed right after checkpoint update --pending",
                                targets=(j2 or {}).get("targets"), changes=[c["path"] for c in (j2 or {}).get("changes", [])][:10]):
                            return
                    if rng.chance(1, 3):
                        r.clear_traces()
                        rc3, j3, out3, err3 = r.mono("run", "-c", "build")
                        if rc3 != 0 or r.traces():
                            if fail("C07", "run executed something right after checkpoint update --pending", rc=rc3,
                                    started=[t["target"] for t in r.traces()]):
                                return
                    amended = False
                    if rng.chance(1, 4) and len(h.shas) > 1 and not h.index_differs_from_head():
                        amended = True
                        # the checkpointed commit is rewritten with the same content (message only):
                        # still nothing has changed since the checkpoint
                        h.op_amend()
                        rc2, j2, err2 = h.analyze_changes()
                        if rc2 != 0 or j2 is None or j2.get("targets") or j2.get("changes"):
                            if fail("C07", "something is still changed right after checkpoint update --pending",
                                    after="git commit --amend (same tree)", targets=(j2 or {}).get("targets"),
                                    changes=[c["path"] for c in (j2 or {}).get("changes", [])][:10]):
                                return
                    rep.nontrivial_case({"seed": seed, "step": step, "k": "c07"})
                    # a later edit re-flags exactly the targets affected by that path
                    if rng.chance(2, 3) and not amended:
                        kind = rng.below(3)
                        if emptied and os.path.isfile(os.path.join(r.dir, emptied)) and os.path.getsize(os.path.join(r.dir, emptied)) == 0:
                            p = h.op_delete(emptied)      # the emptied file disappears: that is a change
                        elif kind == 0:
                            p = h.op_write(h.pick_new_path(), allow_empty=False)
                        elif kind == 1 and h.existing_files():
                            p = h.op_write(rng.pick(h.existing_files()), allow_empty=False)
                        else:
                            committed = [q for q in h.existing_files() if q in h.tree_of("HEAD")]
                            p = h.op_delete(rng.pick(committed)) if committed else h.op_write(h.pick_new_path(), allow_empty=False)
                        if p.endswith(".log") and p not in h.index_paths():
                            expect_t = []
                        else:
                            a = model.ask({"op": "c01", "targets": [{"path": t["path"], "uses": t.get("uses", []), "ignores": t.get("ignores", [])} for t in TARGETS],
                                           "changes": [p], "k": 50})
                            expect_t = a["model"]["ok"]["targets"]
                        rc2, j2, err2 = h.analyze_changes()
                        got_t = (j2 or {}).get("targets")
                        got_c = [c["path"] for c in (j2 or {}).get("changes", [])]
                        if rc2 != 0 or got_t != expect_t or (expect_t == [] and False) or (got_c != ([p] if not (p.endswith(".log") and p not in h.index_paths()) else [])):
                            if fail("C07", "an edit after checkpoint update --pending is not re-flagged exactly", path=p,
                                    targets=got_t, expected_targets=expect_t, changes=got_c):
                                return
                        rep.count("reflag_checked")
                if do_query(step):
                    return
                if mid is None and rng.chance(1, 4):
                    # the commit the checkpoint names is rewritten (amend): it is no ancestor of HEAD
                    # any more; what has changed is still the difference from that commit's tree
                    h.op_write(allow_empty=False)
                    h.op_addall()
                    h.op_amend()
                    rep.count("checkpoint_commit_amended")
                    if rng.chance(1, 2):
                        h.op_write(allow_empty=False)
                    if do_query(step):
                        return
            elif k < 82 and rng.chance(1, 2):
                # HEAD does not resolve to a commit (an orphan branch before its first commit):
                # an update without --id has nothing to record and must fail, leaving the stored
                # checkpoint as it was; the working tree and the index are untouched, so the model
                # sees nothing of this episode
                # (HEAD is pointed at a branch that does not exist yet; index and working tree are
                # left exactly as they are, which `git checkout --orphan` / `checkout main` do not
                # guarantee when something is staged)
                r.git("symbolic-ref", "HEAD", "refs/heads/orphan%d" % step)
                before_ck = real_ck(h.show()) if h.has_ck else None
                args = ["checkpoint", "update"] + (["-p"] if rng.chance(1, 2) else [])
                with_id = "-p" in args and step % 2 == 0
                if with_id:
                    # the id is given, the pending scan still needs HEAD: the update fails after its id
                    # is known, and must not leave anything behind either
                    args += ["--id", h.shas[-1]]
                rc, j, out, err = r.mono(*args)
                shown = real_ck(h.show()) if h.has_ck else None
                showrc = h.show()
                r.git("symbolic-ref", "HEAD", "refs/heads/main")
                rep.evaluations += 1
                rep.count("update_with_unborn_head")
                h.log.append("HEAD -> unborn branch; " + " ".join(args) + "; HEAD -> main")
                if rc == 0:
                    if not with_id and fail("C19", "checkpoint update without --id succeeded although HEAD resolves to no commit",
                                            recorded=(j or {}).get("checkpoint")):
                        return
                    # the stored checkpoint is whatever that update wrote: resynchronise by deleting it
                    r.mono("checkpoint", "delete")
                    h.events.append(["ckdelete"])
                    h.has_ck = False
                    last_update_return = None
                else:
                    h.events.append(["update_unborn", "-p" in args])     # the model: a failed update changes nothing
                if rc != 0 and ((h.has_ck and shown != before_ck) or (not h.has_ck and showrc is not None)):
                    if fail("C19", "a failed checkpoint update changed what checkpoint show returns", before=before_ck, after=shown):
                        return
            elif k < 84:
                which = rng.pick(["ckdelete", "outdelete"])
                if which == "ckdelete":
                    rc, j, out, err = r.mono("checkpoint", "delete")
                    if h.has_ck and rc != 0:
                        if fail("C19", "checkpoint delete failed", rc=rc, stderr=err[-200:]):
                            return
                else:
                    rc, j, out, err = subprocess_out_delete(r)
                h.events.append([which])
                h.log.append(which)
                h.has_ck = False
                last_update_return = None
                rep.count(which)
                # without a checkpoint: show fails, everything is changed
                if h.show() is not None:
                    if fail("C19", "checkpoint show succeeds after the checkpoint was deleted"):
                        return
                # --begin / --end are only consulted when a checkpoint exists
                extra = ["-b", rng.pick(h.shas)] if rng.chance(1, 2) else []
                rc2, j2, out2, err2 = r.mono("analyze", *extra)
                allt = sorted(t["path"] for t in TARGETS)
                if rc2 != 0 or j2.get("checkpointed") is not False or sorted(j2.get("targets", [])) != allt:
                    if fail("C19", "without a checkpoint analyze does not report every target", got=j2):
                        return
                if rng.chance(1, 3):
                    r.clear_traces()
                    rc3, j3, out3, err3 = r.mono("run", "-c", "build", *extra)
                    started = sorted(t["target"] for t in r.traces())
                    if rc3 != 0 or started != allt:
                        if fail("C19", "without a checkpoint run does not cover every target", started=started):
                            return
                rep.nontrivial_case({"seed": seed, "step": step, "k": "nockpt"})
            else:
                if do_query(step):
                    return
        rep.count("histories")
        rep.sample({"seed": seed, "tail_of_history": h.log[-8:]})
    finally:
        h.done()


def shown_differs(h, last):
    return last is not None and real_ck(h.show()) != last


def subprocess_out_delete(r):
    # `out delete` resolves out_dir relative to the current directory: run it from the repository root
    return r.mono("out", "delete", "--all")


def huge_pending_case(seed, prop, rep):
    """thousands of uncommitted files with long names recorded by `update --pending`: the stored
    checkpoint is more than a mebibyte; show returns exactly what update returned, nothing is
    flagged, and the checkpoint can still be deleted"""
    rng = scen.Rng(seed)
    r = scen.Repo(TARGETS, git=True)
    case = {"seed": seed, "prop": prop, "mode": "huge_pending"}
    try:
        for t in TARGETS:
            r.install(t["path"], "build")
        r.commit_all("initial")
        n = rng.range(4200, 5200)
        long_dir = "generated-" + "v" * 150
        for t in TARGETS[:2]:
            os.makedirs(os.path.join(r.dir, t["path"], long_dir), exist_ok=True)
        for i in range(n):
            t = TARGETS[i % 2]["path"]
            with open(os.path.join(r.dir, t, long_dir, "file-%05d-%s.txt" % (i, "w" * 40)), "w") as f:
                f.write("g %d\n" % i)
        rc, j, out, err = r.mono("checkpoint", "update", "--pending", timeout=180)
        rep.evaluations += 1
        rep.count("huge_pending_cases")
        if rc != 0 or j is None:
            if prop == "C19":
                rep.oracle_fail({"kind": "checkpoint update failed", "case": case, "rc": rc, "stderr": err[-300:]})
            return
        returned = real_ck(j["checkpoint"])
        rep.count("huge_pending_entries", len(returned["pending"] or {}))
        rc2, j2, out2, err2 = r.mono("checkpoint", "show", timeout=180)
        shown = real_ck((j2 or {}).get("checkpoint")) if rc2 == 0 else None
        if shown != returned:
            if prop == "C19":
                rep.oracle_fail({"kind": "checkpoint show is not what the update returned", "case": case, "show_rc": rc2,
                                 "stderr": err2[-300:], "pending_entries": len(returned["pending"] or {}), "stored_bytes_about": len(out)})
            else:
                rep.count("violations_of_C19")
            return
        # with a modest limit on open files, as in a container or under a build system
        import resource
        import subprocess as _sp

        def low_nofile():
            soft, hard = resource.getrlimit(resource.RLIMIT_NOFILE)
            resource.setrlimit(resource.RLIMIT_NOFILE, (min(256, hard), hard))
        pr = _sp.run([scen.MONORAIL, "-f", r.cfg_path, "analyze", "--changes"], cwd=r.dir, env=r.env(), stdin=_sp.DEVNULL,
                     stdout=_sp.PIPE, stderr=_sp.PIPE, timeout=300, preexec_fn=low_nofile)
        rc3, err3 = pr.returncode, pr.stderr.decode("utf-8", "replace")
        try:
            j3 = json.loads(pr.stdout.decode("utf-8", "replace").strip().split("\n")[-1]) if pr.stdout.strip() else None
        except ValueError:
            j3 = None
        if rc3 != 0 or j3 is None or j3.get("targets") or j3.get("changes"):
            if prop == "C02":
                rep.oracle_fail({"kind": "reported changes are not exactly the difference from the checkpoint", "case": case, "rc": rc3,
                                 "reported": len((j3 or {}).get("changes", [])), "expected": 0, "stderr": err3[-300:]})
            elif prop == "C07":
                rep.oracle_fail({"kind": "something is still changed right after checkpoint update --pending", "case": case, "rc": rc3,
                                 "targets": (j3 or {}).get("targets"), "stderr": err3[-300:]})
            else:
                rep.count("violations_of_C07")
            return
        rc4, j4, out4, err4 = r.mono("checkpoint", "delete")
        if rc4 != 0 and prop == "C19":
            rep.oracle_fail({"kind": "checkpoint delete failed", "case": case, "rc": rc4, "stderr": err4[-300:]})
            return
        rep.nontrivial_case(case)
    finally:
        r.done()


def linked_config_case(seed, prop, rep):
    """the configuration file is a symbolic link to a file kept in another git repository (a shared
    configuration repository linked into the monorepo root). The work path is the directory of the
    path given with -f: `update` records the HEAD of *this* repository, `show` returns it, and after
    `delete` nothing is checkpointed."""
    import shutil
    import subprocess as _sp
    rng = scen.Rng(seed)
    r = scen.Repo(TARGETS, git=True)
    import tempfile
    other = tempfile.mkdtemp(prefix="cfgrepo-", dir=scen.scratch_root())
    case = {"seed": seed, "prop": prop, "mode": "linked_config"}

    def bad(kind, **kw):
        if prop == "C19":
            rep.oracle_fail(dict({"kind": kind, "case": case}, **kw))
        else:
            rep.count("violations_of_C19")

    try:
        for a in (["init", "-q", "-b", "main"], ["config", "user.email", "v@example.com"], ["config", "user.name", "v"],
                  ["config", "commit.gpgsign", "false"]):
            _sp.run(["git"] + a, cwd=other, check=True, stdout=_sp.DEVNULL, stderr=_sp.DEVNULL)
        shutil.move(r.cfg_path, os.path.join(other, "Monorail.json"))
        for a in (["add", "-A"], ["commit", "-q", "-m", "shared configuration"]):
            _sp.run(["git"] + a, cwd=other, check=True, stdout=_sp.DEVNULL, stderr=_sp.DEVNULL)
        os.symlink(os.path.join(other, "Monorail.json"), r.cfg_path)
        for t in TARGETS:
            r.install(t["path"], "build")
        r.commit_all("initial")
        allt = sorted(t["path"] for t in TARGETS)
        for k in range(rng.range(2, 4)):
            t = rng.pick(TARGETS)["path"]
            with open(os.path.join(r.dir, t, "f%d.txt" % k), "w") as f:
                f.write("edit %d\n" % k)
            head = r.commit_all("c%d" % k)
            rc, j, out, err = r.mono("checkpoint", "update")
            rep.evaluations += 1
            rep.count("linked_config_updates")
            if rc != 0 or j is None:
                return bad("checkpoint update failed", rc=rc, stderr=err[-300:], detail="Monorail.json is a symbolic link into another git repository")
            returned = real_ck(j["checkpoint"])
            if returned["id"] != head:
                return bad("update without --id did not record the commit HEAD resolves to", recorded=returned["id"], head=head,
                           detail="Monorail.json is a symbolic link into another git repository, whose HEAD is a different commit")
            rc2, j2, out2, err2 = r.mono("checkpoint", "show")
            if rc2 != 0 or real_ck((j2 or {}).get("checkpoint")) != returned:
                return bad("checkpoint show is not what the update returned", show_rc=rc2, stderr=err2[-300:])
        rc, j, out, err = r.mono("checkpoint", "delete")
        rc2, j2, out2, err2 = r.mono("checkpoint", "show")
        if rc != 0 or rc2 == 0:
            return bad("checkpoint show succeeds after delete", delete_rc=rc, show_rc=rc2)
        rc3, j3, out3, err3 = r.mono("analyze")
        if rc3 != 0 or j3 is None or j3.get("checkpointed") is not False or sorted(j3.get("targets", [])) != allt:
            return bad("without a checkpoint analyze does not report every target", rc=rc3, answer=j3, stderr=err3[-300:])
        rep.nontrivial_case(case)
    finally:
        shutil.rmtree(other, ignore_errors=True)
        r.done()


def large_pending_case(seed, prop, rep):
    """pending files of several mebibytes (read in more than one piece by any reader): the checksum
    `update --pending` records is the SHA-256 of the whole file, right after the update nothing is
    changed, and a later edit anywhere in the file - in particular far behind its beginning - is
    reported again"""
    rng = scen.Rng(seed)
    r = scen.Repo(TARGETS, git=True)
    case = {"seed": seed, "prop": prop, "mode": "large_pending"}

    def changes():
        rc, j, out, err = r.mono("analyze", "--changes", timeout=180)
        if rc != 0 or j is None:
            return None, err
        return sorted(c["path"] for c in j.get("changes", [])), err

    def bad(p, kind, **kw):
        if prop == p:
            rep.oracle_fail(dict({"kind": kind, "case": case}, **kw))
        else:
            rep.count("violations_of_" + p)

    try:
        for t in TARGETS:
            r.install(t["path"], "build")
        sizes = [2 * 1024 * 1024 + 1, 3 * 1024 * 1024 + rng.range(0, 5000), 9 * 1024 * 1024 + rng.range(0, 5000), 2 * 1024 * 1024, 70000]
        tracked = os.path.join("app", "tracked-large.bin")
        with open(os.path.join(r.dir, tracked), "wb") as f:
            f.write(b"t" * 1000)
        r.commit_all("initial")
        files = {}
        for k, n in enumerate(sizes):
            p = os.path.join(["app", "lib", "app2"][k % 3], "large-%d.bin" % k)
            files[p] = n
        files[tracked] = sizes[1] + 17
        for p, n in files.items():
            block = hashlib.sha256(("%d %s" % (seed, p)).encode()).digest() * 2048      # 64 KiB
            with open(os.path.join(r.dir, p), "wb") as f:
                f.write((block * (n // len(block) + 1))[:n])
        rc, j, out, err = r.mono("checkpoint", "update", "--pending", timeout=180)
        rep.evaluations += 1
        rep.count("large_pending_cases")
        if rc != 0 or j is None:
            return bad("C19", "checkpoint update failed", rc=rc, stderr=err[-300:])
        pend = (j["checkpoint"].get("pending") or {})
        for p in files:
            want = sha256_file(os.path.join(r.dir, p))
            if pend.get(p) != want:
                return bad("C02", "a pending entry does not carry the SHA-256 of its file", path=p, size=files[p], recorded=pend.get(p), sha256=want)
        got, err = changes()
        if got is None or got:
            return bad("C07", "something is still changed right after checkpoint update --pending", reported=got, stderr=err[-300:])
        # same size, one byte changed far behind the beginning; then an append
        for step in ("edit_tail", "append"):
            for p, n in files.items():
                with open(os.path.join(r.dir, p), "r+b") as f:
                    if step == "edit_tail":
                        f.seek(n - 1 - rng.range(0, min(n - 1, 4000)))
                        b = f.read(1)
                        f.seek(-1, 1)
                        f.write(bytes([b[0] ^ 0x55]))
                    else:
                        f.seek(0, 2)
                        f.write(b"appended\n")
            got, err = changes()
            if got != sorted(files):
                return bad("C02", "reported changes are not exactly the difference from the checkpoint", step=step,
                           reported=got, expected=sorted(files), sizes=files, stderr=err[-300:])
        rep.nontrivial_case(case)
    finally:
        r.done()


def failed_update_case(seed, prop, rep):
    """an update that fails after its id is known (the pending scan cannot be done) is not an update:
    `show` still returns what the last successful update returned - or fails when there was none,
    in which case analyze still reports checkpointed=false with every target"""
    import socket
    rng = scen.Rng(seed)
    r = scen.Repo(TARGETS, git=True)
    case = {"seed": seed, "prop": prop, "mode": "failed_update"}
    allt = sorted(t["path"] for t in TARGETS)

    def bad(kind, **kw):
        if prop == "C19":
            rep.oracle_fail(dict({"kind": kind, "case": case}, **kw))
        else:
            rep.count("violations_of_C19")

    try:
        for t in TARGETS:
            r.install(t["path"], "build")
        # 1. no commit yet: HEAD is unborn, the id is given, the pending scan needs HEAD
        some_id = hashlib.sha1(b"%d" % seed).hexdigest()
        rc, j, out, err = r.mono("checkpoint", "update", "--id", some_id, "--pending")
        rep.evaluations += 1
        rep.count("failed_update_unborn" if rc != 0 else "update_unborn_with_id_succeeded")
        if rc != 0:
            rc2, j2, _, _ = r.mono("checkpoint", "show")
            if rc2 == 0:
                return bad("a failed checkpoint update changed what checkpoint show returns", before=None, after=real_ck((j2 or {}).get("checkpoint")),
                           detail="no update has succeeded yet")
            rc3, j3, _, err3 = r.mono("analyze")
            if rc3 != 0 or j3 is None or j3.get("checkpointed") is not False or sorted(j3.get("targets", [])) != allt:
                return bad("without a checkpoint analyze does not report every target", rc=rc3, answer=j3, stderr=err3[-300:])
        else:
            r.mono("checkpoint", "delete")
        # 2. a successful update, then one that cannot read a pending path (a tracked file replaced
        #    by a unix socket: listed as modified, cannot be opened)
        r.commit_all("initial")
        with open(os.path.join(r.dir, "app", "extra.txt"), "w") as f:
            f.write("pending %d\n" % seed)
        rc, j, out, err = r.mono("checkpoint", "update", "--pending")
        if rc != 0 or j is None:
            return bad("checkpoint update failed", rc=rc, stderr=err[-300:])
        returned = real_ck(j["checkpoint"])
        head2 = None
        victim = os.path.join(r.dir, "lib", "file.txt")
        with open(os.path.join(r.dir, "app2", "file.txt"), "a") as f:
            f.write("more\n")
        head2 = r.commit_all("second")
        os.remove(victim)
        so = socket.socket(socket.AF_UNIX)
        cwd = os.getcwd()
        try:
            os.chdir(os.path.dirname(victim))       # sun_path is short: bind by relative name
            so.bind(os.path.basename(victim))
        finally:
            os.chdir(cwd)
        rc, j, out, err = r.mono("checkpoint", "update", "--pending")
        so.close()
        rep.evaluations += 1
        rep.count("failed_update_unreadable" if rc != 0 else "update_with_socket_succeeded")
        if rc != 0:
            rc2, j2, _, err2 = r.mono("checkpoint", "show")
            shown = real_ck((j2 or {}).get("checkpoint")) if rc2 == 0 else None
            if shown != returned:
                return bad("a failed checkpoint update changed what checkpoint show returns", before=returned, after=shown,
                           detail="the update failed while reading a pending path; HEAD had moved to %s" % head2)
        rep.nontrivial_case(case)
    finally:
        r.done()


def main():
    args = scen.parse_args(sys.argv)
    prop = args["prop"]
    t0 = time.time()
    rep = scen.Report()
    model = scen.Model()
    cases = []
    special = []
    for c in scen.load_corpus(args["corpus"], prop):
        cc = c.get("case", c)
        if cc.get("mode") == "linked_config":
            special.append((linked_config_case, cc["seed"]))
        elif cc.get("mode") == "huge_pending":
            special.append((huge_pending_case, cc["seed"]))
        elif cc.get("mode") == "failed_update":
            special.append((failed_update_case, cc["seed"]))
        elif cc.get("mode") == "large_pending":
            special.append((large_pending_case, cc["seed"]))
        elif "seed" in cc:
            cases.append((cc["seed"], cc.get("length", 25)))
    rng = scen.Rng(args["seed"])
    n = (200 if args["tier"] == "thorough" else 40) * args["budget"]
    for _ in range(n):
        cases.append((rng.next(), rng.range(10, 30) if args["tier"] == "quick" else rng.range(15, 80)))
    scen.run_cases(lambda c: run_history(c[0], prop, model, rep, c[1]), cases, rep, 12)
    special = [c for k, c in enumerate(special) if c not in special[:k]]
    scen.run_cases(lambda c: c[0](c[1], prop, rep), special, rep, 2)
    if args["budget"] > 0 and prop in ("C19", "C07", "C02"):
        scen.run_cases(lambda sd: huge_pending_case(sd, prop, rep), [rng.next() for _ in range(3 if args["tier"] == "thorough" else 1)], rep, 2)
    if args["budget"] > 0 and prop in ("C02", "C07"):
        scen.run_cases(lambda sd: large_pending_case(sd, prop, rep), [rng.next() for _ in range(3 if args["tier"] == "thorough" else 1)], rep, 2)
    if args["budget"] > 0 and prop == "C19":
        scen.run_cases(lambda sd: failed_update_case(sd, prop, rep), [rng.next() for _ in range(6 if args["tier"] == "thorough" else 2)], rep, 2)
        scen.run_cases(lambda sd: linked_config_case(sd, prop, rep), [rng.next() for _ in range(6 if args["tier"] == "thorough" else 2)], rep, 2)
    scen.finish(args, rep, t0, model)


if __name__ == "__main__":
    main()
