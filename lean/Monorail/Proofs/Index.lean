import Monorail.Model.Index
import Monorail.Proofs.Path
/-! Lemmas about `Index::new`'s adjacency construction. -/
namespace Monorail

/-- well-formed configuration: what `Index::new` accepts (distinct labels) with normal target paths -/
structure WF (cfg : Config) : Prop where
  nodup : (cfg.map (·.path)).Nodup
  normal : ∀ t ∈ cfg, Normal t.path

/-- well-formed configuration when target paths may be written with one trailing separator:
no two targets name the same directory, and every named directory is a normal path -/
structure WFD (cfg : Config) : Prop where
  nodup : (cfg.map (fun t => dirOf t.path)).Nodup
  normal : ∀ t ∈ cfg, Normal (dirOf t.path)

theorem WF.toWFD {cfg : Config} (h : WF cfg) : WFD cfg := by
  have hmap : cfg.map (fun t => dirOf t.path) = cfg.map (·.path) :=
    List.map_congr_left (fun t ht => dirOf_normal (h.normal t ht))
  exact ⟨by rw [hmap]; exact h.nodup, fun t ht => by rw [dirOf_normal (h.normal t ht)]; exact h.normal t ht⟩

theorem WFD.nodupPath {cfg : Config} (h : WFD cfg) : (cfg.map (·.path)).Nodup := by
  have : cfg.map (fun t => dirOf t.path) = (cfg.map (·.path)).map dirOf := by simp
  have hn := h.nodup
  rw [this] at hn
  exact List.Pairwise.of_map dirOf (fun a b hab heq => hab (by rw [heq])) hn

theorem nodup_map_getElem_inj {α β : Type} {f : α → β} {l : List α} (h : (l.map f).Nodup)
    {i j : Nat} {a b : α} (hi : l[i]? = some a) (hj : l[j]? = some b) (heq : f a = f b) : i = j := by
  induction l generalizing i j with
  | nil => simp at hi
  | cons x xs ih =>
    simp only [List.map_cons, List.nodup_cons, List.mem_map, not_exists, not_and] at h
    cases i with
    | zero =>
      cases j with
      | zero => rfl
      | succ j =>
        simp at hi; subst hi
        simp only [List.getElem?_cons_succ] at hj
        exact absurd heq.symm (h.1 b (List.mem_of_getElem? hj))
    | succ i =>
      cases j with
      | zero =>
        simp at hj; subst hj
        simp only [List.getElem?_cons_succ] at hi
        exact absurd heq (h.1 a (List.mem_of_getElem? hi))
      | succ j =>
        simp only [List.getElem?_cons_succ] at hi hj
        rw [ih h.2 hi hj]

theorem mem_insertUniq {x y : Nat} {l : List Nat} : y ∈ insertUniq x l ↔ y = x ∨ y ∈ l := by
  induction l with
  | nil => simp [insertUniq]
  | cons a as ih =>
    simp only [insertUniq]
    split
    · simp
    · split
      · rename_i h; subst h; simp
      · rw [List.mem_cons, ih, List.mem_cons]; exact or_left_comm

theorem mem_sortDedup {y : Nat} {l : List Nat} : y ∈ sortDedup l ↔ y ∈ l := by
  induction l with
  | nil => simp [sortDedup]
  | cons a as ih =>
    simp only [sortDedup, List.foldr_cons, mem_insertUniq, List.mem_cons] at ih ⊢
    rw [ih]

theorem insertUniq_sorted {x : Nat} {l : List Nat} (h : l.Pairwise (· < ·)) :
    (insertUniq x l).Pairwise (· < ·) := by
  induction l with
  | nil => simp [insertUniq]
  | cons a as ih =>
    simp only [insertUniq]
    rw [List.pairwise_cons] at h
    split
    · rename_i hxa
      rw [List.pairwise_cons]
      refine ⟨?_, List.pairwise_cons.mpr h⟩
      intro b hb
      rcases List.mem_cons.mp hb with rfl | hb
      · exact hxa
      · exact Nat.lt_trans hxa (h.1 b hb)
    · split
      · exact List.pairwise_cons.mpr h
      · rename_i h1 h2
        rw [List.pairwise_cons]
        refine ⟨?_, ih h.2⟩
        intro b hb
        rcases mem_insertUniq.mp hb with rfl | hb
        · omega
        · exact h.1 b hb

theorem sortDedup_sorted (l : List Nat) : (sortDedup l).Pairwise (· < ·) := by
  induction l with
  | nil => simp [sortDedup]
  | cons a as ih => exact insertUniq_sorted ih

theorem indexOf?_some {cfg : Config} {p : Path} {j : Nat} (h : indexOf? cfg p = some j) :
    ∃ U, cfg[j]? = some U ∧ U.path = p := by
  induction cfg generalizing j with
  | nil => simp [indexOf?] at h
  | cons t ts ih =>
    simp only [indexOf?] at h
    split at h
    · rename_i hp
      cases h
      exact ⟨t, by simp, hp⟩
    · cases hx : indexOf? ts p with
      | none => simp [hx] at h
      | some k =>
        simp [hx] at h
        subst h
        obtain ⟨U, hU, hUp⟩ := ih hx
        exact ⟨U, by simpa using hU, hUp⟩

theorem indexOf?_of_nodup {cfg : Config} (hnd : (cfg.map (·.path)).Nodup) {j : Nat} {U : Target}
    (hU : cfg[j]? = some U) : indexOf? cfg U.path = some j := by
  induction cfg generalizing j with
  | nil => simp at hU
  | cons t ts ih =>
    simp only [List.map_cons, List.nodup_cons] at hnd
    cases j with
    | zero =>
      simp at hU; subst hU; simp [indexOf?]
    | succ j =>
      simp only [List.getElem?_cons_succ] at hU
      have hmem : U ∈ ts := List.mem_of_getElem? hU
      have hne : t.path ≠ U.path := by
        intro heq
        exact hnd.1 (by rw [heq]; exact List.mem_map_of_mem hmem)
      simp [indexOf?, hne, ih hnd.2 hU]

theorem mem_hitNodes {cfg : Config} (hnd : (cfg.map (·.path)).Nodup) {q self : Path} {j : Nat} :
    j ∈ hitNodes cfg q self ↔ ∃ U, cfg[j]? = some U ∧ hit U.path q = true ∧ U.path ≠ self := by
  simp only [hitNodes, searchTargets, List.mem_filterMap, List.mem_filter, List.mem_map,
    decide_eq_true_eq]
  constructor
  · rintro ⟨k, ⟨⟨⟨V, _, rfl⟩, hh⟩, hs⟩, hidx⟩
    obtain ⟨U, hU, hUp⟩ := indexOf?_some hidx
    exact ⟨U, hU, by rw [hUp]; exact hh, by rw [hUp]; exact hs⟩
  · rintro ⟨U, hU, hh, hs⟩
    exact ⟨U.path, ⟨⟨⟨U, List.mem_of_getElem? hU, rfl⟩, hh⟩, hs⟩, indexOf?_of_nodup hnd hU⟩

end Monorail
