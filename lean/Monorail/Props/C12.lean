import Monorail.Proofs.Store
import Mathlib.Data.List.Induction
import Monorail.Generated.Consts
/-!
# C12 — latest-run addressing and bounded retention over any run history
-/
namespace Monorail

/-- the complete description of the store after any history of completed runs -/
theorem history_spec (max : Nat) (hmax : 0 < max) (rs : List Run) :
    (history max rs).tmp = none ∧
    (history max rs).pointer = (if rs.length = 0 then none else some ((rs.length - 1) % max + 1)) ∧
    (∀ j (hj : j < rs.length), rs.length ≤ j + max →
      (history max rs).slots (j % max + 1) = some (slotOfRun rs[j])) ∧
    (∀ i, (i = 0 ∨ i > min rs.length max) → (history max rs).slots i = none) := by
  induction rs using List.reverseRecOn with
  | nil => simp [history, emptyStore]
  | append_singleton rs r ih =>
    obtain ⟨ih1, ih2, ih3, ih4⟩ := ih
    have hhist : history max (rs ++ [r]) = doRun max (history max rs) r := by
      simp [history, List.foldl_append]
    obtain ⟨d1, d2, d3, d4⟩ := doRun_spec max (history max rs) r
    have hnext : nextId (history max rs).pointer max = rs.length % max + 1 := by
      rw [ih2]; exact nextId_after max hmax rs.length
    rw [hnext] at d1 d3 d4
    rw [hhist]
    have hlt : rs.length % max < max := Nat.mod_lt _ hmax
    have hle : rs.length % max ≤ rs.length := Nat.mod_le _ _
    refine ⟨d2, ?_, ?_, ?_⟩
    · rw [d1]; simp
    · intro j hj hret
      simp only [List.length_append, List.length_singleton] at hj hret
      by_cases hjn : j = rs.length
      · subst hjn
        rw [d3]; simp
      · have hj' : j < rs.length := by omega
        have hne : j % max + 1 ≠ rs.length % max + 1 := by
          have := mod_ne_of_close hj' (by omega : rs.length < j + max)
          omega
        rw [d4 _ hne, ih3 j hj' (by omega)]
        simp [List.getElem_append_left hj']
    · intro i hi
      simp only [List.length_append, List.length_singleton] at hi
      have hne : i ≠ rs.length % max + 1 := by
        rcases hi with h | h
        · omega
        · have : min (rs.length + 1) max ≥ rs.length % max + 1 := by
            simp only [Nat.le_min]; omega
          omega
      rw [d4 i hne]
      apply ih4
      rcases hi with h | h
      · exact Or.inl h
      · right
        have : min rs.length max ≤ min (rs.length + 1) max := by
          simp only [Nat.le_min]; constructor
          · exact Nat.le_trans (Nat.min_le_left _ _) (Nat.le_succ _)
          · exact Nat.min_le_right _ _
        omega

/-- **C12 (pointer).** After `n > 0` runs the pointer names slot `((n-1) mod max) + 1`. -/
theorem c12_ptr (max : Nat) (hmax : 0 < max) (rs : List Run) (hne : rs ≠ []) :
    (history max rs).pointer = some ((rs.length - 1) % max + 1) := by
  have := (history_spec max hmax rs).2.1
  have hl : rs.length ≠ 0 := by simpa using hne
  simpa [hl] using this

/-- **C12 (latest run).** `result show` returns the document of the most recent completed run and
`log show` exactly that run's logs — nothing is left over from an older run that used the same
slot — for every history and every `max_retained_runs ≥ 1`. -/
theorem c12_latest (max : Nat) (hmax : 0 < max) (rs : List Run) (r : Run) :
    resultShow (history max (rs ++ [r])) = some r.doc ∧
    logShow (history max (rs ++ [r])) none = some (slotOfRun r).logs := by
  obtain ⟨_, h2, h3, _⟩ := history_spec max hmax (rs ++ [r])
  have hlen : (rs ++ [r]).length = rs.length + 1 := by simp
  have hp : (history max (rs ++ [r])).pointer = some (rs.length % max + 1) := by
    rw [h2, hlen]; simp
  have hs := h3 rs.length (by simp) (by rw [hlen]; omega)
  have hget : (rs ++ [r])[rs.length]'(by simp) = r := by simp
  rw [hget] at hs
  constructor
  · simp [resultShow, hp, hs, slotOfRun]
  · simp [logShow, hp, hs]

/-- **C12 (retained runs).** Each of the last `max_retained_runs` runs is still addressable by its
slot id, with exactly its own result and logs. -/
theorem c12_retained (max : Nat) (hmax : 0 < max) (rs : List Run) (j : Nat) (hj : j < rs.length)
    (hret : rs.length ≤ j + max) :
    logShow (history max rs) (some (j % max + 1)) = some (slotOfRun rs[j]).logs ∧
    (history max rs).slots (j % max + 1) = some (slotOfRun rs[j]) := by
  have hs := (history_spec max hmax rs).2.2.1 j hj hret
  exact ⟨by simp [logShow, hs], hs⟩

/-- **C12 (bounded retention).** Only slot ids `1 … max_retained_runs` ever exist. -/
theorem c12_bound (max : Nat) (hmax : 0 < max) (rs : List Run) (i : Nat)
    (h : (history max rs).slots i ≠ none) : 1 ≤ i ∧ i ≤ max := by
  have h4 := (history_spec max hmax rs).2.2.2 i
  constructor
  · cases i with
    | zero => exact absurd (h4 (Or.inl rfl)) h
    | succ k => omega
  · have hle : i ≤ min rs.length max := by
      cases Nat.lt_or_ge (min rs.length max) i with
      | inl hlt => exact absurd (h4 (Or.inr hlt)) h
      | inr hge => exact hge
    exact Nat.le_trans hle (Nat.min_le_right _ _)

/-- **C12 (the limit may change between runs).** Whatever the stored pointer is - in particular one
left behind by a larger limit - the slot the next run uses lies within the current limit, and a
pointer at or beyond the limit wraps to slot 1 (it does not keep growing). -/
theorem c12_next_within (pointer : Option Nat) (max : Nat) (hmax : 0 < max) :
    1 ≤ nextId pointer max ∧ nextId pointer max ≤ max ∧
    (∀ p, pointer = some p → max ≤ p → nextId pointer max = 1) := by
  simp only [nextId]
  refine ⟨by omega, ?_, ?_⟩
  · by_cases h : pointer.getD 0 ≥ max
    · simp [h]; omega
    · simp [h]; omega
  · intro p hp hle
    subst hp
    simp [hle]

example : nextId (some 4) 2 = 1 ∧ nextId (some 1) 2 = 2 ∧ nextId none 2 = 1 := by decide

/-- the default `max_retained_runs` the code uses today is positive -/
theorem c12_default_pos : 0 < Consts.defaultMaxRetainedRuns := by decide

/-! ## Non-vacuity: 5 runs with `max_retained_runs = 2`, different logs per run -/

def exRuns : List Run :=
  [⟨10, [(1, 100)]⟩, ⟨20, [(1, 200), (2, 201)]⟩, ⟨30, []⟩, ⟨40, [(2, 400)]⟩, ⟨50, [(1, 500)]⟩]

example : (history 2 exRuns).pointer = some 1 ∧ resultShow (history 2 exRuns) = some 50 ∧
    logShow (history 2 exRuns) none = some [(1, .full 500)] ∧
    logShow (history 2 exRuns) (some 2) = some [(2, .full 400)] ∧
    (history 2 exRuns).slots 3 = none := by decide

end Monorail
