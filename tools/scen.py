"""Scenario library: runs the real `monorail` binary (built from /repo's working tree with the
verification hooks compiled in) inside scratch git repositories whose every command is a hard link
to `mrhelper`, and talks to the Lean driver over the JSON line protocol.

Nothing is kept under /tmp; scratch lives under $VERIF_SCRATCH (default /var/tmp) and is removed
as each scenario finishes."""
import json
from concurrent.futures import ThreadPoolExecutor
import os
import random
import shutil
import signal
import socket
import subprocess
import threading
import time
import hashlib

VERIF = os.path.join(os.path.dirname(os.path.abspath(__file__)), "..")
HARNESS = os.path.join(VERIF, "harness", "target", "debug")
MONORAIL = os.environ.get("VERIF_MONORAIL", os.path.join(HARNESS, "monorail"))
HELPER = os.path.join(HARNESS, "mrhelper")
MODEL = os.path.join(VERIF, "lean", ".lake", "build", "bin", "mrmodel")
SCRATCH_BASE = os.environ.get("VERIF_SCRATCH", "/var/tmp")

_port_lock = threading.Lock()
_next_port = [20000 + (os.getpid() % 350) * 100]


def free_port_pair():
    """two consecutive free loopback ports (lock, log), probed before use"""
    with _port_lock:
        for _ in range(2000):
            p = _next_port[0]
            _next_port[0] += 2
            if _next_port[0] > 60000:
                _next_port[0] = 20000
            ok = True
            for q in (p, p + 1):
                s = socket.socket()
                try:
                    s.bind(("127.0.0.1", q))
                except OSError:
                    ok = False
                finally:
                    s.close()
            if ok:
                return p, p + 1
    raise RuntimeError("no free ports")


class Rng:
    """SplitMix64, same as the Rust harness: every choice derives from the seed"""

    def __init__(self, seed):
        self.s = (seed ^ 0x9E3779B97F4A7C15) & 0xFFFFFFFFFFFFFFFF

    def next(self):
        self.s = (self.s + 0x9E3779B97F4A7C15) & 0xFFFFFFFFFFFFFFFF
        z = self.s
        z = ((z ^ (z >> 30)) * 0xBF58476D1CE4E5B9) & 0xFFFFFFFFFFFFFFFF
        z = ((z ^ (z >> 27)) * 0x94D049BB133111EB) & 0xFFFFFFFFFFFFFFFF
        return z ^ (z >> 31)

    def below(self, n):
        return self.next() % n

    def range(self, lo, hi):
        return lo + self.below(hi - lo + 1)

    def chance(self, num, den):
        return self.below(den) < num

    def pick(self, seq):
        return seq[self.below(len(seq))]

    def shuffle(self, v):
        for i in range(len(v) - 1, 0, -1):
            j = self.below(i + 1)
            v[i], v[j] = v[j], v[i]

    def fork(self):
        return Rng(self.next())


class Model:
    """client of the Lean driver: a small pool of driver processes (the driver is stateless between
    requests), so that one expensive request does not hold up every scenario thread"""

    POOL = 6

    def __init__(self):
        self.procs = [subprocess.Popen([MODEL], stdin=subprocess.PIPE, stdout=subprocess.PIPE, text=True, bufsize=1)
                      for _ in range(self.POOL)]
        self.locks = [threading.Lock() for _ in self.procs]
        self.count_lock = threading.Lock()
        self.requests = 0
        self.next = 0

    def ask(self, req):
        with self.count_lock:
            self.requests += 1
            start = self.next
            self.next = (self.next + 1) % len(self.procs)
        # the first idle driver, else wait for the one whose turn it is
        idx = None
        for k in range(len(self.procs)):
            i = (start + k) % len(self.procs)
            if self.locks[i].acquire(blocking=False):
                idx = i
                break
        if idx is None:
            idx = start
            self.locks[idx].acquire()
        try:
            p = self.procs[idx]
            p.stdin.write(json.dumps(req) + "\n")
            p.stdin.flush()
            line = p.stdout.readline()
        finally:
            self.locks[idx].release()
        if not line:
            raise RuntimeError("model driver died on %s" % json.dumps(req)[:400])
        resp = json.loads(line)
        if "error" in resp:
            raise RuntimeError("model driver error %s for %s" % (resp["error"], json.dumps(req)[:600]))
        return resp

    def close(self):
        for p in self.procs:
            try:
                p.kill()
                p.wait()
            except OSError:
                pass


_scratch_root = None
_scratch_n = [0]


def scratch_root():
    global _scratch_root
    with _port_lock:
        if _scratch_root is None:
            r = os.path.join(SCRATCH_BASE, "mrverif-py.%d" % os.getpid())
            shutil.rmtree(r, ignore_errors=True)
            os.makedirs(r)
            _scratch_root = r
    return _scratch_root


def cleanup_scratch():
    if _scratch_root:
        shutil.rmtree(_scratch_root, ignore_errors=True)


def target_hash(path):
    return hashlib.sha256(path.encode()).hexdigest()


class Repo:
    """A scratch repository with a Monorail.json, target directories and helper commands."""

    def __init__(self, targets, max_retained_runs=None, sequences=None, git=True, extra_cfg=None, out_dir=None):
        root = scratch_root()
        with _port_lock:
            _scratch_n[0] += 1
            n = _scratch_n[0]
        self.dir = os.path.join(root, "r%d" % n)
        os.makedirs(self.dir)
        self.trace_dir = os.path.join(scratch_root(), "t%d" % n)
        os.makedirs(self.trace_dir)
        self.plan_file = os.path.join(scratch_root(), "p%d.json" % n)
        self.barrier_root = os.path.join(scratch_root(), "b%d" % n)
        self.lock_port, self.log_port = free_port_pair()
        self.targets = targets
        cfg = {"targets": targets, "server": {"lock": {"port": self.lock_port}, "log": {"port": self.log_port}}}
        if max_retained_runs is not None:
            cfg["max_retained_runs"] = max_retained_runs
        if sequences is not None:
            cfg["sequences"] = sequences
        if out_dir is not None:
            cfg["out_dir"] = out_dir
        if extra_cfg:
            cfg.update(extra_cfg)
        self.cfg = cfg
        self.out_dir = os.path.join(self.dir, cfg.get("out_dir", "monorail-out"))
        self.cfg_path = os.path.join(self.dir, "Monorail.json")
        self.write_config()
        for t in targets:
            d = os.path.join(self.dir, t["path"])
            os.makedirs(d, exist_ok=True)
            with open(os.path.join(d, "file.txt"), "w") as f:
                f.write("x\n")
        self.set_plan({})
        if git:
            self.git("init", "-q", "-b", "main")
            self.git("config", "user.email", "v@example.com")
            self.git("config", "user.name", "v")
            self.git("config", "commit.gpgsign", "false")
            with open(os.path.join(self.dir, ".gitignore"), "w") as f:
                f.write("monorail-out/\n")

    def write_config(self, text=None):
        with open(self.cfg_path, "w") as f:
            f.write(text if text is not None else json.dumps(self.cfg))

    def git(self, *args, check=True):
        p = subprocess.run(["git"] + list(args), cwd=self.dir, stdout=subprocess.PIPE, stderr=subprocess.STDOUT, text=True)
        if check and p.returncode != 0:
            raise RuntimeError("git %s failed: %s" % (" ".join(args), p.stdout))
        return p.stdout

    def commit_all(self, msg="c"):
        self.git("add", "-A")
        self.git("commit", "-q", "--allow-empty", "-m", msg)
        return self.git("rev-parse", "HEAD").strip()

    def cmd_dir(self, target):
        for t in self.targets:
            if t["path"] == target and t.get("commands", {}).get("path"):
                return os.path.join(self.dir, t["commands"]["path"])
        return os.path.join(self.dir, target, "monorail", "cmd")

    def install(self, target, command, executable=True, ext="", at=None, symlink=False):
        """make `command` available for `target` (hard link to mrhelper; a copy when not executable;
        a symbolic link to a shared script when `symlink`)"""
        d = at if at else self.cmd_dir(target)
        os.makedirs(d, exist_ok=True)
        dst = os.path.join(d, command + ext)
        if os.path.lexists(dst):
            os.remove(dst)
        if symlink and executable:
            os.symlink(HELPER, dst)
            return dst
        if executable:
            try:
                os.link(HELPER, dst)
            except OSError:
                shutil.copy(HELPER, dst)
        else:
            shutil.copy(HELPER, dst)
            os.chmod(dst, 0o644)
        return dst

    def set_plan(self, plan):
        tmp = self.plan_file + ".tmp"
        with open(tmp, "w") as f:
            json.dump(plan, f)
        os.replace(tmp, self.plan_file)

    def env(self, extra=None):
        e = dict(os.environ)
        e.update({"MRHELPER_ROOT": self.dir, "MRHELPER_TRACE": self.trace_dir, "MRHELPER_PLAN": self.plan_file})
        e.pop("MONORAIL_VERIF_POINTS", None)
        if extra:
            e.update(extra)
        return e

    def popen(self, args, extra_env=None, stdin=None, wrap=None):
        return subprocess.Popen(list(wrap or []) + [MONORAIL, "-f", self.cfg_path] + list(args), cwd=self.dir, env=self.env(extra_env),
                                stdin=stdin if stdin is not None else subprocess.DEVNULL,
                                stdout=subprocess.PIPE, stderr=subprocess.PIPE)

    def mono(self, *args, extra_env=None, timeout=60, input_bytes=None):
        """returns (rc, stdout_json_or_None, stdout_bytes, stderr_text); rc = None on timeout (hang)"""
        p = self.popen(args, extra_env, stdin=subprocess.PIPE if input_bytes is not None else None)
        try:
            out, err = p.communicate(input=input_bytes, timeout=timeout)
        except subprocess.TimeoutExpired:
            p.kill()
            out, err = p.communicate()
            return None, None, out, err.decode("utf-8", "replace")
        j = None
        try:
            j = json.loads(out.decode("utf-8", "replace").strip().split("\n")[-1]) if out.strip() else None
        except ValueError:
            j = None
        return p.returncode, j, out, err.decode("utf-8", "replace")

    def clear_traces(self):
        for f in os.listdir(self.trace_dir):
            try:
                os.remove(os.path.join(self.trace_dir, f))
            except OSError:
                pass
        shutil.rmtree(self.barrier_root, ignore_errors=True)

    def traces(self):
        """helper records of this repository: list of dicts with start (and end, if the helper finished)"""
        recs = {}
        for f in sorted(os.listdir(self.trace_dir)):
            if f.startswith("."):
                continue
            try:
                j = json.load(open(os.path.join(self.trace_dir, f)))
            except (OSError, ValueError):
                continue
            r = recs.setdefault(j["pid"], {})
            r.update(j)
        out = []
        for r in recs.values():
            if "start_ns" in r:
                r["start_ns"] = int(r["start_ns"])
            if "end_ns" in r:
                r["end_ns"] = int(r["end_ns"])
            if "argv" in r:
                r["argv_bytes"] = [bytes.fromhex(a) for a in r["argv"]]
            out.append(r)
        return out

    def snapshot(self, sub=None):
        """content hash of every file under the out dir (or `sub`), for 'performs no action' checks"""
        root = os.path.join(self.out_dir, sub) if sub else self.out_dir
        h = {}
        for dp, _dn, fn in os.walk(root):
            for f in fn:
                p = os.path.join(dp, f)
                try:
                    h[os.path.relpath(p, self.out_dir)] = hashlib.sha256(open(p, "rb").read()).hexdigest()
                except OSError:
                    pass
        return h

    def done(self):
        shutil.rmtree(self.dir, ignore_errors=True)
        shutil.rmtree(self.trace_dir, ignore_errors=True)
        shutil.rmtree(self.barrier_root, ignore_errors=True)
        try:
            os.remove(self.plan_file)
        except OSError:
            pass


def kill_tree(p):
    try:
        p.send_signal(signal.SIGKILL)
    except OSError:
        pass


def reap_helpers(repo, keep=()):
    """kill helper processes a killed monorail left behind (they have the repo dir as cwd prefix);
    `keep`: pids to leave alone (a `log tail` listener that is still relaying)"""
    for pid in os.listdir("/proc"):
        if not pid.isdigit() or int(pid) in keep:
            continue
        try:
            cwd = os.readlink("/proc/%s/cwd" % pid)
            exe = os.readlink("/proc/%s/exe" % pid)
        except OSError:
            continue
        # exactly this repository: "r1" must not match the processes of "r10"
        inside = cwd == repo.dir or cwd.startswith(repo.dir + "/")
        if inside and "mrhelper" not in exe and "monorail" not in exe:
            continue
        if inside:
            try:
                os.kill(int(pid), signal.SIGKILL)
            except OSError:
                pass


def hexs(b):
    return b.hex()


class Report:
    def __init__(self):
        self.evaluations = 0
        self.nontrivial = set()
        self.hist = {}
        self.samples = []
        self.oracle_failures = []
        self.disagreements = []
        self.exhaustive = []
        self.notes = []
        self.lock = threading.Lock()

    def count(self, k, n=1):
        with self.lock:
            self.hist[k] = self.hist.get(k, 0) + n

    def nontrivial_case(self, case):
        with self.lock:
            self.nontrivial.add(hashlib.sha256(json.dumps(case, sort_keys=True).encode()).hexdigest())

    def sample(self, v):
        with self.lock:
            if len(self.samples) < 5:
                self.samples.append(v)

    def oracle_fail(self, d):
        with self.lock:
            self.hist["oracle_failures"] = self.hist.get("oracle_failures", 0) + 1
            if len(self.oracle_failures) < 6:
                self.oracle_failures.append(d)

    def disagree(self, d):
        with self.lock:
            self.hist["disagreements"] = self.hist.get("disagreements", 0) + 1
            if len(self.disagreements) < 6:
                self.disagreements.append(d)

    def to_json(self):
        return {"evaluations": self.evaluations, "distinct_nontrivial": len(self.nontrivial), "hist": self.hist,
                "samples": self.samples, "oracle_failures": self.oracle_failures, "disagreements": self.disagreements,
                "exhaustive": self.exhaustive, "notes": self.notes}


def run_cases(fn, items, rep, workers):
    """evaluate every case on a thread pool; a case whose evaluation raises (the implementation did
    something the scenario code did not foresee, or the machine hiccuped) is retried twice and, if it
    never completes, reported as a correspondence failure with the exception - never as a crash of
    the whole check"""
    import traceback

    def guarded(item):
        last = None
        for attempt in range(3):
            try:
                return fn(item)
            except Exception:            # noqa: BLE001
                last = traceback.format_exc()
                rep.count("case_exception")
                time.sleep(0.2 * (attempt + 1))
        rep.disagree({"kind": "the scenario could not be evaluated: its evaluation raised three times", "case": repr(item)[:300],
                      "exception": last[-1500:]})
        return None
    with ThreadPoolExecutor(max_workers=workers) as ex:
        return list(ex.map(guarded, items))


def parse_args(argv):
    a = {"prop": argv[1].upper(), "seed": 20260930, "tier": "quick", "out": None, "budget": 1, "corpus": os.path.join(VERIF, "corpus"),
         "current": None}
    i = 2
    while i < len(argv):
        k = argv[i]
        if k in ("--seed", "--budget"):
            a[k[2:]] = int(argv[i + 1])
        elif k in ("--tier", "--out", "--corpus", "--current"):
            a[k[2:]] = argv[i + 1]
        i += 2
    return a


def load_corpus(corpus_dir, prop):
    d = os.path.join(corpus_dir, prop)
    out = []
    if os.path.isdir(d):
        for f in sorted(os.listdir(d)):
            if f.endswith(".json"):
                v = json.load(open(os.path.join(d, f)))
                out += v if isinstance(v, list) else [v]
    return out


def finish(args, rep, t0, model=None):
    j = rep.to_json()
    j["seed"] = args["seed"]
    j["tier"] = args["tier"]
    j["wall_s"] = time.time() - t0
    if model:
        j["model_requests"] = model.requests
        model.close()
    cleanup_scratch()
    s = json.dumps(j, indent=1)
    if args["out"]:
        open(args["out"], "w").write(s)
    else:
        print(s)
