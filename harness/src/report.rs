//! What a correspondence run measured; serialised for the `check` driver, which turns it into the
//! evidence file and the verdict.
use serde_json::{json, Value};
use std::collections::{BTreeMap, BTreeSet};
use std::collections::hash_map::DefaultHasher;
use std::hash::{Hash, Hasher};

#[derive(Default)]
pub struct Report {
    pub evaluations: u64,
    pub nontrivial: BTreeSet<u64>,
    pub hist: BTreeMap<String, u64>,
    pub samples: Vec<Value>,
    /// implementation output fails the property oracle: a real violation
    pub oracle_failures: Vec<Value>,
    /// model and implementation differ (property may still hold)
    pub disagreements: Vec<Value>,
    pub exhaustive: Vec<String>,
    pub notes: Vec<String>,
}
impl Report {
    pub fn count(&mut self, key: &str) {
        *self.hist.entry(key.to_string()).or_insert(0) += 1;
    }
    pub fn add(&mut self, key: &str, n: u64) {
        *self.hist.entry(key.to_string()).or_insert(0) += n;
    }
    pub fn nontrivial_case(&mut self, canonical: &Value) {
        let mut h = DefaultHasher::new();
        canonical.to_string().hash(&mut h);
        self.nontrivial.insert(h.finish());
    }
    pub fn sample(&mut self, v: Value) {
        if self.samples.len() < 5 {
            self.samples.push(v);
        }
    }
    pub fn to_json(&self) -> Value {
        json!({
            "evaluations": self.evaluations,
            "distinct_nontrivial": self.nontrivial.len(),
            "hist": self.hist,
            "samples": self.samples,
            "oracle_failures": self.oracle_failures,
            "disagreements": self.disagreements,
            "exhaustive": self.exhaustive,
            "notes": self.notes,
        })
    }
}
