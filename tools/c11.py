#!/usr/bin/env python3
"""C11: every started executable got the documented argv, working directory and resolution.

Real `monorail run` in scratch repositories; each helper records argv (bytes), cwd and argv[0].
The Lean driver computes (a) the model's table (`buildTable`/`getArgs`, mirror of ArgMap) and
(b) the specification (`argvSpec`) from the files this harness wrote; the observation must equal
both. Resolution and working directory are compared with what the harness installed."""
import os
import sys
import time
from concurrent.futures import ThreadPoolExecutor

import rungen
import scen


def one(seed, model, rep, keep=None):
    rng = scen.Rng(seed)
    sc = rungen.RunScenario(rng, max_targets=5)
    repo = sc.build_repo()
    try:
        rc, j, out, err = repo.mono(*sc.argv())
        desc = sc.describe()
        desc["seed"] = seed
        rep.evaluations += 1
        cmds = sc.command_list()
        exp_targets = sc.expected_targets()
        req = {"op": "c11", "useBase": sc.use_base, "argmaps": sc.argmaps, "args": sc.args, "commands": sc.commands,
               "named": sc.named, "targets": exp_targets, "files": sc.argmap_files,
               "query": [[t, c] for c in cmds for t in exp_targets]}
        resp = model.ask(req)
        if rc is None:
            rep.oracle_fail({"kind": "run did not terminate", "scenario": desc})
            return
        if "err" in resp["model"]:
            rep.count("expected_args_error")
            # the documented rule: --args needs exactly one command and one target
            if rc != 2 or "When providing --arg" not in err or repo.traces():
                rep.oracle_fail({"kind": "--args with several commands/targets was not rejected cleanly", "scenario": desc,
                                 "rc": rc, "stderr": err[:300], "started": len(repo.traces())})
            return
        if rc not in (0, 1) or j is None:
            rep.disagree({"kind": "run failed unexpectedly", "scenario": desc, "rc": rc, "stderr": err[:400]})
            return
        traces = repo.traces()
        seen = {}
        for tr in traces:
            key = (tr["command"], tr["target"])
            seen.setdefault(key, []).append(tr)
        nontrivial = False
        for (t, c), margv, sargv in zip([(q[0], q[1]) for q in req["query"]], resp["model"]["ok"], resp["spec"]):
            trs = seen.get((c, t), [])
            rep.count("pairs")
            if not trs:
                continue
            rep.count("started")
            tr = trs[0]
            got = [a.decode("utf-8", "surrogateescape") for a in tr["argv_bytes"]]
            if sargv:
                nontrivial = True
                rep.count("argv_nonempty")
            if got != sargv:
                rep.oracle_fail({"kind": "argv differs from the documented concatenation", "scenario": desc, "target": t,
                                 "command": c, "observed": got, "expected": sargv})
            elif got != margv:
                rep.disagree({"kind": "argv differs from the model table", "scenario": desc, "target": t, "command": c,
                              "observed": got, "model": margv})
            want_cwd = os.path.realpath(os.path.join(repo.dir, t))
            if os.path.realpath(tr["cwd"]) != want_cwd:
                rep.oracle_fail({"kind": "working directory is not the target directory", "scenario": desc, "target": t,
                                 "command": c, "observed": tr["cwd"], "expected": want_cwd})
            exe = sc.expected_exe.get((c, t))
            if exe is None or os.path.realpath(tr["argv0"]) != os.path.realpath(exe):
                rep.oracle_fail({"kind": "wrong executable resolved", "scenario": desc, "target": t, "command": c,
                                 "observed": tr["argv0"], "expected": exe})
        for (c, t), trs in seen.items():
            if t not in exp_targets or c not in cmds:
                rep.oracle_fail({"kind": "an executable outside the plan was started", "scenario": desc, "target": t, "command": c})
        if nontrivial:
            rep.nontrivial_case(desc)
        rep.count("mode_" + ("all" if not sc.named else ("deps" if sc.deps else "named")))
        rep.count("argmaps_%d" % len(sc.argmaps))
        rep.count("args" if sc.args else "no_args")
        rep.count("base" if sc.use_base else "no_base")
        rep.sample({"invocation": sc.argv(), "targets": [t["path"] for t in sc.targets],
                    "observed": {"%s|%s" % k: [a.decode("utf-8", "replace") for a in v[0]["argv_bytes"]] for k, v in list(seen.items())[:4]}})
    finally:
        repo.done()


def main():
    args = scen.parse_args(sys.argv)
    t0 = time.time()
    rep = scen.Report()
    model = scen.Model()
    seeds = []
    for c in scen.load_corpus(args["corpus"], "C11"):
        s = c.get("scenario", c).get("seed")
        if s is not None:
            seeds.append(s)
    rng = scen.Rng(args["seed"])
    n = (1500 if args["tier"] == "thorough" else 200) * args["budget"]
    seeds += [rng.next() for _ in range(n)]
    scen.run_cases(lambda s: one(s, model, rep), seeds, rep, 12)
    scen.finish(args, rep, t0, model)


if __name__ == "__main__":
    main()
