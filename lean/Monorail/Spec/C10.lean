import Monorail.Model.Index
/-! Decidable oracle for C10, evaluated by the driver on the *implementation's* adjacency. -/
namespace Monorail

/-- decidable twin of `DependsOn` -/
def dependsOnB (T U : Target) : Bool :=
  withinB U.path T.path || T.uses.any (fun u => withinB U.path u)

/-- decidable twin of `WF` -/
def wfB (cfg : Config) : Bool := !hasDupPath cfg && cfg.all (fun t => normalB t.path)

/-- the adjacency the specification demands -/
def specDeps (cfg : Config) (i : Nat) : List Nat :=
  match cfg[i]? with
  | none => []
  | some T => (List.range cfg.length).filter (fun j =>
      j != i && (match cfg[j]? with | some U => dependsOnB T U | none => false))

/-- first `(i, j)` on which an observed adjacency (as sets) differs from the specification -/
def c10Mismatch (cfg : Config) (obs : List (List Nat)) : Option (Nat × Nat) :=
  (List.range cfg.length).findSome? (fun i =>
    let o := obs.getD i []
    let s := specDeps cfg i
    match s.find? (fun j => !o.contains j) with
    | some j => some (i, j)
    | none => match o.find? (fun j => !s.contains j) with
      | some j => some (i, j)
      | none => none)

end Monorail
