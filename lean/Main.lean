import Monorail.Driver.C10
import Monorail.Driver.C01
import Monorail.Driver.C03
import Monorail.Driver.C11
import Monorail.Driver.Exec
import Monorail.Driver.Store
import Monorail.Driver.Log
import Monorail.Driver.Git
import Monorail.Driver.Cfg
import Monorail.Driver.Lock
open Lean Monorail.Driver

def dispatch (j : Json) : Except String Json := do
  let op ← getStr j "op"
  match op with
  | "c10" => handleC10 j
  | "c01" => handleC01 j
  | "dag" => handleDag j
  | "c11" => handleC11 j
  | "exec" => handleExec j
  | "store" => handleStore j
  | "reader" => handleReader j
  | "task" => handleTask j
  | "git" => handleGit j
  | "cfgcheck" => handleCfgCheck j
  | "lock" => handleLock j
  | "execcheck" => handleExecCheck j
  | "groups" => handleGroups j
  | "select" => handleSelect j
  | "ping" => pure (Json.mkObj [("pong", true)])
  | _ => throw s!"unknown op {op}"

partial def loop (h : IO.FS.Stream) (out : IO.FS.Stream) : IO Unit := do
  let line ← h.getLine
  if line.isEmpty then return ()
  let resp : Json :=
    match Json.parse line with
    | .error e => Json.mkObj [("error", Json.str s!"parse: {e}")]
    | .ok j => match dispatch j with
      | .ok r => r
      | .error e => Json.mkObj [("error", Json.str e)]
  out.putStrLn resp.compress
  out.flush
  loop h out

def main : IO Unit := do
  loop (← IO.getStdin) (← IO.getStdout)
