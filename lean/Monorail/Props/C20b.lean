import Monorail.Props.C20
import Monorail.Proofs.Task
/-!
# C20 for a whole task: both readers, every schedule, cancellation at any point

Only property theorems and their non-vacuity examples live in this file.
-/
namespace Monorail

/-- **Task composition (repaired `run_task`).** Under every schedule of the two readers' events -
chunks, flush ticks, end of stream and cancellation arriving at each reader at any position - each
reader ends exactly as it would have run alone on its own events: neither an error nor the
completion of one reader can cut the other short. -/
theorem c20_task_independent (ok : Nat → Bool) (co ce : Bool) (evs : List (Side × REv)) :
    (trun ok co ce evs).o = rrun ok co (eventsOf .out evs) ∧
    (trun ok co ce evs).e = rrun ok ce (eventsOf .err evs) := by
  unfold trun rrun
  exact ⟨tfold_o ok evs _, tfold_e ok evs _⟩

/-- **C20 for a task.** With a listener that never fails, under every schedule and wherever the
cancellation falls, what each of the two readers has streamed is block for block what it has handed
to the compressor: every stored line of a cancelled task also reached the listener. -/
theorem c20_task_blocks (evs : List (Side × REv)) :
    (trun (fun _ => true) true true evs).o.blocks = payloads (trun (fun _ => true) true true evs).o.out ∧
    (trun (fun _ => true) true true evs).e.blocks = payloads (trun (fun _ => true) true true evs).e.out := by
  obtain ⟨ho, he⟩ := c20_task_independent (fun _ => true) true true evs
  rw [ho, he]
  exact ⟨c20_blocks _, c20_blocks _⟩

/-! ## Non-vacuity and the legacy counter-example (defect D12) -/

/-- stderr has a complete line pending and stdout half a line when both are cancelled, stdout first -/
def exSched : List (Side × REv) :=
  [(.err, .chunk [101, 10]), (.out, .chunk [111]), (.out, .cancel), (.err, .cancel)]

example :
    let s := trun (fun _ => true) true true exSched
    s.o.blocks = [[[111]]] ∧ s.e.blocks = [[[101, 10]]] ∧
    dataBytes s.o.out = [111] ∧ dataBytes s.e.out = [101, 10] ∧ s.o.done = some false ∧ s.e.done = some false := by
  decide

/-- LEGACY `try_join!` of the three futures: stdout's error drops the stderr reader in the middle of
its final flush - the line is stored, the listener never sees it -/
example :
    let s := trunLegacy (fun _ => true) true true exSched
    dataBytes s.e.out = [101, 10] ∧ s.e.blocks = [] ∧ s.e.blocks ≠ payloads s.e.out := by
  decide

end Monorail
