import Monorail.Props.C09
/-!
# C03 — the code path end to end (visibility walk + in-degree loop)

Kept apart from `Props/C03.lean` because it needs C09's rejection theorem.
-/
namespace Monorail
open Relation

/-- **C03 (the code path, end to end).** Whatever `Index::new`'s depth-first visibility walks from
the requested roots followed by `get_groups`' counter / queue loop return as groups is a partition
of exactly the nodes reachable from the roots, and every such node is in a strictly earlier group
than each node it depends on (`get_groups` order: dependents first; `get_labeled_groups` reverses
it). -/
theorem c03_index_dfs {g : Graph} (hr : InRange g) (roots : List Nat) (hroots : ∀ r ∈ roots, r < g.size)
    (cs : List (List Nat)) (h : indexGroups g roots = .ok cs) :
    cs.flatten.Perm (closure g roots) ∧
    (∀ x, x ∈ cs.flatten ↔ ∃ r ∈ roots, Reach g r x) ∧
    ∀ u ∈ closure g roots, ∀ v ∈ g.out u, Before cs u v := by
  have hk := (c09_index_dfs g hr roots hroots).2 cs h
  obtain ⟨hperm, hord⟩ := c03_kahn hr roots cs hk
  refine ⟨hperm, ?_, hord⟩
  intro x
  rw [hperm.mem_iff, mem_closure g hr roots x]
  constructor
  · rintro ⟨r, hrr, _, hx⟩; exact ⟨r, hrr, hx⟩
  · rintro ⟨r, hrr, hx⟩; exact ⟨r, hrr, hroots r hrr, hx⟩

/-- **C03 (the code path succeeds).** If no node reachable from the roots lies on a cycle, the
walks and the loop succeed. -/
theorem c03_index_dfs_succeeds {g : Graph} (hr : InRange g) (roots : List Nat)
    (hroots : ∀ r ∈ roots, r < g.size) (hac : ∀ v ∈ closure g roots, ¬ Reach1 g v v) :
    ∃ cs, indexGroups g roots = .ok cs := by
  obtain ⟨gs, hgs⟩ := (c09_iff g hr roots).mpr hac
  cases hi : indexGroups g roots with
  | ok cs => exact ⟨cs, rfl⟩
  | error e =>
    cases e
    have := (c09_index_dfs g hr roots hroots).1.mp hi
    rw [hgs] at this
    cases this

/-- a diamond with a tail: the walk flags 0..4, the loop layers them -/
example : indexGroups ⟨[[1, 2], [3], [3], [4], []]⟩ [0] = .ok [[0], [2, 1], [3], [4]] := by decide

end Monorail
