import Monorail.Model.Sort
import Monorail.Model.Path
/-! Generic facts about `sortDedupBy`, and `pathLt` is a strict total order. -/
namespace Monorail

structure StrictOrder {α : Type} (lt : α → α → Bool) : Prop where
  irrefl : ∀ a, lt a a = false
  trans : ∀ a b c, lt a b = true → lt b c = true → lt a c = true
  total : ∀ a b, lt a b = false → a ≠ b → lt b a = true

section
variable {α : Type} [DecidableEq α] {lt : α → α → Bool}

theorem mem_insertBy {x y : α} {l : List α} : y ∈ insertBy lt x l ↔ y = x ∨ y ∈ l := by
  induction l with
  | nil => simp [insertBy]
  | cons a as ih =>
    simp only [insertBy]
    split
    · simp
    · split
      · rename_i h; subst h; simp
      · rw [List.mem_cons, ih, List.mem_cons]; exact or_left_comm

theorem mem_sortDedupBy {y : α} {l : List α} : y ∈ sortDedupBy lt l ↔ y ∈ l := by
  induction l with
  | nil => simp [sortDedupBy]
  | cons a as ih =>
    simp only [sortDedupBy, List.foldr_cons, mem_insertBy, List.mem_cons] at ih ⊢
    rw [ih]

theorem insertBy_sorted (h : StrictOrder lt) {x : α} {l : List α}
    (hs : l.Pairwise (fun a b => lt a b = true)) :
    (insertBy lt x l).Pairwise (fun a b => lt a b = true) := by
  induction l with
  | nil => simp [insertBy]
  | cons a as ih =>
    simp only [insertBy]
    rw [List.pairwise_cons] at hs
    split
    · rename_i hxa
      rw [List.pairwise_cons]
      refine ⟨?_, List.pairwise_cons.mpr hs⟩
      intro b hb
      rcases List.mem_cons.mp hb with rfl | hb
      · exact hxa
      · exact h.trans _ _ _ hxa (hs.1 b hb)
    · split
      · exact List.pairwise_cons.mpr hs
      · rename_i h1 h2
        rw [List.pairwise_cons]
        refine ⟨?_, ih hs.2⟩
        intro b hb
        rcases mem_insertBy.mp hb with rfl | hb
        · exact h.total _ _ (by simpa using h1) h2
        · exact hs.1 b hb

theorem sortDedupBy_sorted (h : StrictOrder lt) (l : List α) :
    (sortDedupBy lt l).Pairwise (fun a b => lt a b = true) := by
  induction l with
  | nil => simp [sortDedupBy]
  | cons a as ih => exact insertBy_sorted h ih

/-- two strictly sorted lists with the same members are equal -/
theorem sorted_ext (h : StrictOrder lt) : ∀ {l1 l2 : List α},
    l1.Pairwise (fun a b => lt a b = true) → l2.Pairwise (fun a b => lt a b = true) →
    (∀ x, x ∈ l1 ↔ x ∈ l2) → l1 = l2 := by
  intro l1
  induction l1 with
  | nil =>
    intro l2 _ _ hm
    cases l2 with
    | nil => rfl
    | cons b t => exact absurd ((hm b).mpr (by simp)) (by simp)
  | cons a t1 ih =>
    intro l2 h1 h2 hm
    cases l2 with
    | nil => exact absurd ((hm a).mp (by simp)) (by simp)
    | cons b t2 =>
      rw [List.pairwise_cons] at h1 h2
      have hab : a = b := by
        by_cases hab : a = b
        · exact hab
        rename_i hne0
        have hne : a ≠ b := hab
        exfalso
        have ha : a ∈ t2 := by
          rcases List.mem_cons.mp ((hm a).mp (by simp)) with h' | h'
          · exact absurd h' hne
          · exact h'
        have hb : b ∈ t1 := by
          rcases List.mem_cons.mp ((hm b).mpr (by simp)) with h' | h'
          · exact absurd h'.symm hne
          · exact h'
        have := h.trans _ _ _ (h1.1 b hb) (h2.1 a ha)
        rw [h.irrefl] at this
        exact Bool.false_ne_true this
      subst hab
      congr 1
      apply ih h1.2 h2.2
      intro x
      constructor
      · intro hx
        rcases List.mem_cons.mp ((hm x).mp (List.mem_cons_of_mem _ hx)) with h' | h'
        · subst h'
          have := h1.1 x hx
          rw [h.irrefl] at this
          exact absurd this Bool.false_ne_true
        · exact h'
      · intro hx
        rcases List.mem_cons.mp ((hm x).mpr (List.mem_cons_of_mem _ hx)) with h' | h'
        · subst h'
          have := h2.1 x hx
          rw [h.irrefl] at this
          exact absurd this Bool.false_ne_true
        · exact h'

end

theorem pathLt_irrefl : ∀ a : Path, pathLt a a = false := by
  intro a
  induction a with
  | nil => rfl
  | cons x xs ih => simp [pathLt, ih]

theorem pathLt_trans : ∀ a b c : Path, pathLt a b = true → pathLt b c = true → pathLt a c = true := by
  intro a
  induction a with
  | nil =>
    intro b c h1 h2
    cases b with
    | nil => simp [pathLt] at h1
    | cons y ys =>
      cases c with
      | nil => simp [pathLt] at h2
      | cons z zs => simp [pathLt]
  | cons x xs ih =>
    intro b c h1 h2
    cases b with
    | nil => simp [pathLt] at h1
    | cons y ys =>
      cases c with
      | nil => simp [pathLt] at h2
      | cons z zs =>
        simp only [pathLt] at h1 h2 ⊢
        by_cases hxy : x < y
        · by_cases hyz : y < z
          · have : x < z := Nat.lt_trans hxy hyz
            simp [this]
          · simp only [hyz, if_false] at h2
            by_cases hzy : z < y
            · simp [hzy] at h2
            · have : y = z := by omega
              subst this
              simp [hxy]
        · simp only [hxy, if_false] at h1
          by_cases hyx : y < x
          · simp [hyx] at h1
          · simp only [hyx, if_false] at h1
            have hxy' : x = y := by omega
            subst hxy'
            by_cases hxz : x < z
            · simp [hxz]
            · simp only [hxz, if_false] at h2 ⊢
              by_cases hzx : z < x
              · simp [hzx] at h2
              · simp only [hzx, if_false] at h2 ⊢
                exact ih _ _ h1 h2

theorem pathLt_total : ∀ a b : Path, pathLt a b = false → a ≠ b → pathLt b a = true := by
  intro a
  induction a with
  | nil =>
    intro b h hne
    cases b with
    | nil => exact absurd rfl hne
    | cons y ys => simp [pathLt] at h
  | cons x xs ih =>
    intro b h hne
    cases b with
    | nil => simp [pathLt]
    | cons y ys =>
      simp only [pathLt] at h ⊢
      by_cases hxy : x < y
      · simp [hxy] at h
      · simp only [hxy, if_false] at h
        by_cases hyx : y < x
        · simp [hyx]
        · simp only [hyx, if_false] at h ⊢
          have : x = y := by omega
          subst this
          simp only [Nat.lt_irrefl, if_false]
          exact ih _ h (fun e => hne (by rw [e]))

theorem pathLt_strict : StrictOrder pathLt := ⟨pathLt_irrefl, pathLt_trans, pathLt_total⟩

end Monorail
