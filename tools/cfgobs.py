#!/usr/bin/env python3
"""C17 / C18: configuration loading.

C17  real `config generate` on generated sources (1-400 targets, up to ~300 KiB), then every API
     before and after each tamper: single-byte edits of the source and of the generated file at
     random and boundary offsets (0, 8191, 8192, 8193, last), truncations, appends, edits of the
     lockfile checksum - with the file's mtime restored half of the time. Untouched => every API
     succeeds; any change => every API fails and performs no action (out dir unchanged, no helper
     started). Expected decisions come from the Lean model (`loadAndCheck`).
C18  one configuration value in many serialisations (compact, pretty, keys shuffled at every level,
     leading / trailing / internal whitespace up to hundreds of KiB, a sweep that puts a multi-byte
     character across every offset around the 8 KiB marks, hundreds of targets): the outputs of
     `config show`, `analyze --target-groups`, `target show -g` must be identical and equal to the
     Lean model's groups."""
import json
import os
import shutil
import sys
import time
from concurrent.futures import ThreadPoolExecutor

import scen

APIS = [["config", "show"], ["target", "show", "-g"], ["analyze", "--target-groups"], ["run", "-c", "build"],
        ["checkpoint", "update"], ["result", "show"], ["log", "show", "--stdout"], ["checkpoint", "show"], ["out", "delete"]]


def make_value(rng, ntargets, names_unicode=True):
    paths = []
    base = ["svc", "lib", "app", "tool", "pkg", "café", "ünï"] if names_unicode else ["svc", "lib", "app", "tool", "pkg"]
    while len(paths) < ntargets:
        p = rng.pick(base) + str(len(paths))
        if rng.chance(1, 4) and paths:
            p = rng.pick(paths) + "/" + p
        paths.append(p)
    targets = []
    for i, p in enumerate(paths):
        t = {"path": p}
        if i > 0 and rng.chance(1, 3):
            q = rng.pick(paths[:i])
            if not q.startswith(p + "/"):
                t["uses"] = [q]
        if rng.chance(1, 5):
            t["ignores"] = [p + "/docs"]
        targets.append(t)
    return targets


def build_repo(targets):
    repo = scen.Repo(targets, git=True)
    for t in targets[:3]:
        repo.install(t["path"], "build")
    repo.commit_all()
    return repo


def strip_ts(j):
    if isinstance(j, dict):
        j = dict(j)
        j.pop("timestamp", None)
    return j


def call_all(repo, cfg_path):
    """returns list of (api, rc, canonical json or None)"""
    res = []
    for api in APIS:
        p = scen.subprocess.run([scen.MONORAIL, "-f", cfg_path] + api, cwd=repo.dir, env=repo.env(),
                                stdin=scen.subprocess.DEVNULL, stdout=scen.subprocess.PIPE, stderr=scen.subprocess.PIPE, timeout=120)
        j = None
        try:
            j = json.loads(p.stdout.decode().strip().split("\n")[-1]) if p.stdout.strip() else None
        except ValueError:
            pass
        res.append((" ".join(api), p.returncode, strip_ts(j), p.stderr.decode("utf-8", "replace")))
    return res


def c17_case(seed, model, rep):
    rng = scen.Rng(seed)
    nt = rng.pick([1, 3, 10, 40, 150, 400])
    targets = make_value(rng, nt)
    repo = build_repo(targets)
    case = {"seed": seed, "targets": nt}
    try:
        src_name = "Monorail.src.json"
        src_val = dict(repo.cfg)
        src_val["source"] = {"path": src_name}
        # pad the source with insignificant whitespace to reach sizes around and beyond the I/O buffer
        pad = rng.pick([0, 0, 100, 9000, 70000, 300000])
        src_bytes = (json.dumps(src_val, indent=rng.pick([None, 2]), ensure_ascii=False) + " " * pad + "\n").encode()
        src_path = os.path.join(repo.dir, src_name)
        open(src_path, "wb").write(src_bytes)
        gen_path = os.path.join(repo.dir, "Monorail.gen.json")
        lock_path = os.path.join(repo.dir, "Monorail.gen.lock")
        p = scen.subprocess.run([scen.MONORAIL, "-f", gen_path, "config", "generate"], cwd=repo.dir, input=src_bytes,
                                stdout=scen.subprocess.PIPE, stderr=scen.subprocess.PIPE)
        if p.returncode != 0:
            rep.oracle_fail({"kind": "config generate failed on a valid source", "case": case, "stderr": p.stderr.decode()[-300:]})
            return
        gen_bytes = open(gen_path, "rb").read()
        lock_bytes = open(lock_path, "rb").read()
        case["sizes"] = {"source": len(src_bytes), "generated": len(gen_bytes)}
        rep.count("generated_%s" % ("lt8k" if len(gen_bytes) < 8192 else "gt8k"))
        # untouched: everything works (result show needs a run first: order of APIS guarantees it)
        base = call_all(repo, gen_path)
        rep.evaluations += 1
        for api, rc, j, err in base:
            if rc != 0:
                rep.oracle_fail({"kind": "an API fails although source, generated file and lockfile are untouched", "case": case,
                                 "api": api, "rc": rc, "stderr": err[-300:]})
                return
        files = {"source": (src_path, src_bytes), "generated": (gen_path, gen_bytes), "lock": (lock_path, lock_bytes)}
        if len(gen_bytes) <= 2500:
            # a small generated file: a single-byte edit at EVERY offset must be rejected (one cheap
            # read-only API per edit)
            st = os.stat(gen_path)
            accepted = []
            for off in range(len(gen_bytes)):
                b = bytearray(gen_bytes)
                old = b[off]
                b[off] = (old ^ 0x01) if rng.chance(1, 2) else (ord("d") if old != ord("d") else ord("e"))
                open(gen_path, "wb").write(bytes(b))
                os.utime(gen_path, ns=(st.st_atime_ns, st.st_mtime_ns))
                pr = scen.subprocess.run([scen.MONORAIL, "-f", gen_path, "config", "show"], cwd=repo.dir, env=repo.env(),
                                         stdin=scen.subprocess.DEVNULL, stdout=scen.subprocess.PIPE, stderr=scen.subprocess.PIPE, timeout=60)
                if pr.returncode == 0:
                    accepted.append(off)
            open(gen_path, "wb").write(gen_bytes)
            os.utime(gen_path, ns=(st.st_atime_ns, st.st_mtime_ns))
            rep.evaluations += 1
            rep.count("every_offset_sweeps")
            rep.count("every_offset_edits", len(gen_bytes))
            if accepted:
                rep.oracle_fail({"kind": "a tampered source / generated file / lockfile was accepted", "case": case,
                                 "tamper": {"file": "generated", "kind": "single-byte edit", "offsets_accepted": accepted[:20],
                                            "context": gen_bytes[max(0, accepted[0] - 12):accepted[0] + 12].decode("utf-8", "replace")}})
                return

        def tamper_list():
            out = []
            for which in ("source", "generated"):
                data = files[which][1]
                n = len(data)
                offs = {0, n - 1, rng.below(n), rng.below(n), rng.below(n)}
                for b in (8191, 8192, 8193, 16384, 65535, 65536):
                    if b < n:
                        offs.add(b)
                for o in sorted(offs):
                    out.append((which, "edit", o))
                out.append((which, "truncate", rng.range(1, min(n - 1, 20))))
                out.append((which, "truncate", n // 2))
                out.append((which, "append", rng.pick([b" ", b"\n", b"x", b"}"])))
                out.append((which, "append", rng.pick([b"\x00", b"\x00\x00\x00", b" " * 64])))
                out.append((which, "truncate", rng.pick([1, 64, 640])) if n > 700 else (which, "truncate", 1))
            ck = json.loads(lock_bytes)["checksum"]
            pos = rng.below(len(ck))
            out.append(("lock", "hexedit", pos))
            letters = [i for i, c in enumerate(ck) if c in "abcdef"]
            if letters:
                out.append(("lock", "upper", rng.pick(letters)))
            out.append(("lock", "whitespace", 0))
            return out

        for (which, kind, arg) in tamper_list():
            path, orig = files[which]
            st = os.stat(path)
            if kind == "edit":
                b = bytearray(orig)
                old = b[arg]
                # replace by a different byte of the same "class" when possible, so that the result often still parses
                cand = [c for c in (b" " if old in b" \n" else b"xyz09") if c != old] or [old ^ 1]
                if old in b" \n":
                    cand = [10 if old == 32 else 32]
                b[arg] = rng.pick(cand)
                new = bytes(b)
            elif kind == "truncate":
                new = orig[:-arg]
            elif kind == "append":
                new = orig + arg
            elif kind == "hexedit":
                ck = json.loads(orig)["checksum"]
                c = ck[arg]
                ck2 = ck[:arg] + ("0" if c != "0" else "1") + ck[arg + 1:]
                new = json.dumps({"checksum": ck2}).encode()
            elif kind == "upper":
                ck = json.loads(orig)["checksum"]
                ck2 = ck[:arg] + ck[arg].upper() + ck[arg + 1:]
                new = json.dumps({"checksum": ck2}).encode()
            else:  # whitespace-only edit of the lockfile: the checksum value is unchanged
                new = b" " + orig + b"\n"
            open(path, "wb").write(new)
            keep_mtime = rng.chance(1, 2)
            if keep_mtime:
                os.utime(path, ns=(st.st_atime_ns, st.st_mtime_ns))
            # expected decision from the model
            try:
                still_valid = which == "generated" and json.loads(new.decode("utf-8")) is not None
            except (ValueError, UnicodeDecodeError):
                still_valid = False
            req = {"op": "cfgcheck", "src": "changed" if which == "source" else "same",
                   "gen": ("same" if which != "generated" else ("changed_valid" if still_valid else "invalid")),
                   "lock": "changed" if (which == "lock" and kind != "whitespace") else "same"}
            want = model.ask(req)
            before = repo.snapshot()
            repo.clear_traces()
            res = call_all(repo, gen_path)
            after = repo.snapshot()
            started = len(repo.traces())
            rep.evaluations += 1
            rep.count("tamper_%s_%s" % (which, kind))
            rep.count("expect_" + want["decision"])
            rep.nontrivial_case({"seed": seed, "t": [which, kind, str(arg)]})
            desc = {"file": which, "kind": kind, "arg": str(arg), "mtime_preserved": keep_mtime, "still_valid_json": still_valid}
            if want["decision"] == "reject":
                bad = [(api, rc) for api, rc, j, err in res if rc == 0]
                if bad or after != before or started:
                    rep.oracle_fail({"kind": "a tampered source / generated file / lockfile was accepted", "case": case, "tamper": desc,
                                     "apis_that_succeeded": bad, "out_dir_changed": after != before, "executables_started": started})
                    return
            else:
                bad = [(api, rc, err[-200:]) for api, rc, j, err in res if rc != 0]
                if bad:
                    rep.oracle_fail({"kind": "an edit that changes neither content nor checksum was rejected", "case": case, "tamper": desc, "failed": bad})
                    return
            open(path, "wb").write(orig)
            os.utime(path, ns=(st.st_atime_ns, st.st_mtime_ns))
        # restored: works again
        res = call_all(repo, gen_path)
        bad = [(api, rc) for api, rc, j, err in res if rc != 0]
        if bad:
            rep.oracle_fail({"kind": "APIs fail after the original bytes were restored", "case": case, "failed": bad})
            return
        # `config generate` again over a damaged, missing or stale lockfile / generated file: whatever
        # was there before, after generate every API succeeds
        def regenerate():
            return scen.subprocess.run([scen.MONORAIL, "-f", gen_path, "config", "generate"], cwd=repo.dir, input=src_bytes,
                                       stdout=scen.subprocess.PIPE, stderr=scen.subprocess.PIPE)
        ck = json.loads(lock_bytes)["checksum"]
        histories = [
            ("lockfile checksum digit edited", lambda: open(lock_path, "wb").write(json.dumps({"checksum": ("0" if ck[0] != "0" else "1") + ck[1:]}).encode())),
            ("lockfile deleted", lambda: os.remove(lock_path)),
            ("lockfile of another revision", lambda: open(lock_path, "wb").write(json.dumps({"checksum": "ab" * 32}).encode())),
            ("generated file truncated", lambda: open(gen_path, "wb").write(gen_bytes[:len(gen_bytes) // 2])),
            ("lockfile with merge-conflict junk appended", lambda: open(lock_path, "wb").write(lock_bytes + b"\n<<<<<<< HEAD\n" + lock_bytes + b"\n=======\n>>>>>>> other\n")),
            ("lockfile pretty-printed by a formatter", lambda: open(lock_path, "wb").write(json.dumps(json.loads(lock_bytes), indent=8).encode() + b"\n\n")),
            ("generated file and lockfile deleted", lambda: (os.remove(gen_path), os.remove(lock_path))),
        ]
        for name, damage in histories:
            damage()
            pr = regenerate()
            rep.evaluations += 1
            rep.count("regenerate_after_damage")
            res = call_all(repo, gen_path) if pr.returncode == 0 else []
            bad = [(api, rc, err[-200:]) for api, rc, j, err in res if rc != 0]
            if pr.returncode != 0 or bad:
                rep.oracle_fail({"kind": "APIs fail right after config generate", "case": case, "history": name + ", then config generate",
                                 "generate_rc": pr.returncode, "generate_stderr": pr.stderr.decode("utf-8", "replace")[-200:], "failed": bad})
                return
        rep.sample(case)
    finally:
        repo.done()


def shuffle_keys(v, rng):
    if isinstance(v, dict):
        items = [(k, shuffle_keys(x, rng)) for k, x in v.items()]
        rng.shuffle(items)
        return dict(items)
    if isinstance(v, list):
        return [shuffle_keys(x, rng) for x in v]
    return v


def serialisations(cfg, rng):
    compact = json.dumps(cfg, separators=(",", ":"), ensure_ascii=False)
    out = [("compact", compact), ("pretty2", json.dumps(cfg, indent=2, ensure_ascii=False)),
           ("pretty_tabs", json.dumps(cfg, indent="\t", ensure_ascii=False)),
           ("ascii_escapes", json.dumps(cfg, ensure_ascii=True)),
           ("shuffled", json.dumps(shuffle_keys(cfg, rng), indent=1, ensure_ascii=False)),
           ("shuffled_compact", json.dumps(shuffle_keys(cfg, rng), separators=(",", ":"), ensure_ascii=False)),
           ("leading_newline", "\n" + compact), ("leading_spaces", "   \t " + compact), ("crlf", json.dumps(cfg, indent=2, ensure_ascii=False).replace("\n", "\r\n")),
           ("trailing_20k", compact + " " * 20000 + "\n"), ("leading_200k", " " * 200000 + compact),
           ("inner_pad_9k", compact.replace("{", "{" + " " * 9000, 1)),
           ("inner_pad_70k", compact.replace("{", "{" + " " * 70000, 1)), ("newlines_300k", compact.replace(",", "," + "\n" * 40, 1) + "\n" * 300000),
           ("escaped_strings", compact.replace('"git"', '"g\\u0069t"').replace('"targets"', '"t\\u0061rgets"').replace('"path"', '"p\\u0061th"'))]
    # put a multi-byte character across the 8 KiB and 16 KiB marks: sweep the padding
    b = compact.encode()
    first = next((i for i, c in enumerate(b) if c >= 0x80), None)
    if first is not None:
        for mark in (8192, 16384, 65536):
            for delta in (-1, 0):
                padn = mark - first + delta - 1   # one '{' precedes the padding
                if padn > 0:
                    out.append(("multibyte_at_%d%+d" % (mark, delta), compact.replace("{", "{" + " " * padn, 1)))
    return out


def c18_case(seed, model, rep):
    rng = scen.Rng(seed)
    nt = rng.pick([2, 5, 12, 60, 300])
    targets = make_value(rng, nt)
    repo = build_repo(targets)
    case = {"seed": seed, "targets": nt}
    try:
        cfg = dict(repo.cfg)
        cfg["max_retained_runs"] = 4
        cfg["sequences"] = {"dev": ["build", "test"]}
        cfg["change_provider"] = {"use": "git"}
        apis = [["config", "show"], ["analyze", "--target-groups"], ["target", "show", "-g"]]
        ref = None
        for name, text in serialisations(cfg, rng):
            p = os.path.join(repo.dir, "Monorail.%s.json" % name)
            open(p, "wb").write(text.encode("utf-8"))
            # a lockfile left behind by an earlier `config generate` at this path means nothing for a
            # configuration that has no `source`
            lockp = os.path.join(repo.dir, "Monorail.%s.lock" % name)
            if rng.chance(1, 2):
                open(lockp, "w").write(json.dumps({"checksum": "%064x" % rng.next()}))
            outs = []
            for api in apis:
                pr = scen.subprocess.run([scen.MONORAIL, "-f", p] + api, cwd=repo.dir, env=repo.env(), stdin=scen.subprocess.DEVNULL,
                                         stdout=scen.subprocess.PIPE, stderr=scen.subprocess.PIPE, timeout=120)
                j = None
                try:
                    j = strip_ts(json.loads(pr.stdout.decode().strip())) if pr.stdout.strip() else None
                except ValueError:
                    pass
                outs.append((pr.returncode, j, pr.stderr.decode("utf-8", "replace")[-200:]))
            rep.evaluations += 1
            rep.count("ser_" + name.split("_at_")[0])
            rep.count("size_%s" % ("lt8k" if len(text.encode()) < 8192 else "gt8k"))
            rep.nontrivial_case({"seed": seed, "ser": name})
            os.remove(p)
            if os.path.exists(lockp):
                os.remove(lockp)
            if any(rc != 0 for rc, j, e in outs):
                rep.oracle_fail({"kind": "a serialisation of a valid configuration is rejected", "case": case, "serialisation": name,
                                 "bytes": len(text.encode()), "results": [(rc, e) for rc, j, e in outs]})
                return
            cur = [j for rc, j, e in outs]
            if ref is None:
                ref = (name, cur)
                # the model's answer for the value
                m = model.ask({"op": "groups", "targets": [{"path": t["path"], "uses": t.get("uses", []), "ignores": t.get("ignores", [])} for t in targets],
                               "visible": None})
                want = [sorted(g) for g in m["model"].get("ok", [])]
                got = [sorted(g) for g in cur[1].get("target_groups", [])]
                if want != got:
                    rep.disagree({"kind": "analyze --target-groups differs from the model", "case": case, "model": want, "implementation": got})
            elif cur != ref[1]:
                rep.oracle_fail({"kind": "the output of an API depends on the serialisation of the configuration", "case": case,
                                 "serialisations": [ref[0], name]})
                return
        # `config generate` reads the configuration from standard input: its products (generated file,
        # lockfile, report) depend on the value only - whitespace, key order, size, pipe chunking
        srcv = dict(cfg)
        srcv["source"] = {"path": "Monorail.src.js"}
        open(os.path.join(repo.dir, "Monorail.src.js"), "w").write("// source of truth\n")
        gpath = os.path.join(repo.dir, "Monorail.generated.json")
        lpath = os.path.join(repo.dir, "Monorail.generated.lock")
        products = []
        for name, text in serialisations(srcv, rng):
            if name not in ("compact", "pretty2", "shuffled", "shuffled_compact", "leading_200k", "inner_pad_70k", "newlines_300k", "escaped_strings"):
                continue
            for f in (gpath, lpath):
                if os.path.exists(f):
                    os.remove(f)
            pr = scen.subprocess.run([scen.MONORAIL, "-f", gpath, "config", "generate"], cwd=repo.dir, env=repo.env(),
                                     input=text.encode("utf-8"), stdout=scen.subprocess.PIPE, stderr=scen.subprocess.PIPE, timeout=120)
            rep.evaluations += 1
            rep.count("generate_" + name)
            if pr.returncode != 0 or not os.path.exists(gpath) or not os.path.exists(lpath):
                rep.oracle_fail({"kind": "a serialisation of a valid configuration is rejected", "case": case, "api": "config generate (stdin)",
                                 "serialisation": name, "bytes": len(text.encode()), "stderr": pr.stderr.decode("utf-8", "replace")[-300:]})
                return
            rpt = None
            try:
                rpt = strip_ts(json.loads(pr.stdout.decode().strip().split("\n")[-1])) if pr.stdout.strip() else None
            except ValueError:
                pass
            products.append((name, open(gpath, "rb").read(), open(lpath, "rb").read(), rpt))
        for name, g, l, rpt in products[1:]:
            if (g, l, rpt) != products[0][1:]:
                rep.oracle_fail({"kind": "the output of an API depends on the serialisation of the configuration", "case": case,
                                 "api": "config generate (stdin)", "serialisations": [products[0][0], name],
                                 "generated_file_differs": g != products[0][1], "lockfile_differs": l != products[0][2],
                                 "report_differs": rpt != products[0][3]})
                return
        # the same history of runs, once under one serialisation throughout and once with the file
        # re-serialised in the middle: everything the store APIs return must be the same
        import storeobs
        sers = serialisations(cfg, rng)
        a, b = sers[0], rng.pick(sers[1:9])
        twin = build_repo(targets)
        try:
            views = []
            for r, switch in ((repo, False), (twin, True)):
                c2 = dict(cfg)
                c2["server"] = r.cfg["server"]
                r.write_config(json.dumps(c2, separators=(",", ":"), ensure_ascii=False))
                v = []
                r.commit_all("config as first serialised")
                r.mono("checkpoint", "update")
                for step in range(4):
                    if switch and step == 2:
                        text = dict(serialisations(c2, scen.Rng(seed)))[b[0]]
                        r.write_config(text)
                    rc, j, out, err = r.mono("run", "-c", "build", "-t", targets[0]["path"])
                    obs = storeobs.show_all(r, 4)
                    ptr = None
                    try:
                        ptr = json.load(open(os.path.join(r.out_dir, "tracking", "run.json")))["id"]
                    except (OSError, ValueError):
                        pass
                    rca, ja, _, _ = r.mono("analyze", "--target-groups")
                    v.append({"rc": rc, "pointer": ptr, "dirs": obs["dirs"], "analyze": [rca, (ja or {}).get("targets"), (ja or {}).get("target_groups")],
                              "result": json.loads(json.dumps(obs["result"]).replace(r.dir, "<ROOT>")),
                              "logs": {str(k): x.hex() for k, x in (obs["logs"] or {}).items()},
                              "by_id": {str(i): (None if x is None else {str(k): y.hex() for k, y in x.items()}) for i, x in obs["by_id"].items()}})
                views.append(v)
            rep.evaluations += 1
            rep.count("history_twins")
            if views[0] != views[1]:
                step = next(i for i in range(4) if views[0][i] != views[1][i])
                rep.oracle_fail({"kind": "re-serialising the configuration in the middle of a history changed what the store APIs return",
                                 "case": case, "serialisation": b[0], "first_difference_after_run": step + 1,
                                 "control": {k: views[0][step][k] for k in ("rc", "pointer", "dirs", "analyze")},
                                 "reserialised": {k: views[1][step][k] for k in ("rc", "pointer", "dirs", "analyze")}})
                return
        finally:
            twin.done()
        rep.sample(case)
    finally:
        repo.done()


def main():
    args = scen.parse_args(sys.argv)
    prop = args["prop"]
    t0 = time.time()
    rep = scen.Report()
    model = scen.Model()
    seeds = []
    for c in scen.load_corpus(args["corpus"], prop):
        cc = c.get("case", c)
        if "seed" in cc:
            seeds.append(cc["seed"])
    rng = scen.Rng(args["seed"])
    n = {"C17": (40, 4), "C18": (40, 6)}[prop][0 if args["tier"] == "thorough" else 1] * args["budget"]
    seeds += [rng.next() for _ in range(n)]
    fn = c17_case if prop == "C17" else c18_case
    scen.run_cases(lambda s: fn(s, model, rep), seeds, rep, 8)
    scen.finish(args, rep, t0, model)


if __name__ == "__main__":
    main()
