import Monorail.Driver.Util
import Monorail.Spec.Exec
open Lean
namespace Monorail.Driver

def dispOf (s : String) : Except String Disp :=
  match s with
  | "run" => pure .run
  | "undefined" => pure .undefined
  | "notexec" => pure .notExec
  | _ => throw s!"bad disp {s}"

def planOf (j : Json) : Except String (List Group) := do
  let gs ← getArr j "plan"
  gs.toList.mapM (fun g => do
    let ts ← g.getArr?
    ts.toList.mapM (fun t => do
      let id ← getNat t "id"
      let d ← getStr t "disp"
      let d ← dispOf d
      pure { id := id, disp := d }))

def statusJson : Status → Json
  | .success => Json.arr #[Json.str "success", toJson (0 : Int)]
  | .error (some k) => Json.arr #[Json.str "error", toJson k]
  | .error none => Json.arr #[Json.str "error", Json.null]
  | .undefined => Json.arr #[Json.str "undefined", Json.null]
  | .notExecutable => Json.arr #[Json.str "not_executable", Json.null]
  | .skipped => Json.arr #[Json.str "skipped", Json.null]

def statusOfJson (s : String) (code : Json) : Except String Status :=
  match s with
  | "success" => pure .success
  | "error" => match code.getInt? with
    | .ok k => pure (.error (some k))
    | .error _ => pure (.error none)
  | "undefined" => pure .undefined
  | "not_executable" => pure .notExecutable
  | "skipped" => pure .skipped
  | _ => throw s!"bad status {s}"

def evJson : Ev → Json
  | .spawn g i => Json.arr #[Json.str "spawn", toJson g, toJson i]
  | .done i _ => Json.arr #[Json.str "done", toJson i]

/-- {"op":"exec","plan":[[{"id","disp"}]],"fou":b,"inputs":[[id,code|null]]} -/
def handleExec (j : Json) : Except String Json := do
  let plan ← planOf j
  let fou ← getBool j "fou"
  let ins ← (← getArr j "inputs").toList.mapM (fun x => do
    let a ← x.getArr?
    let id ← (a[0]!).getNat?
    let oc : Outcome := match (a[1]!).getInt? with
      | .ok k => .code k
      | .error _ => .aborted
    pure (id, oc))
  let s := runExec fou plan ins
  pure (Json.mkObj [
    ("results", Json.arr (s.results.map (fun e => Json.arr #[toJson e.1, statusJson e.2])).toArray),
    ("failed", Json.bool s.failed), ("exit", toJson (exitStatus s)),
    ("running", jNats s.running), ("trace", Json.arr (s.trace.map evJson).toArray)])

/-- {"op":"execcheck","plan":..,"fou":b,"obs":{"results":[[id,status,code]],"failed":b,"exit":n,
     "started":[ids],"ended":[[id,code]],"times":[[id,start,end]]}} -/
def handleExecCheck (j : Json) : Except String Json := do
  let plan ← planOf j
  let fou ← getBool j "fou"
  let o ← j.getObjVal? "obs"
  let results ← (← getArr o "results").toList.mapM (fun x => do
    let a ← x.getArr?
    let id ← (a[0]!).getNat?
    let s ← (a[1]!).getStr?
    let st ← statusOfJson s (a[2]!)
    pure (id, st))
  let ended ← (← getArr o "ended").toList.mapM (fun x => do
    let a ← x.getArr?
    pure ((← (a[0]!).getNat?), (← (a[1]!).getInt?)))
  let times ← (← getArr o "times").toList.mapM (fun x => do
    let a ← x.getArr?
    pure ((← (a[0]!).getNat?), (← (a[1]!).getNat?), (← (a[2]!).getNat?)))
  let obs : RunObs := {
    results := results, failed := (← getBool o "failed"), exit := (← getNat o "exit"),
    started := (← natsOf (← getArr o "started")), ended := ended, times := times,
    killed := (match o.getObjVal? "killed" with
      | .ok (.arr a) => (natsOf a).toOption.getD []
      | _ => []) }
  match execOracle fou plan obs with
  | none => pure (Json.mkObj [("oracle", Json.str "ok")])
  | some w => pure (Json.mkObj [("oracle", Json.str "fail"), ("why", Json.str w)])

end Monorail.Driver
