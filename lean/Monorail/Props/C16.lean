import Monorail.Proofs.ExecInv
/-!
# C16 — all members of a target group execute concurrently
-/
namespace Monorail

/-- **C16 (no completion is consumed while a group is being started).** Under every schedule,
between two spawns of the same group the history contains nothing but spawns of that group: the
machine never waits for a member to finish before starting another member. -/
theorem c16_contiguous (fou : Bool) (plan : List Group) (inputs : List (Nat × Outcome))
    {pre mid post : List Ev} {g a b : Nat}
    (h : (runExec fou plan inputs).trace = pre ++ Ev.spawn g a :: (mid ++ Ev.spawn g b :: post)) :
    ∀ e ∈ mid, ∃ c, e = Ev.spawn g c :=
  (runExec_inv fou plan inputs).contig pre g a mid b post h

/-- a group every member of which resolves to an executable (or is undefined without
`--fail-on-undefined`) -/
def Startable (fou : Bool) (g : Group) : Prop :=
  ∀ t ∈ g, t.disp = .run ∨ (t.disp = .undefined ∧ fou = false)

def runIds (g : Group) : List Nat := (g.filter (fun t => t.disp = .run)).map (·.id)

theorem foldl_startable (fou : Bool) : ∀ (ts : List Task) (acc : Sched), acc.failed = false →
    (∀ t ∈ ts, t.disp = .run ∨ (t.disp = .undefined ∧ fou = false)) →
    (ts.foldl (schedMember fou) acc).spawns = acc.spawns ++ runIds ts ∧
    (ts.foldl (schedMember fou) acc).failed = false := by
  intro ts
  induction ts with
  | nil => intro acc hf _; simp [runIds, hf]
  | cons t rest ih =>
    intro acc hf hs
    simp only [List.foldl_cons]
    have ht := hs t List.mem_cons_self
    have hrest := fun x hx => hs x (List.mem_cons_of_mem _ hx)
    rcases ht with hrun | ⟨hund, hfou⟩
    · have hm : schedMember fou acc t = { acc with spawns := acc.spawns ++ [t.id] } := by
        simp [schedMember, hf, hrun]
      rw [hm]
      obtain ⟨h1, h2⟩ := ih { acc with spawns := acc.spawns ++ [t.id] } hf hrest
      refine ⟨?_, h2⟩
      rw [h1]
      simp [runIds, hrun]
    · have hm : schedMember fou acc t = { acc with failed := fou, results := acc.results ++ [(t.id, .undefined)] } := by
        simp [schedMember, hf, hund]
      rw [hm]
      obtain ⟨h1, h2⟩ := ih { acc with failed := fou, results := acc.results ++ [(t.id, .undefined)] } hfou hrest
      refine ⟨?_, h2⟩
      rw [h1]
      simp [runIds, hund]

/-- **C16 (every member is started).** When a startable group is reached and nothing has failed,
scheduling it starts *every* member that has an executable — for any group size. -/
theorem c16_sched_all (fou : Bool) (g : Group) (hs : Startable fou g) :
    (schedGroup fou false g).spawns = runIds g ∧ (schedGroup fou false g).failed = false := by
  have := foldl_startable fou g { failed := false, spawns := [], results := [] } rfl hs
  simpa [schedGroup] using this

/-- **C16 (first group).** `run` starts every executable member of the first group before it
consumes any completion. -/
theorem c16_start (fou : Bool) (g : Group) (rest : List Group) (hs : Startable fou g)
    (hne : runIds g ≠ []) :
    (startExec fou (g :: rest)).trace = (runIds g).map (Ev.spawn 0) ∧
    (startExec fou (g :: rest)).running = runIds g := by
  obtain ⟨h1, _⟩ := c16_sched_all fou g hs
  have : (schedGroup fou false g).spawns.isEmpty = false := by
    rw [h1]; cases h : runIds g with
    | nil => exact absurd h hne
    | cons a t => rfl
  simp [startExec, advance, h1, hne]

/-- **C16 (any later position).** When the last running task of a group completes successfully and
nothing has failed, every executable member of the next (startable) group is started in that same
step — wherever the group sits in the plan. -/
theorem c16_step (fou : Bool) (s : ExecSt) (id : Nat) (g : Group) (rest : List Group)
    (hrun : s.running = [id]) (hrest : s.rest = g :: rest) (hf : s.failed = false)
    (hs : Startable fou g) (hne : runIds g ≠ []) :
    (stepExec fou s id (.code 0)).running = runIds g ∧
    (stepExec fou s id (.code 0)).trace =
      s.trace ++ [Ev.done id (.code 0)] ++ (runIds g).map (Ev.spawn (s.gidx + 1)) := by
  obtain ⟨h1, _⟩ := c16_sched_all fou g hs
  have hemp : (schedGroup fou false g).spawns.isEmpty = false := by
    rw [h1]; cases h : runIds g with
    | nil => exact absurd h hne
    | cons a t => rfl
  simp [stepExec, hrun, hrest, hf, Outcome.fails, advance, h1, hne]

/-! ## Non-vacuity: a group of 40 executables, reached after one dependency group -/

def bigGroup : Group := (List.range 40).map (fun i => ⟨i + 1, .run⟩)

example : (stepExec false (startExec false [[⟨0, .run⟩], bigGroup]) 0 (.code 0)).running.length = 40 := by
  decide

end Monorail
