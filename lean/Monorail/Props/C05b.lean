import Monorail.Props.C05
import Monorail.Props.C04b
/-!
# C05 — the run covers exactly the selected targets, from the selection to the result document
-/
namespace Monorail
open Relation

theorem reach_lt {g : Graph} (hr : InRange g) {a b : Nat} (ha : a < g.size) (h : Reach g a b) : b < g.size := by
  induction h with
  | refl => exact ha
  | tail _ hstep _ => exact hr _ _ hstep

/-- **C05 (which targets are selected).** The groups `handle_run` selects contain exactly:
without `-t`, the configured targets among those `analyze` reported as changed; with `-t`, the named
targets; with `-t --deps`, everything reachable from the named targets along dependencies. -/
theorem c05_selected {g : Graph} (hr : InRange g) {sel : Selection} {groups : List (List Nat)}
    (hsel : selectGroups g sel = .ok groups) (x : Nat) :
    x ∈ groups.flatten ↔
      match sel with
      | .changed ch => x < g.size ∧ x ∈ ch
      | .named ts => x ∈ ts
      | .deps roots => ∃ r ∈ roots, r < g.size ∧ Reach g r x := by
  cases sel with
  | changed ch =>
    simp only [selectGroups] at hsel
    cases hl : labeledGroups g (List.range g.size) with
    | error e => simp [hl] at hsel
    | ok lgs =>
      simp only [hl, Except.ok.injEq] at hsel
      subst hsel
      rw [c03_prune_mem, (labeled_flatten_perm hl).mem_iff, mem_closure g hr]
      simp only [List.contains_iff_mem, List.mem_range]
      constructor
      · rintro ⟨⟨r, _, hrlt, hreach⟩, hch⟩
        exact ⟨reach_lt hr hrlt hreach, hch⟩
      · rintro ⟨hx, hch⟩
        exact ⟨⟨x, hx, hx, ReflTransGen.refl⟩, hch⟩
  | named ts =>
    simp only [selectGroups, Except.ok.injEq] at hsel
    subst hsel
    rw [flatten_singletons]
  | deps roots =>
    simp only [selectGroups] at hsel
    rw [(labeled_flatten_perm hsel).mem_iff, mem_closure g hr]

/-- **C05 (the plan is commands × selected targets).** -/
theorem c05_plan_ids (n ncmd : Nat) (disp : Nat → Nat → Disp) (groups : List (List Nat)) (id : Nat) :
    id ∈ planIds (planOf n ncmd disp groups) ↔ ∃ c < ncmd, ∃ t ∈ groups.flatten, id = taskId n c t := by
  rw [planIds_planOf]
  simp only [List.mem_flatMap, List.mem_range, List.mem_map]
  constructor
  · rintro ⟨c, hc, t, ht, rfl⟩; exact ⟨c, hc, t, ht, rfl⟩
  · rintro ⟨c, hc, t, ht, rfl⟩; exact ⟨c, hc, t, ht, rfl⟩

/-- **C05 (from the selection to the result document).** When the run has finished, the result
document has exactly one entry for every (command, selected target) pair and no other entry. -/
theorem c05_document {g : Graph} {sel : Selection} {groups : List (List Nat)}
    (hsel : selectGroups g sel = .ok groups)
    (hnamed : ∀ ts, sel = .named ts → ts.Nodup ∧ ∀ t ∈ ts, t < g.size)
    (ncmd : Nat) (disp : Nat → Nat → Disp) (fou : Bool) (inputs : List (Nat × Outcome))
    (hfin : (runExec fou (planOf g.size ncmd disp groups) inputs).running = []) :
    (rIds (runExec fou (planOf g.size ncmd disp groups) inputs).results).Nodup ∧
    ∀ id, id ∈ rIds (runExec fou (planOf g.size ncmd disp groups) inputs).results ↔
      ∃ c < ncmd, ∃ t ∈ groups.flatten, id = taskId g.size c t := by
  have hw := selectGroups_wellformed hsel hnamed
  have hnd := planIds_nodup g.size disp groups hw.1 hw.2 ncmd
  have hperm := c05_cover fou _ inputs hfin
  refine ⟨hperm.nodup_iff.mpr hnd, fun id => ?_⟩
  rw [hperm.mem_iff, c05_plan_ids]

end Monorail
