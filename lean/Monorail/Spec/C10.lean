import Monorail.Model.Index
/-! Decidable oracle for C10, evaluated by the driver on the *implementation's* adjacency. -/
namespace Monorail

/-- decidable twin of `DependsOn` -/
def dependsOnB (T U : Target) : Bool :=
  withinB U.path T.path || T.uses.any (fun u => withinB U.path u)

/-- decidable twin of `WF` -/
def wfB (cfg : Config) : Bool := !hasDupPath cfg && cfg.all (fun t => normalB t.path)

/-- the adjacency the specification demands -/
def specDeps (cfg : Config) (i : Nat) : List Nat :=
  match cfg[i]? with
  | none => []
  | some T => (List.range cfg.length).filter (fun j =>
      j != i && (match cfg[j]? with | some U => dependsOnB T U | none => false))

/-- first `(i, j)` on which an observed adjacency (as sets) differs from the specification -/
def c10Mismatch (cfg : Config) (obs : List (List Nat)) : Option (Nat × Nat) :=
  (List.range cfg.length).findSome? (fun i =>
    let o := obs.getD i []
    let s := specDeps cfg i
    match s.find? (fun j => !o.contains j) with
    | some j => some (i, j)
    | none => match o.find? (fun j => !s.contains j) with
      | some j => some (i, j)
      | none => none)

/-! ### target paths that may be written with one trailing separator -/

/-- decidable twin of `DependsOnD`: the relation between the *directories* the two targets name -/
def dependsOnDB (T U : Target) : Bool :=
  withinB (dirOf U.path) (dirOf T.path) || T.uses.any (fun u => withinB (dirOf U.path) u)

/-- two targets naming one directory -/
def hasDupDir : Config → Bool
  | [] => false
  | t :: ts => ts.any (fun u => dirOf u.path = dirOf t.path) || hasDupDir ts

/-- decidable twin of `WFD` -/
def wfDB (cfg : Config) : Bool := !hasDupDir cfg && cfg.all (fun t => normalB (dirOf t.path))

def specDepsD (cfg : Config) (i : Nat) : List Nat :=
  match cfg[i]? with
  | none => []
  | some T => (List.range cfg.length).filter (fun j =>
      j != i && (match cfg[j]? with | some U => dependsOnDB T U | none => false))

def c10MismatchD (cfg : Config) (obs : List (List Nat)) : Option (Nat × Nat) :=
  (List.range cfg.length).findSome? (fun i =>
    let o := obs.getD i []
    let s := specDepsD cfg i
    match s.find? (fun j => !o.contains j) with
    | some j => some (i, j)
    | none => match o.find? (fun j => !s.contains j) with
      | some j => some (i, j)
      | none => none)

end Monorail
