import Monorail.Props.C05
import Monorail.Spec.Exec
import Mathlib.Data.List.Nodup
/-!
# C05 / C06 — the oracle applied to observed runs accepts every run of the model

The correspondence harness judges the implementation's result document with the decidable oracle of
`Spec/Exec.lean`. The oracle must not demand more than the proved model delivers: here, for every
plan with distinct ids and every schedule, the result document of a finished model run passes the
oracle's cover clause and its flag / exit-status clause.
-/
namespace Monorail

theorem countIn_eq_count (l : List Nat) (x : Nat) : countIn l x = l.count x := by
  unfold countIn
  induction l with
  | nil => rfl
  | cons a t ih =>
    by_cases h : a = x
    · subst h; simp [List.filter_cons, ih]
    · have h' : ¬ (a == x) = true := by simpa using h
      simp [List.filter_cons, h, List.count_cons, h', ih]

theorem planIds_eq_flatten (plan : List Group) : planIds plan = (plan.flatten).map (·.id) := by
  unfold planIds gIds
  induction plan with
  | nil => rfl
  | cons g t ih => simp [List.flatMap_cons, ih]

/-- **Oracle soundness (cover).** The result document of a finished model run has exactly one entry
per planned id and no other entry. -/
theorem oracle_cover_sound (fou : Bool) (plan : List Group) (hnd : (planIds plan).Nodup)
    (inputs : List (Nat × Outcome)) (hfin : (runExec fou plan inputs).running = [])
    (o : RunObs) (hres : o.results = (runExec fou plan inputs).results) :
    checkCover plan o = none := by
  have hperm := c05_cover fou plan inputs hfin
  have hids : (o.results.map (·.1)) = rIds (runExec fou plan inputs).results := by rw [hres]; rfl
  unfold checkCover
  rw [← planIds_eq_flatten, hids]
  have h1 : (planIds plan).any (fun i => countIn (rIds (runExec fou plan inputs).results) i != 1) = false := by
    rw [List.any_eq_false]
    intro i hi
    rw [countIn_eq_count, hperm.count_eq]
    have := List.count_eq_one_of_mem hnd hi
    simp [this]
  have h2 : o.results.any (fun e => !(planIds plan).contains e.1) = false := by
    rw [List.any_eq_false]
    intro e he
    have : e.1 ∈ rIds (runExec fou plan inputs).results := by
      rw [← hids]; exact List.mem_map_of_mem he
    simp [hperm.mem_iff.mp this]
  rw [if_neg (by rw [h1]; simp), if_neg (by rw [h2]; simp)]

theorem statusFor_iff {rs : List (Nat × Status)} (hnd : (rIds rs).Nodup) (i : Nat) (st : Status) :
    statusFor rs i = some st ↔ (i, st) ∈ rs := by
  unfold statusFor
  induction rs with
  | nil => simp
  | cons e t ih =>
    simp only [rIds, List.map_cons, List.nodup_cons] at hnd
    by_cases he : e.1 = i
    · have hfind : List.find? (fun x => decide (x.1 = i)) (e :: t) = some e := by simp [List.find?_cons, he]
      rw [hfind]
      constructor
      · intro h
        have : e.2 = st := by simpa using h
        rw [← this, ← he]; exact List.mem_cons_self
      · intro h
        rcases List.mem_cons.mp h with h | h
        · rw [← h]; rfl
        · exfalso
          apply hnd.1
          rw [he]
          exact List.mem_map.mpr ⟨(i, st), h, rfl⟩
    · have hfind : List.find? (fun x => decide (x.1 = i)) (e :: t) = List.find? (fun x => decide (x.1 = i)) t := by
        simp [List.find?_cons, he]
      rw [hfind, ih hnd.2]
      constructor
      · exact List.mem_cons_of_mem _
      · intro h
        rcases List.mem_cons.mp h with h | h
        · exact absurd (by rw [← h]) he
        · exact h

/-- **Oracle soundness (flag).** For a finished model run the `failed` flag is exactly what the
oracle computes from the result document: some planned task has a failing status. -/
theorem oracle_flag_sound (fou : Bool) (plan : List Group) (hnd : (planIds plan).Nodup)
    (inputs : List (Nat × Outcome)) (hfin : (runExec fou plan inputs).running = []) :
    (runExec fou plan inputs).failed =
      plan.any (fun g => g.any (fun t => match statusFor (runExec fou plan inputs).results t.id with
        | some st => isFailure fou st | none => false)) := by
  have hperm := c05_cover fou plan inputs hfin
  have hrn := c05_results_nodup fou plan hnd inputs
  have hfail := c06_failed_iff fou plan inputs
  rw [Bool.eq_iff_iff, hfail, List.any_eq_true]
  constructor
  · rintro ⟨e, he, hf⟩
    have hid : e.1 ∈ planIds plan := hperm.mem_iff.mp (List.mem_map_of_mem he)
    obtain ⟨g, hg, hidg⟩ := List.mem_flatMap.mp hid
    obtain ⟨t, ht, hte⟩ := List.mem_map.mp hidg
    refine ⟨g, hg, List.any_eq_true.mpr ⟨t, ht, ?_⟩⟩
    have : statusFor (runExec fou plan inputs).results t.id = some e.2 := by
      rw [statusFor_iff hrn, hte]
      exact he
    rw [this]; exact hf
  · rintro ⟨g, _, hgany⟩
    obtain ⟨t, _, hst⟩ := List.any_eq_true.mp hgany
    cases hs : statusFor (runExec fou plan inputs).results t.id with
    | none => rw [hs] at hst; cases hst
    | some st =>
      rw [hs] at hst
      exact ⟨(t.id, st), (statusFor_iff hrn t.id st).mp hs, hst⟩

end Monorail
