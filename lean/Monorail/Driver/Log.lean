import Monorail.Driver.Util
import Monorail.Model.Log
import Monorail.Model.Task
open Lean
namespace Monorail.Driver

def hexDigit (c : Char) : Nat :=
  if '0' ≤ c ∧ c ≤ '9' then c.toNat - '0'.toNat
  else if 'a' ≤ c ∧ c ≤ 'f' then c.toNat - 'a'.toNat + 10
  else if 'A' ≤ c ∧ c ≤ 'F' then c.toNat - 'A'.toNat + 10
  else 0

def unhexL : List Char → List Nat
  | a :: b :: rest => (hexDigit a * 16 + hexDigit b) :: unhexL rest
  | _ => []

def unhex (s : String) : List Nat := unhexL s.toList

def hexOf (b : List Nat) : String :=
  let d (n : Nat) : Char := if n < 10 then Char.ofNat (48 + n) else Char.ofNat (87 + n)
  String.ofList (b.flatMap (fun x => [d (x / 16), d (x % 16)]))

def evOf (j : Json) : Except String REv := do
  let a ← j.getArr?
  let k ← (a[0]!).getStr?
  match k with
  | "chunk" => do let h ← (a[1]!).getStr?; pure (.chunk (unhex h))
  | "tick" => pure .tick
  | "eof" => pure .eof
  | "cancel" => pure .cancel
  | _ => throw s!"bad event {k}"

def creqJson : CReq → Json
  | .data ls => Json.arr #[Json.str "data", Json.arr (ls.map (fun l => Json.str (hexOf l))).toArray]
  | .endReq => Json.arr #[Json.str "end"]

/-- {"op":"reader","events":[..],"client":b,"ok_until":n|null} -/
def handleReader (j : Json) : Except String Json := do
  let evs ← (← getArr j "events").toList.mapM evOf
  let client := (getBool j "client").toOption.getD false
  let ok : Nat → Bool := match (getNat j "ok_until").toOption with
    | some n => fun k => k < n
    | none => fun _ => true
  let s := rrun ok client evs
  pure (Json.mkObj [
    ("out", Json.arr (s.out.map creqJson).toArray),
    ("blocks", Json.arr (s.blocks.map (fun b => Json.arr (b.map (fun l => Json.str (hexOf l))).toArray)).toArray),
    ("bytes", Json.str (hexOf (dataBytes s.out))),
    ("done", match s.done with | some b => Json.bool b | none => Json.null),
    ("client", Json.bool s.client)])

def sideEvOf (j : Json) : Except String (Side × REv) := do
  let a ← j.getArr?
  let sd ← (a[0]!).getStr?
  let sd ← match sd with
    | "out" => pure Side.out
    | "err" => pure Side.err
    | _ => throw s!"bad side {sd}"
  let ev ← evOf (Json.arr (a.toList.drop 1).toArray)
  pure (sd, ev)

/-- {"op":"task","events":[["out"|"err","chunk",hex]|[side,"tick"|"eof"|"cancel"]],"client_out":b,"client_err":b} -/
def handleTask (j : Json) : Except String Json := do
  let evs ← (← getArr j "events").toList.mapM sideEvOf
  let co := (getBool j "client_out").toOption.getD false
  let ce := (getBool j "client_err").toOption.getD false
  let s := trun (fun _ => true) co ce evs
  let side (r : RSt) : Json := Json.mkObj [
    ("stored", Json.str (hexOf (dataBytes r.out))),
    ("streamed", Json.str (hexOf (r.blocks.flatten.flatten))),
    ("done", match r.done with | some b => Json.bool b | none => Json.null)]
  pure (Json.mkObj [("o", side s.o), ("e", side s.e)])

end Monorail.Driver
