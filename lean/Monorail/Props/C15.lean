import Monorail.Proofs.Log
/-!
# C15 — log streaming never affects the outcome of a run
-/
namespace Monorail

/-- **C15 (non-interference).** For every sequence of chunks, ticks, end of stream or cancellation:
whether a listener is attached or not, and whichever of its writes fail (`ok`, `ok'` arbitrary), the
requests sent to the compressor — hence the stored log — and the reader's result — hence the task
status and the run's exit status — are identical. Only what the listener receives varies. -/
theorem c15_noninterference (ok ok' : Nat → Bool) (client client' : Bool) (evs : List REv) :
    (rrun ok client evs).out = (rrun ok' client' evs).out ∧
    (rrun ok client evs).done = (rrun ok' client' evs).done := by
  have := rrun_core ok ok' client client' evs
  simp only [coreOf, Prod.mk.injEq] at this
  exact ⟨this.2.2.1, this.2.2.2⟩

/-- a listener whose n-th write fails is dropped; later flushes do not write to it -/
theorem c15_drop (ok : Nat → Bool) (s : RSt) (hc : s.client = true) (hl : s.lines ≠ [])
    (hfail : ok s.writes = false) : (flush ok s).client = false ∧ (flush ok s).blocks = s.blocks := by
  unfold flush
  have : s.lines.isEmpty = false := by cases h : s.lines with | nil => exact absurd h hl | cons a t => rfl
  simp [this, hc, hfail]

/-! ## Non-vacuity: the listener dies at its second write; stored bytes are unaffected -/
example :
    let evs := [REv.chunk [97, 10], .tick, .chunk [98, 10], .tick, .chunk [99, 10], .eof]
    (rrun (fun n => n < 1) true evs).out = (rrun (fun _ => true) false evs).out ∧
    (rrun (fun n => n < 1) true evs).blocks = [[[97, 10]]] ∧
    (rrun (fun n => n < 1) true evs).done = some true := by decide

end Monorail
