#!/usr/bin/env python3
"""C16: all members of a target group execute concurrently.

Every member of the probed group waits (barrier) until all members have started; a member that
times out exits 99. The run must complete with every member `success`. Group sizes 2..64, the group
placed first, after a dependency group, after several groups, and in a second / third command."""
import sys
import time
from concurrent.futures import ThreadPoolExecutor

import scen


def one(case, model, rep):
    if len(rep.oracle_failures) >= 3:
        return  # enough evidence; every further failing case would wait for its barrier timeout
    size, pre_groups, ncmd, probe_cmd = case["size"], case["pre_groups"], case["commands"], case["probe_command"]
    # chain of `pre_groups` dependency targets d0 <- d1 <- ... and `size` members using the last one
    targets = []
    for k in range(pre_groups):
        t = {"path": "d%d" % k}
        if k > 0:
            t["uses"] = ["d%d" % (k - 1)]
        targets.append(t)
    for i in range(size):
        t = {"path": "m%02d" % i}
        if pre_groups:
            t["uses"] = ["d%d" % (pre_groups - 1)]
        targets.append(t)
    # some members are used by targets that are not part of the run (`-t members --deps`)
    consumers = case.get("consumers", [])
    for i in consumers:
        if i < size:
            targets.append({"path": "a%02d" % i, "uses": ["m%02d" % i]})
            if i % 2:
                targets.append({"path": "b%02d" % i, "uses": ["a%02d" % i]})
    cmds = ["c%d" % k for k in range(ncmd)]
    pruned = case.get("pruned")          # a checkpoint exists and only every `pruned`-th member changed
    repo = scen.Repo(targets, git=bool(pruned))
    members = list(range(size))
    if pruned:
        members = [i for i in range(size) if i % pruned == 0]
    nwait = len(members)
    try:
        plan = {}
        for k, t in enumerate(targets):
            for c in cmds:
                # every third member's command file may be a symbolic link to a shared script
                repo.install(t["path"], c, symlink=bool(case.get("symlinks")) and t["path"].startswith("m") and k % 3 == 0)
        for i in members:
            plan["%s|m%02d" % (cmds[probe_cmd], i)] = {
                "barrier": {"dir": repo.barrier_root + "/" + cmds[probe_cmd], "n": nwait, "timeout_ms": case.get("timeout_ms", 15000)}}
            if case.get("chatty"):
                # the member is still printing after the first flush tick and has written more than a
                # pipe buffer before it waits for the others
                blk = (("m%02d " % i) + "x" * 120 + "\n").encode() * 256      # ~32 KiB of lines
                plan["%s|m%02d" % (cmds[probe_cmd], i)]["pre"] = [[0, 1, blk.hex(), 1]] + [[100, 1, blk.hex(), 1] for _ in range(12)]
        repo.set_plan(plan)
        run_args = ["run", "-c"] + cmds
        if pruned:
            repo.commit_all()
            rcu, _, _, erru = repo.mono("checkpoint", "update")
            for i in members:
                with open(repo.dir + "/m%02d/file.txt" % i, "a") as f:
                    f.write("changed\n")
            rep.count("pruned_groups")
        if consumers or case.get("named_deps"):
            run_args += ["-t"] + ["m%02d" % i for i in range(size)] + ["--deps"]
            rep.count("selected_with_unselected_consumers" if consumers else "named_with_deps")
        tail = None
        if case.get("listener"):
            import logtail
            tail = logtail.start_tail(repo, {"stdout": True, "stderr": True, "targets": [], "commands": []})
            rep.count("with_listener")
        t0 = time.time()
        rc, j, out, err = repo.mono(*run_args, timeout=90)
        if tail is not None:
            tail.kill()
            tail.wait()
        rep.evaluations += 1
        if case.get("chatty"):
            rep.count("chatty_members")
        rep.count("size_%s" % ("2_8" if size <= 8 else "9_16" if size <= 16 else "17_32" if size <= 32 else "33_64"))
        rep.count("position_group_%d" % min(pre_groups, 3))
        rep.count("probe_command_%d" % probe_cmd)
        rep.nontrivial_case(case)
        ok = rc == 0 and j is not None and not j["failed"]
        bad = None
        if j is not None:
            for r in j["results"]:
                for g in r["target_groups"]:
                    for t, e in g.items():
                        if e["status"] != "success":
                            bad = [r["command"], t, e]
        if rc is None:
            scen.reap_helpers(repo)
        if not ok or bad:
            rep.oracle_fail({"kind": "a group whose members wait for each other did not complete", "case": case, "rc": rc,
                             "first_bad_entry": bad, "started_of_probe": len([t for t in repo.traces() if t["command"] == cmds[probe_cmd] and t["target"].startswith("m")]),
                             "stderr": err[-300:]})
            return
        if pruned or consumers or case.get("named_deps"):
            rep.sample({"case": case, "wall_s": round(time.time() - t0, 3)})
            return
        # the model spawns every member of a group in one step
        groups = []
        n = 0
        for c in cmds:
            for k in range(pre_groups):
                groups.append([{"id": n, "disp": "run"}])
                n += 1
            grp = []
            for i in range(size):
                grp.append({"id": n, "disp": "run"})
                n += 1
            groups.append(grp)
        m = model.ask({"op": "exec", "plan": groups, "fou": False, "inputs": []})
        first = [e for e in m["trace"]]
        # no input consumed: only the first group has been spawned, completely
        if [e[2] for e in first] != [t["id"] for t in groups[0]]:
            rep.disagree({"kind": "model does not spawn the whole first group at once", "case": case, "trace": first})
        rep.sample({"case": case, "wall_s": round(time.time() - t0, 3)})
    finally:
        repo.done()


def main():
    args = scen.parse_args(sys.argv)
    t0 = time.time()
    rep = scen.Report()
    model = scen.Model()
    cases = [c.get("case", c) for c in scen.load_corpus(args["corpus"], "C16")]
    rng = scen.Rng(args["seed"])
    if args["budget"] > 0:
        fixed = [2, 3, 8, 16, 17, 24, 33, 48]
        for s in fixed:
            cases.append({"size": s, "pre_groups": 0, "commands": 1, "probe_command": 0})
        for s in [2, 12, 20, 40]:
            cases.append({"size": s, "pre_groups": 1, "commands": 1, "probe_command": 0})
            cases.append({"size": s, "pre_groups": 2, "commands": 2, "probe_command": 1})
            cases.append({"size": s, "pre_groups": 0, "commands": 3, "probe_command": 2})
        # with a `log tail` listener attached for the whole run, quiet and chatty members
        for s in ([2, 7, 24] if args["tier"] == "quick" else [2, 3, 7, 16, 24, 40]):
            cases.append({"size": s, "pre_groups": 1, "commands": 1, "probe_command": 0, "listener": True})
        for s in ([2, 4] if args["tier"] == "quick" else [2, 3, 4, 8]):
            cases.append({"size": s, "pre_groups": 0, "commands": 1, "probe_command": 0, "listener": True, "chatty": True})
            cases.append({"size": s, "pre_groups": 0, "commands": 1, "probe_command": 0, "chatty": True})
        # groups that lost members to checkpoint pruning, or whose members have consumers outside the run
        for s, k in ([(12, 2), (9, 3)] if args["tier"] == "quick" else [(12, 2), (9, 3), (30, 2), (40, 5)]):
            cases.append({"size": s, "pre_groups": 0, "commands": 1, "probe_command": 0, "pruned": k})
        for s, cons in ([(10, [3, 7]), (6, [0, 1, 4])] if args["tier"] == "quick" else [(10, [3, 7]), (6, [0, 1, 4]), (24, [1, 2, 3, 20])]):
            cases.append({"size": s, "pre_groups": 0, "commands": 1, "probe_command": 0, "consumers": cons})
        # members named with -t .. --deps in a configuration without any `uses`; symlinked command files
        for s in ([2, 7] if args["tier"] == "quick" else [2, 7, 24, 40]):
            cases.append({"size": s, "pre_groups": 0, "commands": 1, "probe_command": 0, "named_deps": True})
            cases.append({"size": s + 1, "pre_groups": 1, "commands": 1, "probe_command": 0, "symlinks": True})
        n = (150 if args["tier"] == "thorough" else 12) * args["budget"]
        for _ in range(n):
            nc = rng.range(1, 3)
            cases.append({"size": rng.range(2, 64), "pre_groups": rng.range(0, 4), "commands": nc, "probe_command": rng.below(nc)})
        if args["tier"] == "thorough":
            for s in range(2, 65):
                cases.append({"size": s, "pre_groups": 0, "commands": 1, "probe_command": 0})
    scen.run_cases(lambda c: one(c, model, rep), cases, rep, 4)
    scen.finish(args, rep, t0, model)


if __name__ == "__main__":
    main()
