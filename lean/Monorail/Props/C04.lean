import Monorail.Proofs.ExecInv
/-!
# C04 — commands run in dependency order under every schedule

The executor machine processes the flattened plan (all groups of the first command, then of the
second, …); a schedule is an arbitrary list of completions. Together with C03 (each target is in a
later group than everything it depends on) the theorems below give the property: an executable is
started only after every executable of every earlier group — in particular of its dependencies, and
of every earlier command — has exited.
-/
namespace Monorail

/-- **C04 (barrier).** Under every schedule: when a task of group `g` is spawned, every task of a
different group spawned before it has already completed. -/
theorem c04_barrier (fou : Bool) (plan : List Group) (inputs : List (Nat × Outcome))
    {pre post : List Ev} {g a : Nat}
    (h : (runExec fou plan inputs).trace = pre ++ Ev.spawn g a :: post)
    {g' b : Nat} (hb : Ev.spawn g' b ∈ pre) (hne : g' ≠ g) : ∃ oc, Ev.done b oc ∈ pre :=
  (runExec_inv fou plan inputs).barrier pre g a post h g' b hb hne

/-- **C04 (plan order).** Groups are entered in the order of the plan. -/
theorem c04_ordered (fou : Bool) (plan : List Group) (inputs : List (Nat × Outcome))
    {pre post : List Ev} {g a : Nat}
    (h : (runExec fou plan inputs).trace = pre ++ Ev.spawn g a :: post)
    {g' b : Nat} (hb : Ev.spawn g' b ∈ pre) : g' ≤ g :=
  (runExec_inv fou plan inputs).ordered pre g a post h g' b hb

/-- **C04 (position).** A spawn event names the plan position of the task's group; only tasks whose
command resolves to an executable are ever spawned. -/
theorem c04_where (fou : Bool) (plan : List Group) (inputs : List (Nat × Outcome)) {g i : Nat}
    (h : Ev.spawn g i ∈ (runExec fou plan inputs).trace) :
    ∃ grp, plan[g]? = some grp ∧ ∃ t ∈ grp, t.id = i ∧ t.disp = .run :=
  (runExec_inv fou plan inputs).whereSpawn g i h

theorem group_of_id_unique {plan : List Group} (hnd : (planIds plan).Nodup) {g g' : Nat}
    {G G' : Group} (hG : plan[g]? = some G) (hG' : plan[g']? = some G') {t t' : Task}
    (ht : t ∈ G) (ht' : t' ∈ G') (hid : t.id = t'.id) : g = g' := by
  induction plan generalizing g g' with
  | nil => simp at hG
  | cons P rest ih =>
    simp only [planIds, List.flatMap_cons] at hnd
    rw [List.nodup_append] at hnd
    obtain ⟨_, hrest, hdisj⟩ := hnd
    have inP : ∀ {x : Task}, x ∈ P → x.id ∈ gIds P := fun hx => List.mem_map_of_mem hx
    have inRest : ∀ {k : Nat} {H : Group} {x : Task}, rest[k]? = some H → x ∈ H → x.id ∈ List.flatMap gIds rest :=
      fun hH hx => List.mem_flatMap.mpr ⟨_, List.mem_of_getElem? hH, List.mem_map_of_mem hx⟩
    cases g with
    | zero =>
      cases g' with
      | zero => rfl
      | succ k' =>
        simp at hG; subst hG
        simp only [List.getElem?_cons_succ] at hG'
        exact absurd hid (hdisj _ (inP ht) _ (inRest hG' ht'))
    | succ k =>
      cases g' with
      | zero =>
        simp at hG'; subst hG'
        simp only [List.getElem?_cons_succ] at hG
        exact absurd hid.symm (hdisj _ (inP ht') _ (inRest hG ht))
      | succ k' =>
        simp only [List.getElem?_cons_succ] at hG hG'
        have := ih (by simpa [planIds] using hrest) hG hG'
        omega

/-- **C04 (dependency order, every schedule).** Let the (command, target) pairs of the plan have
distinct ids. If task `u` sits in an earlier group of the plan than task `t` (as every dependency of
`t`, and every task of an earlier command, does) and `u` was spawned at all, then `u` has completed
before `t` is spawned. -/
theorem c04_dep (fou : Bool) (plan : List Group) (hnd : (planIds plan).Nodup)
    (inputs : List (Nat × Outcome))
    {gU gT : Nat} {GU GT : Group} (hGU : plan[gU]? = some GU) (hGT : plan[gT]? = some GT)
    {u t : Task} (hu : u ∈ GU) (ht : t ∈ GT) (hlt : gU < gT)
    {pre post : List Ev} {g : Nat}
    (h : (runExec fou plan inputs).trace = pre ++ Ev.spawn g t.id :: post)
    {g' : Nat} (hus : Ev.spawn g' u.id ∈ (runExec fou plan inputs).trace) :
    ∃ oc, Ev.done u.id oc ∈ pre := by
  have inv := runExec_inv fou plan inputs
  -- the events carry the plan positions
  have hg : g = gT := by
    obtain ⟨G, hG, x, hx, hxid, _⟩ := inv.whereSpawn g t.id (by rw [h]; simp)
    exact group_of_id_unique hnd hG hGT hx ht hxid
  have hg' : g' = gU := by
    obtain ⟨G, hG, x, hx, hxid, _⟩ := inv.whereSpawn g' u.id hus
    exact group_of_id_unique hnd hG hGU hx hu hxid
  subst hg hg'
  -- `u`'s spawn cannot come after `t`'s: groups are entered in plan order
  have hpre : Ev.spawn g' u.id ∈ pre := by
    rw [h] at hus
    rcases List.mem_append.mp hus with hp | hp
    · exact hp
    · rcases List.mem_cons.mp hp with hp | hp
      · injection hp with h1 h2; omega
      · obtain ⟨p1, p2, hsplit⟩ := List.append_of_mem hp
        have := inv.ordered (pre ++ Ev.spawn g t.id :: p1) g' u.id p2
          (by rw [h, hsplit]; simp) g t.id (by simp)
        omega
  exact inv.barrier pre g t.id post h g' u.id hpre (by omega)

/-! ## Non-vacuity: a dependency that is slower than its dependent, two commands -/

/-- plan: command 0 over groups [u] , [t, v]; command 1 over the same groups (ids 3..5) -/
def exPlan : List Group :=
  [[⟨0, .run⟩], [⟨1, .run⟩, ⟨2, .undefined⟩], [⟨3, .run⟩], [⟨4, .run⟩, ⟨5, .run⟩]]

example : (runExec false exPlan [(0, .code 0), (1, .code 0), (3, .code 0), (5, .code 0), (4, .code 0)]).trace =
    [.spawn 0 0, .done 0 (.code 0), .spawn 1 1, .done 1 (.code 0), .spawn 2 3, .done 3 (.code 0),
     .spawn 3 4, .spawn 3 5, .done 5 (.code 0), .done 4 (.code 0)] := by decide

end Monorail
