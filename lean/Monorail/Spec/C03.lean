import Monorail.Model.Graph
import Monorail.Model.Index
/-! Decidable oracles for C03 / C09, evaluated by the driver on the implementation's groups. -/
namespace Monorail

def nodupB : List Nat → Bool
  | [] => true
  | x :: xs => !xs.contains x && nodupB xs

def groupIndex (gs : List (List Nat)) (x : Nat) : Option Nat := gs.findIdx? (fun grp => grp.contains x)

/-- some visible node lies on a cycle: it is reachable from one of its own dependencies -/
def cyclicB (g : Graph) (vis : List Nat) : Bool :=
  vis.any (fun v => (closure g (g.out v)).contains v)

/-- ORACLE for groups in `get_groups` order (dependents first): `none` = accepted -/
def c03Check (g : Graph) (roots : List Nat) (obs : List (List Nat)) : Option String :=
  let vis := closure g roots
  let flat := obs.flatten
  if obs.any (fun grp => grp.isEmpty) then some "empty group"
  else if !nodupB flat then some "a target appears in two groups"
  else if !(vis.all (fun x => flat.contains x) && flat.all (fun x => vis.contains x)) then
    some "groups are not exactly the requested targets"
  else if vis.any (fun u => (g.out u).any (fun v =>
      match groupIndex obs u, groupIndex obs v with
      | some i, some j => !(i < j)
      | _, _ => true)) then some "a target is not strictly after a target it depends on"
  else none

end Monorail
