import Monorail.Proofs.Store
/-!
# C13 — a crash during `run` never damages previously recorded state

A crash is a strict prefix of the run's effect list (the final effect is the atomic rename of the
pointer), optionally followed by a *torn* version of the next effect (a log file, the result file
or the temporary pointer file only partially written).
-/
namespace Monorail

/-- a write that was interrupted half-way -/
def tear : Eff → Eff
  | .writeLog i k _ => .writeLog i k .torn
  | .writeResult i _ => .writeResult i .torn
  | e => e

/-- the store a `run` killed after `k` effects (and, if `torn`, in the middle of the next one) leaves -/
def crashed (max : Nat) (s : Store) (r : Run) (k : Nat) (torn : Bool) : Store :=
  let body := runBody (nextId s.pointer max) r
  let pre := applyAll s (body.take k)
  if torn then
    match body[k]? with
    | some e => applyEff pre (tear e)
    | none => pre
  else pre

theorem tear_local {n : Nat} {e : Eff} (h : LocalTo n e) : LocalTo n (tear e) := by
  cases e <;> simpa [tear, LocalTo] using h

theorem nextId_ne_pointer (max : Nat) (hmax : 2 ≤ max) (p : Nat) : nextId (some p) max ≠ p := by
  unfold nextId
  simp only [Option.getD_some]
  split <;> omega

/-- everything but the next slot (and the temporary pointer file) is untouched by a crashed run -/
theorem crashed_frame (max : Nat) (s : Store) (r : Run) (k : Nat) (torn : Bool) :
    (crashed max s r k torn).pointer = s.pointer ∧
    ∀ j, j ≠ nextId s.pointer max → (crashed max s r k torn).slots j = s.slots j := by
  unfold crashed
  have hloc := runBody_local (nextId s.pointer max) r
  have hpre := applyAll_local ((runBody (nextId s.pointer max) r).take k)
    (fun e he => hloc e (List.mem_of_mem_take he)) s
  simp only []
  split
  · split
    · rename_i e he
      have hmem : e ∈ runBody (nextId s.pointer max) r := List.mem_of_getElem? he
      obtain ⟨h1, h2⟩ := applyEff_local (tear_local (hloc e hmem))
        (applyAll s ((runBody (nextId s.pointer max) r).take k))
      exact ⟨h1.trans hpre.1, fun j hj => (h2 j hj).trans (hpre.2 j hj)⟩
    · exact hpre
  · exact hpre

/-- **C13 (previous state preserved).** With `max_retained_runs ≥ 2`: wherever a `run` is killed —
before, during or after command execution, including in the middle of writing a log, the result
file or the pointer's temporary file — `result show` and `log show` (latest, and every retained
slot other than the one being rebuilt) return exactly what they returned before. -/
theorem c13_preserved (max : Nat) (hmax : 2 ≤ max) (s : Store) (r : Run) (k : Nat) (torn : Bool) :
    resultShow (crashed max s r k torn) = resultShow s ∧
    logShow (crashed max s r k torn) none = logShow s none ∧
    ∀ i, i ≠ nextId s.pointer max → logShow (crashed max s r k torn) (some i) = logShow s (some i) := by
  obtain ⟨hp, hs⟩ := crashed_frame max s r k torn
  refine ⟨?_, ?_, ?_⟩
  · unfold resultShow
    rw [hp]
    cases hptr : s.pointer with
    | none => rfl
    | some p =>
      have : p ≠ nextId s.pointer max := by rw [hptr]; exact (nextId_ne_pointer max hmax p).symm
      simp only [hs p this]
  · unfold logShow
    rw [hp]
    cases hptr : s.pointer with
    | none => rfl
    | some p =>
      have : p ≠ nextId s.pointer max := by rw [hptr]; exact (nextId_ne_pointer max hmax p).symm
      simp only [hs p this]
  · intro i hi
    simp only [logShow, hs i hi]

/-- **C13 (the next run succeeds normally).** A complete `run` started from the crashed store ends
in the same pointer and the same content of every slot as the same run started from the store
before the crash: the crash leaves no trace. -/
theorem c13_next (max : Nat) (s : Store) (r r' : Run) (k : Nat) (torn : Bool) :
    (doRun max (crashed max s r k torn) r').pointer = (doRun max s r').pointer ∧
    (doRun max (crashed max s r k torn) r').tmp = (doRun max s r').tmp ∧
    ∀ j, (doRun max (crashed max s r k torn) r').slots j = (doRun max s r').slots j := by
  obtain ⟨hp, hs⟩ := crashed_frame max s r k torn
  obtain ⟨a1, a2, a3, a4⟩ := doRun_spec max (crashed max s r k torn) r'
  obtain ⟨b1, b2, b3, b4⟩ := doRun_spec max s r'
  rw [hp] at a1 a3 a4
  refine ⟨a1.trans b1.symm, a2.trans b2.symm, ?_⟩
  intro j
  by_cases hj : j = nextId s.pointer max
  · subst hj; rw [a3, b3]
  · rw [a4 j hj, b4 j hj, hs j hj]

/-! ## The unrepaired pointer write (truncate, then write in place) is not crash safe -/

/-- pinned tree: `Run::save` opened `run.json` with truncate and wrote it afterwards -/
def legacySaveCrashed (_old : LegacyPtr) : LegacyPtr := .empty

def legacyResultShow : LegacyPtr → Option Nat
  | .readable v => some v
  | .empty => none

/-- a kill between the truncation and the write loses the pointer: `result show` fails -/
example : legacyResultShow (legacySaveCrashed (.readable 3)) ≠ legacyResultShow (.readable 3) := by decide

/-! ## Non-vacuity: a crash in the middle of the result write of the third run, max = 2 -/

def exStore : Store := history 2 [⟨10, [(1, 100)]⟩, ⟨20, [(1, 200)]⟩]
def exRun : Run := ⟨30, [(1, 300), (2, 301)]⟩

-- effects: wipe, mkSlot, writeLog, writeLog, writeResult, ptrTmp ; k = 4 torn = crash inside writeResult
example : resultShow (crashed 2 exStore exRun 4 true) = some 20 ∧
    (crashed 2 exStore exRun 4 true).slots 1 = some { result := some .torn, logs := [(1, .full 300), (2, .full 301)] } ∧
    resultShow (doRun 2 (crashed 2 exStore exRun 4 true) ⟨40, []⟩) = some 40 := by decide

end Monorail
