/-! Feasibility spike: abstract Kahn layering (model side, import-free). -/
namespace G

structure Graph where
  adj : List (List Nat)

def Graph.out (g : Graph) (u : Nat) : List Nat := g.adj.getD u []

/-- nodes of `rem` that no node of `rem` depends on (no incoming edge from `rem`) -/
def peel (g : Graph) (rem : List Nat) : List Nat :=
  rem.filter (fun v => rem.all (fun u => !(g.out u).contains v))

def layersAux (g : Graph) : Nat → List Nat → List (List Nat) × List Nat
  | 0, rem => ([], rem)
  | fuel+1, rem =>
    let p := peel g rem
    if p.isEmpty then ([], rem)
    else
      let r := layersAux g fuel (rem.filter (fun v => !p.contains v))
      (p :: r.1, r.2)

def layers (g : Graph) (vis : List Nat) : List (List Nat) × List Nat :=
  layersAux g vis.length vis

#eval layers ⟨[[1,2],[2],[],[1]]⟩ [0,1,2,3]   -- ([[0,3],[1],[2]], [])
#eval layers ⟨[[1],[0],[]]⟩ [0,1,2]           -- ([[2]], [0,1])
end G
