"""Observation helpers for the run-slot store: parse `log show`, canonicalise `result show`."""
import json
import os
import re

HEADER = re.compile(rb"\[monorail \| (?:\x1b\[[0-9;]*m)?(stdout|stderr)\.zst(?:\x1b\[0m)? \| ([^\n|]*?) \| ([^\n|]*?)\]\n")


def parse_log_show(out):
    """bytes of `log show` -> {(stream, target, command): content}; None if it does not parse"""
    blocks = {}
    pos = 0
    m = HEADER.match(out, pos)
    if out and not m:
        return None
    while m:
        key = (m.group(1).decode(), m.group(2).decode("utf-8", "replace"), m.group(3).decode("utf-8", "replace"))
        start = m.end()
        nxt = HEADER.search(out, start)
        end = nxt.start() if nxt else len(out)
        if key in blocks:
            blocks[key] += out[start:end]
        else:
            blocks[key] = out[start:end]
        m = nxt
    return blocks


def canon_doc(j):
    """result document without timestamps / runtimes"""
    if j is None:
        return None
    res = []
    for r in j.get("results", []):
        groups = []
        for g in r["target_groups"]:
            groups.append({t: [e["status"], e.get("code")] for t, e in sorted(g.items())})
        res.append([r["command"], groups])
    return {"failed": j.get("failed"), "invocation": j.get("invocation"), "results": res}


def show_all(repo, max_runs):
    """everything the read APIs return: result show, log show, log show --id i for every i, run dirs"""
    rc, j, out, err = repo.mono("result", "show")
    obs = {"result": canon_doc(j) if rc == 0 else None}
    rc, _, out, err = repo.mono("log", "show", "--stdout", "--stderr")
    obs["logs"] = parse_log_show(out) if rc == 0 else None
    obs["by_id"] = {}
    for i in range(1, max_runs + 2):
        rc, _, out, err = repo.mono("log", "show", "--stdout", "--stderr", "--id", str(i))
        obs["by_id"][i] = parse_log_show(out) if rc == 0 else None
    rd = os.path.join(repo.out_dir, "run")
    obs["dirs"] = sorted(os.listdir(rd)) if os.path.isdir(rd) else []
    return obs
