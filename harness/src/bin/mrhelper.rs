//! The executable every generated monorail command is a copy (hard link) of.
//!
//! It identifies itself by the stem of argv[0] (the command name) and its working directory
//! relative to $MRHELPER_ROOT (the target), looks up its script under the key "<command>|<target>"
//! (fallbacks "<command>|*", "*") in the JSON file $MRHELPER_PLAN, follows it, and records what it
//! observed in $MRHELPER_TRACE/<pid>.start.json and <pid>.end.json (each written to a temporary
//! name and renamed, so a reader never sees a partial record).
//!
//! Script fields (all optional):
//!   "exit": n                       exit status (default 0)
//!   "sleep_ms": n                   sleep before exiting
//!   "steps": [[delay_ms, fd, hex]]  after delay_ms write the bytes to fd 1 / 2 (unbuffered)
//!   "pre": [[delay_ms, fd, hex, count]]  before the barrier: after delay_ms write the bytes `count` times
//!   "by_count": [script, ..]        the n-th start of this (command, target) follows the n-th script
//!   "repeat": [[count, fd, hex]]    after the steps, write the bytes `count` times to fd 1 / 2 (volume)
//!   "barrier": {"dir": d, "n": k, "timeout_ms": t}
//!                                   create d/<pid>, wait until d holds >= k entries, else exit 99
//!   "redirect": true                close stdout/stderr first (task detaches from its pipes)
//!   "kill_self": true               end by SIGKILL instead of exiting (recorded with "signal": 9)
//!   "spawn": [argv..]               run another program from inside the task, record rc and stderr
//!   "chmod": [[path, mode]]         set the permission bits of other files first (a step of the
//!                                   build that changes what a later command will find)
//!   "rm_run_cmd": "<command>"       remove $MRHELPER_ROOT/<out>/run/*/<command> first (a "clean"
//!                                   step wiping the log directories of the run in progress);
//!                                   "out" names the output directory (default monorail-out)
use std::io::Write;
use std::time::Duration;

#[repr(C)]
struct Timespec {
    tv_sec: i64,
    tv_nsec: i64,
}
extern "C" {
    fn clock_gettime(clk: i32, ts: *mut Timespec) -> i32;
}
fn mono_ns() -> u128 {
    let mut ts = Timespec { tv_sec: 0, tv_nsec: 0 };
    unsafe {
        clock_gettime(1, &mut ts); // CLOCK_MONOTONIC
    }
    (ts.tv_sec as u128) * 1_000_000_000 + ts.tv_nsec as u128
}

fn hex(b: &[u8]) -> String {
    b.iter().map(|x| format!("{:02x}", x)).collect()
}
fn unhex(s: &str) -> Vec<u8> {
    (0..s.len() / 2).map(|i| u8::from_str_radix(&s[2 * i..2 * i + 2], 16).unwrap_or(0)).collect()
}

fn write_record(dir: &str, name: &str, v: &serde_json::Value) {
    let tmp = format!("{}/.{}.tmp", dir, name);
    let fin = format!("{}/{}", dir, name);
    if std::fs::write(&tmp, v.to_string()).is_ok() {
        let _ = std::fs::rename(&tmp, &fin);
    }
}

fn main() {
    use std::os::unix::ffi::OsStrExt;
    let t_start = mono_ns();
    let args: Vec<std::ffi::OsString> = std::env::args_os().collect();
    let argv0 = std::path::PathBuf::from(&args[0]);
    let command = argv0.file_stem().map(|s| s.to_string_lossy().to_string()).unwrap_or_default();
    let cwd = std::env::current_dir().unwrap_or_default();
    let root = std::env::var("MRHELPER_ROOT").unwrap_or_default();
    let target = cwd
        .strip_prefix(&root)
        .map(|p| p.to_string_lossy().to_string())
        .unwrap_or_else(|_| cwd.to_string_lossy().to_string());
    let pid = std::process::id();
    let trace_dir = std::env::var("MRHELPER_TRACE").ok();
    let plan: serde_json::Value = std::env::var("MRHELPER_PLAN")
        .ok()
        .and_then(|p| std::fs::read_to_string(p).ok())
        .and_then(|s| serde_json::from_str(&s).ok())
        .unwrap_or(serde_json::Value::Null);
    // "<command>|<target>/": the key of a target whose path is declared with a trailing slash
    let script = [format!("{}|{}", command, target), format!("{}|{}/", command, target), format!("{}|*", command), "*".to_string()]
        .iter()
        .find_map(|k| plan.get(k).cloned())
        .unwrap_or(serde_json::Value::Null);

    // "by_count": [script, script, ..]: the n-th start of this (command, target) in this trace
    // directory follows the n-th script (the last one from then on)
    let script = match script.get("by_count").and_then(|v| v.as_array()) {
        Some(list) if !list.is_empty() => {
            let mut n = 0usize;
            if let Some(d) = &trace_dir {
                if let Ok(rd) = std::fs::read_dir(d) {
                    for e in rd.flatten() {
                        let name = e.file_name().to_string_lossy().to_string();
                        if !name.ends_with(".start.json") || name.starts_with('.') {
                            continue;
                        }
                        if let Ok(txt) = std::fs::read_to_string(e.path()) {
                            if let Ok(v) = serde_json::from_str::<serde_json::Value>(&txt) {
                                if v["command"] == command.as_str() && v["target"] == target.as_str() {
                                    n += 1;
                                }
                            }
                        }
                    }
                }
            }
            list[n.min(list.len() - 1)].clone()
        }
        _ => script,
    };

    let argv_hex: Vec<String> = args.iter().skip(1).map(|a| hex(a.as_bytes())).collect();
    if let Some(d) = &trace_dir {
        write_record(
            d,
            &format!("{}.start.json", pid),
            &serde_json::json!({
                "pid": pid, "command": command, "target": target, "argv0": args[0].to_string_lossy(),
                "argv": argv_hex, "cwd": cwd.to_string_lossy(), "start_ns": t_start.to_string(),
            }),
        );
    }

    let mut exit_code = script.get("exit").and_then(|v| v.as_i64()).unwrap_or(0) as i32;

    if let Some(list) = script.get("chmod").and_then(|v| v.as_array()) {
        use std::os::unix::fs::PermissionsExt;
        for e in list {
            if let (Some(p), Some(m)) = (e.get(0).and_then(|v| v.as_str()), e.get(1).and_then(|v| v.as_u64())) {
                let _ = std::fs::set_permissions(p, std::fs::Permissions::from_mode(m as u32));
            }
        }
    }
    if let Some(cmd) = script.get("rm_run_cmd").and_then(|v| v.as_str()) {
        let out = script.get("out").and_then(|v| v.as_str()).unwrap_or("monorail-out");
        if let Ok(rd) = std::fs::read_dir(format!("{}/{}/run", root, out)) {
            for e in rd.flatten() {
                let _ = std::fs::remove_dir_all(e.path().join(cmd));
            }
        }
    }

    if script.get("redirect").and_then(|v| v.as_bool()).unwrap_or(false) {
        extern "C" {
            fn close(fd: i32) -> i32;
        }
        unsafe {
            close(1);
            close(2);
        }
    }

    if let Some(pre) = script.get("pre").and_then(|v| v.as_array()) {
        for st in pre {
            let delay = st.get(0).and_then(|v| v.as_u64()).unwrap_or(0);
            let fd = st.get(1).and_then(|v| v.as_u64()).unwrap_or(1);
            let bytes = unhex(st.get(2).and_then(|v| v.as_str()).unwrap_or(""));
            let count = st.get(3).and_then(|v| v.as_u64()).unwrap_or(1);
            if delay > 0 {
                std::thread::sleep(Duration::from_millis(delay));
            }
            let mut out: Box<dyn Write> = if fd == 2 { Box::new(std::io::stderr()) } else { Box::new(std::io::stdout()) };
            for _ in 0..count {
                if out.write_all(&bytes).is_err() {
                    break;
                }
            }
            let _ = out.flush();
        }
    }

    if let Some(b) = script.get("barrier") {
        let dir = b.get("dir").and_then(|v| v.as_str()).unwrap_or("").to_string();
        let n = b.get("n").and_then(|v| v.as_u64()).unwrap_or(1) as usize;
        let timeout = b.get("timeout_ms").and_then(|v| v.as_u64()).unwrap_or(10_000);
        let _ = std::fs::create_dir_all(&dir);
        let _ = std::fs::write(format!("{}/{}", dir, pid), b"");
        let t0 = std::time::Instant::now();
        loop {
            let k = std::fs::read_dir(&dir).map(|r| r.count()).unwrap_or(0);
            if k >= n {
                break;
            }
            if t0.elapsed() > Duration::from_millis(timeout) {
                exit_code = 99;
                break;
            }
            std::thread::sleep(Duration::from_millis(5));
        }
    }

    if let Some(steps) = script.get("steps").and_then(|v| v.as_array()) {
        let mut out = std::io::stdout();
        let mut err = std::io::stderr();
        for st in steps {
            let delay = st.get(0).and_then(|v| v.as_u64()).unwrap_or(0);
            let fd = st.get(1).and_then(|v| v.as_u64()).unwrap_or(1);
            let bytes = unhex(st.get(2).and_then(|v| v.as_str()).unwrap_or(""));
            if delay > 0 {
                std::thread::sleep(Duration::from_millis(delay));
            }
            if fd == 2 {
                let _ = err.write_all(&bytes);
                let _ = err.flush();
            } else {
                let _ = out.write_all(&bytes);
                let _ = out.flush();
            }
        }
    }

    if let Some(reps) = script.get("repeat").and_then(|v| v.as_array()) {
        for r in reps {
            let count = r.get(0).and_then(|v| v.as_u64()).unwrap_or(0);
            let fd = r.get(1).and_then(|v| v.as_u64()).unwrap_or(1);
            let bytes = unhex(r.get(2).and_then(|v| v.as_str()).unwrap_or(""));
            let mut out: Box<dyn Write> = if fd == 2 { Box::new(std::io::stderr()) } else { Box::new(std::io::stdout()) };
            for _ in 0..count {
                if out.write_all(&bytes).is_err() {
                    break;
                }
            }
            let _ = out.flush();
        }
    }

    if let Some(ms) = script.get("sleep_ms").and_then(|v| v.as_u64()) {
        std::thread::sleep(Duration::from_millis(ms));
    }

    // "spawn": [argv..]: run another program from inside the task (with the task's environment) and
    // record how it ended
    let mut spawned = serde_json::Value::Null;
    if let Some(argv) = script.get("spawn").and_then(|v| v.as_array()) {
        let argv: Vec<String> = argv.iter().filter_map(|v| v.as_str().map(|s| s.to_string())).collect();
        if !argv.is_empty() {
            match std::process::Command::new(&argv[0]).args(&argv[1..]).stdin(std::process::Stdio::null()).output() {
                Ok(o) => {
                    let err = String::from_utf8_lossy(&o.stderr).to_string();
                    let tail: String = err.chars().rev().take(300).collect::<String>().chars().rev().collect();
                    spawned = serde_json::json!({"rc": o.status.code(), "stderr": tail});
                }
                Err(e) => spawned = serde_json::json!({"rc": null, "stderr": e.to_string()}),
            }
        }
    }
    if script.get("kill_self").and_then(|v| v.as_bool()).unwrap_or(false) {
        // the process ends by a signal (as under the OOM killer or a CI time limit): no exit code
        if let Some(d) = &trace_dir {
            write_record(
                d,
                &format!("{}.end.json", pid),
                &serde_json::json!({"pid": pid, "command": command, "target": target, "end_ns": mono_ns().to_string(), "signal": 9}),
            );
        }
        extern "C" {
            fn kill(pid: i32, sig: i32) -> i32;
        }
        unsafe {
            kill(pid as i32, 9);
        }
        std::thread::sleep(Duration::from_secs(5));
    }
    if let Some(d) = &trace_dir {
        write_record(
            d,
            &format!("{}.end.json", pid),
            &serde_json::json!({"pid": pid, "command": command, "target": target, "end_ns": mono_ns().to_string(), "exit": exit_code,
                "spawned": spawned}),
        );
    }
    std::process::exit(exit_code);
}
