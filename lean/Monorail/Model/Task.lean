import Monorail.Model.Log
/-!
# One task: the child's two log readers composed (`run_task`, the place of defect D12)

A task runs its stdout reader, its stderr reader and the wait for the child concurrently. Each
reader is the machine of `Model/Log` (`rstep`); a schedule is a list of events, each addressed to one
of the two readers. Cancellation reaches each reader as its own `cancel` event, at any position.

Repaired code (`join!(stdout, stderr)` first, then `try_join!` with the child): a reader that
returns an error does not stop its sibling - the readers never interact, `tstep`.

LEGACY (`try_join!(stdout, stderr, child)`): as soon as one reader returns an error the other
futures are dropped at whatever await point they have reached. The final flush of a reader has an
await point between handing its lines to the compressor and writing them to the listener; a reader
dropped there has stored its lines but never streamed them (`dropMidFlush`, `tstepLegacy`).
Import-free.
-/
namespace Monorail

inductive Side where
  | out | err
deriving Repr, DecidableEq

structure TaskSt where
  o : RSt
  e : RSt
deriving Repr, DecidableEq

def TaskSt.init (co ce : Bool) : TaskSt := { o := RSt.init co, e := RSt.init ce }

/-- repaired: the event goes to its reader, the other reader is untouched -/
def tstep (ok : Nat → Bool) (s : TaskSt) : Side × REv → TaskSt
  | (.out, ev) => { s with o := rstep ok s.o ev }
  | (.err, ev) => { s with e := rstep ok s.e ev }

def trun (ok : Nat → Bool) (co ce : Bool) (evs : List (Side × REv)) : TaskSt :=
  evs.foldl (tstep ok) (TaskSt.init co ce)

/-- the events of a schedule addressed to one side -/
def eventsOf (sd : Side) (evs : List (Side × REv)) : List REv :=
  (evs.filter (fun x => x.1 = sd)).map (·.2)

/-- LEGACY: a reader dropped in the middle of its final flush - the remainder of its line and its
pending lines have reached the compressor, the listener write and `End` never happen -/
def dropMidFlush (s : RSt) : RSt :=
  if s.done.isSome then s
  else
    let ls := if s.buf.isEmpty then s.lines else s.lines ++ [s.buf]
    { s with out := if ls.isEmpty then s.out else s.out ++ [.data ls], lines := [], buf := [],
             done := some false }

/-- LEGACY: a `cancel` that makes one reader return its error drops the sibling where it stands -/
def tstepLegacy (ok : Nat → Bool) (s : TaskSt) : Side × REv → TaskSt
  | (.out, .cancel) => { o := rstep ok s.o .cancel, e := dropMidFlush s.e }
  | (.err, .cancel) => { o := dropMidFlush s.o, e := rstep ok s.e .cancel }
  | x => tstep ok s x

def trunLegacy (ok : Nat → Bool) (co ce : Bool) (evs : List (Side × REv)) : TaskSt :=
  evs.foldl (tstepLegacy ok) (TaskSt.init co ce)

end Monorail
