"""Per-property registry used by /verif/check: which Lean modules hold the property theorems, which
harness decides the correspondence, and the text that goes into the evidence file."""

PROPS = {
    "C10": {
        "modules": ["Monorail.Props.C10"],
        "kind": "rust",
        "rule": "configurations from the structured generator (prefix-sharing sibling names, nesting, uses that name targets / files in targets / directories above targets / outside paths, duplicates and non-normal spellings as a separate malformed stream) plus an exhaustive small universe; a case is non-trivial when the configuration is well-formed, has >= 2 targets and the implementation reports >= 1 dependency edge; distinct = distinct configuration values",
        "trusted": ["trie-rs common_prefix_search is modelled as 'all stored non-empty keys that are byte prefixes' (exercised only through the correspondence)"],
        "assumptions": ["theorem hypothesis WF: target paths pairwise distinct and normal (non-empty, no empty component); other inputs are compared model-vs-implementation only"],
    },
}
