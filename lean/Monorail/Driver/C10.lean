import Monorail.Driver.Util
import Monorail.Spec.C10
import Monorail.Model.Graph
open Lean
namespace Monorail.Driver

/-- request: {"op":"c10","targets":[..],"obs":[[..]..]?}
    answer : {"wf":b,"model":{"ok":[[..]]}|{"err":"dup_label"},"oracle":"ok"|"skip"|"fail","witness":[i,j]} -/
def handleC10 (j : Json) : Except String Json := do
  let cfg ← configOf j
  let wf := wfDB cfg
  let model : Json :=
    if hasDupPath cfg then Json.mkObj [("err", Json.str "dup_label")]
    else
      let adj := adjacency cfg
      -- `Index::new` makes every target visible and fails when a cycle is reachable
      match groups ⟨adj⟩ (List.range cfg.length) with
      | .error _ => Json.mkObj [("err", Json.str "cycle"), ("adj", jNatLists adj)]
      | .ok _ => Json.mkObj [("ok", jNatLists adj)]
  let base := [("wf", Json.bool wf), ("model", model)]
  match j.getObjVal? "obs" with
  | .ok (.arr a) =>
    let obs ← natListsOf a
    if !wf then pure (Json.mkObj (base ++ [("oracle", Json.str "skip")]))
    else match c10MismatchD cfg obs with
      | none => pure (Json.mkObj (base ++ [("oracle", Json.str "ok")]))
      | some (i, k) => pure (Json.mkObj (base ++ [("oracle", Json.str "fail"), ("witness", jNats [i, k])]))
  | _ => pure (Json.mkObj (base ++ [("oracle", Json.str "none")]))

end Monorail.Driver
