/-!
# The lock protocol of the mutating APIs (`run`, `checkpoint update`, `checkpoint delete`, `out delete`)

Every handler first tries to bind the lock address (`LockServer::acquire`). The OS primitive is:
binding succeeds iff nobody holds the address, and the address is released when its holder exits or
is killed. A handler whose bind failed returns the lock error (exit status 2) without doing
anything; a handler whose bind succeeded performs its effects and releases on exit.
Schedules, start offsets and kills are the event list. Import-free.
-/
namespace Monorail

inductive Pc where
  | start
  | holding
  | exited (rc : Nat)
  | dead
deriving Repr, DecidableEq

structure LProc where
  pc : Pc
  effects : Nat          -- mutations performed (executables started, files written)
  lockFailed : Bool      -- its bind was refused
deriving Repr, DecidableEq

structure LockSt where
  procs : List LProc
  lock : Option Nat      -- pid (index) of the process whose listener is bound
deriving Repr, DecidableEq

inductive LEv where
  | tryAcquire (p : Nat)
  | effect (p : Nat)
  | finish (p : Nat) (rc : Nat)
  | kill (p : Nat)
  /-- the bind did not complete before its timer (`bind_timeout_ms`; possible when the lock host is
  given by name): `ServerError::BindTimeout`, fatal like a refused bind, whoever holds or not -/
  | bindTimeout (p : Nat)
deriving Repr, DecidableEq

def setProc (ps : List LProc) (p : Nat) (f : LProc → LProc) : List LProc :=
  match ps, p with
  | [], _ => []
  | x :: xs, 0 => f x :: xs
  | x :: xs, n + 1 => x :: setProc xs n f

def pcOf (s : LockSt) (p : Nat) : Option Pc := (s.procs[p]?).map (·.pc)

/-- exit status of the lock error (`HANDLE_FATAL`) -/
def lockErrorRc : Nat := 2

def lstep (s : LockSt) : LEv → LockSt
  | .tryAcquire p =>
    if pcOf s p = some .start then
      match s.lock with
      | none => { procs := setProc s.procs p (fun x => { x with pc := .holding }), lock := some p }
      | some _ => { s with procs := setProc s.procs p (fun x => { x with pc := .exited lockErrorRc, lockFailed := true }) }
    else s
  | .effect p =>
    if pcOf s p = some .holding then { s with procs := setProc s.procs p (fun x => { x with effects := x.effects + 1 }) }
    else s
  | .finish p rc =>
    if pcOf s p = some .holding then { procs := setProc s.procs p (fun x => { x with pc := .exited rc }), lock := none }
    else s
  | .kill p =>
    if pcOf s p = some .holding then { procs := setProc s.procs p (fun x => { x with pc := .dead }), lock := none }
    else if pcOf s p = some .start then { s with procs := setProc s.procs p (fun x => { x with pc := .dead }) }
    else s
  | .bindTimeout p =>
    if pcOf s p = some .start then
      { s with procs := setProc s.procs p (fun x => { x with pc := .exited lockErrorRc, lockFailed := true }) }
    else s

def lockInit (n : Nat) : LockSt :=
  { procs := List.replicate n { pc := .start, effects := 0, lockFailed := false }, lock := none }

def lrun (n : Nat) (evs : List LEv) : LockSt := evs.foldl lstep (lockInit n)

end Monorail
