#!/usr/bin/env python3
"""Runs every seeded change under /verif/seeded through the quick check of the property it breaks
(applied to /repo, undone straight afterwards) and records whether the check raised the alarm.
Writes seeded/DETECTION.json and the `detected_by` field of each meta.json."""
import json
import os
import subprocess
import sys
import time

VERIF = os.path.join(os.path.dirname(os.path.abspath(__file__)), "..")
SEEDED = os.path.join(VERIF, "seeded")
only = sys.argv[1:]
out = {}
for d in sorted(os.listdir(SEEDED)):
    meta_p = os.path.join(SEEDED, d, "meta.json")
    if not os.path.exists(meta_p):
        continue
    if only and d not in only and d.split("-")[0] not in only:
        continue
    meta = json.load(open(meta_p))
    if meta.get("obsolete"):
        out[d] = {"property": meta["property"], "obsolete": True, "detected": None, "with_failing_input": None,
                  "what_the_check_reported": "(no longer a violation on the repaired tree: see meta.json)"}
        continue
    prop = meta["property"]
    patch = os.path.join(SEEDED, d, "patch.diff")
    subprocess.run(["git", "-C", "/repo", "checkout", "--", "."], check=True)
    r = subprocess.run(["git", "-C", "/repo", "apply", patch])
    if r.returncode != 0:
        out[d] = {"applied": False}
        continue
    t0 = time.time()
    try:
        p = subprocess.run([os.path.join(VERIF, "check"), prop, "--tier", "quick"], cwd=VERIF, stdout=subprocess.PIPE,
                           stderr=subprocess.STDOUT, text=True, timeout=3600,
                           env=dict(os.environ, MRVERIF_EVIDENCE_DIR="/var/tmp/mrverif-seeded-evidence"))
        lines = [l for l in p.stdout.split("\n") if l.startswith("VIOLATION") or l.startswith("OK ") or l.startswith("INFRA")]
        rc = p.returncode
    except subprocess.TimeoutExpired:
        lines, rc = ["TIMEOUT"], -1
    finally:
        # -R also removes files the patch created; checkout restores anything left
        subprocess.run(["git", "-C", "/repo", "apply", "-R", patch], stderr=subprocess.DEVNULL)
        subprocess.run(["git", "-C", "/repo", "checkout", "--", "."], check=True)
    detected = rc == 1 and any(l.startswith("VIOLATION property=%s " % prop) for l in lines)
    with_input = detected and not any("no-failing-input-found" in l for l in lines)
    replay_kind = None
    for l in lines:
        if l.startswith("VIOLATION"):
            rp = l.split("replay=")[1].split()[0]
            try:
                rj = json.load(open(rp))
                f = rj.get("failure") or {}
                replay_kind = f.get("kind") or rj.get("kind")
            except (OSError, ValueError):
                pass
    out[d] = {"property": prop, "detected": detected, "with_failing_input": with_input, "exit": rc, "wall_s": round(time.time() - t0, 1),
              "what_the_check_reported": replay_kind, "line": (lines or [""])[-1]}
    meta["detected_by"] = ("./check %s --tier quick" % prop) if detected else None
    meta["detected_with_failing_input"] = with_input
    meta["check_report"] = replay_kind
    json.dump(meta, open(meta_p, "w"), indent=1)
    print(d, out[d], flush=True)
prev = {}
dp = os.path.join(SEEDED, "DETECTION.json")
if os.path.exists(dp):
    prev = json.load(open(dp))
prev.update(out)
json.dump(prev, open(dp, "w"), indent=1)
# leave the harness built from the unchanged tree
subprocess.run(["cargo", "build", "--offline"], cwd=os.path.join(VERIF, "harness"), stdout=subprocess.DEVNULL, stderr=subprocess.DEVNULL)
