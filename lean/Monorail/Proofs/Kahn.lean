import Monorail.Model.Kahn
import Monorail.Proofs.Graph
/-! The counter / queue loop of `get_groups` refines the abstract layering. -/
namespace Monorail

/-- what a fold of decrements does, vertex by vertex -/
structure DecSpec (visB : Nat → Bool) (c : Nat → Nat) (st st' : KSt) : Prop where
  deg : ∀ v, st'.deg v = st.deg v - c v
  next : ∀ v, v ∈ st'.next ↔ v ∈ st.next ∨ (visB v = true ∧ 1 ≤ c v ∧ st.deg v = c v)
  nodup : st.next.Nodup → st'.next.Nodup
  zero : ∀ x ∈ st'.next, st'.deg x = 0

theorem decEdges_spec (visB : Nat → Bool) : ∀ (es : List Nat) (st : KSt),
    (∀ v, es.count v ≤ st.deg v) → (∀ x ∈ st.next, st.deg x = 0) →
    DecSpec visB (fun v => es.count v) st (es.foldl (decEdge visB) st) := by
  intro es
  induction es with
  | nil =>
    intro st _ hz
    exact ⟨by simp, by simp, fun h => h, hz⟩
  | cons e rest ih =>
    intro st hge hz
    simp only [List.foldl_cons]
    have hge_e : 1 ≤ st.deg e := by
      have := hge e
      simp only [List.count_cons_self] at this
      omega
    -- state after the first edge
    have h1deg : ∀ v, (decEdge visB st e).deg v = if v = e then st.deg e - 1 else st.deg v := by
      intro v; simp [decEdge]
    have h1next : ∀ v, v ∈ (decEdge visB st e).next ↔ v ∈ st.next ∨ (v = e ∧ st.deg e - 1 = 0 ∧ visB e = true) := by
      intro v
      simp only [decEdge]
      split
      · rename_i hc
        simp only [Bool.and_eq_true, decide_eq_true_eq] at hc
        simp [hc.1, hc.2]
        constructor
        · rintro (h | h)
          · exact Or.inr h
          · exact Or.inl h
        · rintro (h | h)
          · exact Or.inr h
          · exact Or.inl h
      · rename_i hc
        simp only [Bool.and_eq_true, decide_eq_true_eq, not_and] at hc
        constructor
        · intro h; exact Or.inl h
        · rintro (h | ⟨_, h1, h2⟩)
          · exact h
          · exact absurd h2 (by simpa using hc h1)
    have hge1 : ∀ v, rest.count v ≤ (decEdge visB st e).deg v := by
      intro v
      rw [h1deg]
      have := hge v
      by_cases hv : v = e
      · subst hv; simp only [List.count_cons_self, if_true] at this ⊢; omega
      · have hne : ¬ e = v := fun h => hv h.symm
        simp only [List.count_cons, hv, if_false, beq_iff_eq, hne] at this ⊢
        omega
    have hz1 : ∀ x ∈ (decEdge visB st e).next, (decEdge visB st e).deg x = 0 := by
      intro x hx
      rw [h1deg]
      rcases (h1next x).mp hx with h | ⟨rfl, h0, _⟩
      · have hx0 := hz x h
        by_cases hxe : x = e
        · subst hxe; omega
        · simp [hxe, hx0]
      · simp [h0]
    obtain ⟨d, n, nd, z⟩ := ih (decEdge visB st e) hge1 hz1
    refine ⟨?_, ?_, ?_, z⟩
    · intro v
      rw [d, h1deg]
      by_cases hv : v = e
      · subst hv; simp only [if_true, List.count_cons_self]; omega
      · have hne : ¬ e = v := fun h => hv h.symm
        simp [hv, List.count_cons, hne]
    · intro v
      rw [n, h1next, h1deg]
      by_cases hv : v = e
      · subst hv
        simp only [if_true, List.count_cons_self, true_and]
        have := hge v
        simp only [List.count_cons_self] at this
        constructor
        · rintro ((h | ⟨h0, hb⟩) | ⟨hb, hc, hd⟩)
          · exact Or.inl h
          · exact Or.inr ⟨hb, by omega, by omega⟩
          · exact Or.inr ⟨hb, by omega, by omega⟩
        · rintro (h | ⟨hb, _, hd⟩)
          · exact Or.inl (Or.inl h)
          · by_cases hr : rest.count v = 0
            · exact Or.inl (Or.inr ⟨by omega, hb⟩)
            · exact Or.inr ⟨hb, by omega, by omega⟩
      · have hne : ¬ e = v := fun h => hv h.symm
        simp only [hv, if_false, false_and, or_false, List.count_cons, beq_iff_eq, hne, Nat.add_zero]
    · intro hnd
      apply nd
      simp only [decEdge]
      split
      · rename_i hc
        simp only [Bool.and_eq_true, decide_eq_true_eq] at hc
        rw [List.nodup_cons]
        refine ⟨?_, hnd⟩
        intro hmem
        have := hz e hmem
        omega
      · exact hnd

end Monorail

namespace Monorail

theorem indegOf_cons (g : Graph) (u : Nat) (rest : List Nat) (v : Nat) :
    indegOf g (u :: rest) v = (g.out u).count v + indegOf g rest v := by
  simp [indegOf]

theorem procNodes_spec (g : Graph) (visB : Nat → Bool) : ∀ (P : List Nat) (st : KSt),
    (∀ v, indegOf g P v ≤ st.deg v) → (∀ x ∈ st.next, st.deg x = 0) →
    DecSpec visB (indegOf g P) st (P.foldl (procNode g visB) st) := by
  intro P
  induction P with
  | nil =>
    intro st _ hz
    exact ⟨by simp [indegOf], by simp [indegOf], fun h => h, hz⟩
  | cons u rest ih =>
    intro st hge hz
    simp only [List.foldl_cons]
    have hge0 : ∀ v, (g.out u).count v ≤ st.deg v := by
      intro v; have := hge v; rw [indegOf_cons] at this; omega
    obtain ⟨d1, n1, nd1, z1⟩ := decEdges_spec visB (g.out u) st hge0 hz
    have hge1 : ∀ v, indegOf g rest v ≤ (procNode g visB st u).deg v := by
      intro v
      unfold procNode
      rw [d1]
      have := hge v
      rw [indegOf_cons] at this
      omega
    obtain ⟨d2, n2, nd2, z2⟩ := ih (procNode g visB st u) hge1 z1
    refine ⟨?_, ?_, fun h => nd2 (nd1 h), z2⟩
    · intro v
      rw [d2]
      unfold procNode
      rw [d1, indegOf_cons]
      omega
    · intro v
      rw [n2]
      unfold procNode
      rw [n1, d1, indegOf_cons]
      have := hge v
      rw [indegOf_cons] at this
      constructor
      · rintro ((h | ⟨hb, hc, hd⟩) | ⟨hb, hc, hd⟩)
        · exact Or.inl h
        · exact Or.inr ⟨hb, by omega, by omega⟩
        · exact Or.inr ⟨hb, by omega, by omega⟩
      · rintro (h | ⟨hb, hc, hd⟩)
        · exact Or.inl (Or.inl h)
        · by_cases hr : indegOf g rest v = 0
          · exact Or.inl (Or.inr ⟨hb, by omega, by omega⟩)
          · exact Or.inr ⟨hb, by omega, by omega⟩

theorem indegOf_perm (g : Graph) {a b : List Nat} (h : a.Perm b) (v : Nat) : indegOf g a v = indegOf g b v := by
  unfold indegOf
  exact (h.map _).sum_nat

theorem indegOf_append (g : Graph) (a b : List Nat) (v : Nat) :
    indegOf g (a ++ b) v = indegOf g a v + indegOf g b v := by
  simp [indegOf]

theorem indegOf_eq_zero (g : Graph) (rem : List Nat) (v : Nat) :
    indegOf g rem v = 0 ↔ ∀ u ∈ rem, v ∉ g.out u := by
  induction rem with
  | nil => simp [indegOf]
  | cons u rest ih =>
    rw [indegOf_cons, Nat.add_eq_zero_iff, ih, List.count_eq_zero]
    simp

/-- `peel` in terms of the in-degree -/
theorem mem_peel_indeg {g : Graph} {rem : List Nat} {v : Nat} :
    v ∈ peel g rem ↔ v ∈ rem ∧ indegOf g rem v = 0 := by
  rw [mem_peel, indegOf_eq_zero]

/-- splitting a duplicate-free list by a predicate is a permutation -/
theorem perm_split (rem : List Nat) (p : Nat → Bool) :
    rem.Perm (rem.filter p ++ rem.filter (fun v => !p v)) :=
  (List.filter_append_perm p rem).symm

end Monorail

namespace Monorail

/-- the loop invariant between two passes over the work queue -/
structure KInv (g : Graph) (vis rem : List Nat) (deg : Nat → Nat) (work : List Nat) : Prop where
  remNodup : rem.Nodup
  sub : ∀ v ∈ rem, v ∈ vis
  deg : ∀ v, deg v = indegOf g rem v
  workNodup : work.Nodup
  work : ∀ v, v ∈ work ↔ v ∈ peel g rem
  gone : ∀ v ∈ vis, v ∉ rem → indegOf g rem v = 0

theorem peel_nodup {g : Graph} {rem : List Nat} (h : rem.Nodup) : (peel g rem).Nodup := by
  unfold peel; exact h.filter _

theorem filter_contains_eq {rem a b : List Nat} (h : ∀ v, v ∈ a ↔ v ∈ b) :
    rem.filter (fun v => !a.contains v) = rem.filter (fun v => !b.contains v) := by
  apply List.filter_congr
  intro x _
  have := h x
  by_cases hx : x ∈ a
  · simp [hx, this.mp hx]
  · have hb : x ∉ b := fun hb => hx (this.mpr hb)
    simp [hx, hb]

theorem layer_step {g : Graph} {vis rem : List Nat} {deg : Nat → Nat} {work : List Nat}
    (h : KInv g vis rem deg work) :
    KInv g vis (rem.filter (fun v => !(peel g rem).contains v))
      (procLayer g (fun v => vis.contains v) deg work).deg
      (procLayer g (fun v => vis.contains v) deg work).next := by
  have hpn := peel_nodup (g := g) h.remNodup
  have hwp : work.Perm (peel g rem) := (List.perm_ext_iff_of_nodup h.workNodup hpn).mpr h.work
  -- rem splits into the released nodes and the rest
  have hsplit : rem.Perm (peel g rem ++ rem.filter (fun v => !(peel g rem).contains v)) := by
    have h1 := perm_split rem (fun v => (peel g rem).contains v)
    have h2 : rem.filter (fun v => (peel g rem).contains v) = peel g rem := by
      conv => rhs; unfold peel
      apply List.filter_congr
      intro x hx
      rw [Bool.eq_iff_iff]
      simp only [List.contains_iff_mem]
      constructor
      · intro hp
        unfold peel at hp
        exact (List.mem_filter.mp hp).2
      · intro hq
        unfold peel
        exact List.mem_filter.mpr ⟨hx, hq⟩
    rw [h2] at h1
    exact h1
  have hsum : ∀ v, indegOf g rem v = indegOf g work v +
      indegOf g (rem.filter (fun v => !(peel g rem).contains v)) v := by
    intro v
    rw [indegOf_perm g hsplit v, indegOf_append, indegOf_perm g hwp v]
  obtain ⟨d, n, nd, z⟩ := procNodes_spec g (fun v => vis.contains v) work { deg := deg, next := [] }
    (by intro v; simp only []; rw [h.deg v, hsum v]; omega) (by simp)
  refine ⟨h.remNodup.filter _, fun v hv => h.sub v (List.mem_filter.mp hv).1, ?_, nd (by simp), ?_, ?_⟩
  · intro v
    unfold procLayer
    rw [d v]
    simp only []
    rw [h.deg v, hsum v]
    omega
  · intro v
    unfold procLayer
    rw [n v, mem_peel_indeg]
    simp only [List.not_mem_nil, false_or, List.contains_iff_mem, decide_eq_true_eq]
    rw [h.deg v]
    constructor
    · rintro ⟨hvis, hge, heq⟩
      have hrem : v ∈ rem := by
        by_cases hr : v ∈ rem
        · exact hr
        · have := h.gone v hvis hr
          have := hsum v
          omega
      have hnp : v ∉ peel g rem := by
        intro hp
        have := (mem_peel_indeg.mp hp).2
        have := hsum v
        omega
      refine ⟨List.mem_filter.mpr ⟨hrem, by simpa using hnp⟩, ?_⟩
      have := hsum v
      omega
    · rintro ⟨hmem, hz⟩
      obtain ⟨hrem, hnp⟩ := List.mem_filter.mp hmem
      have hnp' : v ∉ peel g rem := by simpa using hnp
      have hpos : indegOf g rem v ≠ 0 := fun h0 => hnp' (mem_peel_indeg.mpr ⟨hrem, h0⟩)
      have := hsum v
      exact ⟨h.sub v hrem, by omega, by omega⟩
  · intro v hvis hnot
    by_cases hr : v ∈ rem
    · have hp : v ∈ peel g rem := by
        by_contra hnp
        exact hnot (List.mem_filter.mpr ⟨hr, by simpa using hnp⟩)
      have := (mem_peel_indeg.mp hp).2
      have := hsum v
      omega
    · have := h.gone v hvis hr
      have := hsum v
      omega

/-- two lists of groups that agree group by group as sets -/
def sameLayers : List (List Nat) → List (List Nat) → Prop
  | [], [] => True
  | a :: as, b :: bs => a.Perm b ∧ sameLayers as bs
  | _, _ => False

theorem kahnAux_refines (g : Graph) (vis : List Nat) : ∀ (fuel : Nat) (rem : List Nat) (deg : Nat → Nat)
    (work : List Nat), KInv g vis rem deg work → rem.length ≤ fuel →
    sameLayers (kahnAux g (fun v => vis.contains v) fuel deg work).1 (layersAux g fuel rem).1 ∧
    ∀ v, (kahnAux g (fun v => vis.contains v) fuel deg work).2 v = indegOf g (layersAux g fuel rem).2 v := by
  intro fuel
  induction fuel with
  | zero =>
    intro rem deg work h _
    simp only [kahnAux, layersAux, sameLayers, true_and]
    exact h.deg
  | succ fuel ih =>
    intro rem deg work h hlen
    have hempty : work.isEmpty = (peel g rem).isEmpty := by
      cases hw : work with
      | nil =>
        cases hp : peel g rem with
        | nil => rfl
        | cons a t =>
          have : a ∈ work := (h.work a).mpr (by rw [hp]; simp)
          rw [hw] at this; cases this
      | cons a t =>
        have : a ∈ peel g rem := (h.work a).mp (by rw [hw]; simp)
        cases hp : peel g rem with
        | nil => rw [hp] at this; cases this
        | cons b s => rfl
    simp only [kahnAux, layersAux]
    rw [hempty]
    split
    · simp only [sameLayers, true_and]
      exact h.deg
    · rename_i hne
      have hstep := layer_step h
      have hlt := filter_not_peel_length_lt g rem (by simpa using hne)
      obtain ⟨i1, i2⟩ := ih _ _ _ hstep (by omega)
      have hpn := peel_nodup (g := g) h.remNodup
      exact ⟨⟨(List.perm_ext_iff_of_nodup h.workNodup hpn).mpr h.work, i1⟩, i2⟩

/-- **Refinement.** On a duplicate-free visible set the counter / queue loop of `get_groups` fails
exactly when the abstract layering leaves something over, and otherwise yields the same groups,
group by group, as sets. -/
theorem kahn_refines (g : Graph) (vis : List Nat) (hnd : vis.Nodup) (hlt : ∀ v ∈ vis, v < g.size) :
    (kahn g vis = .error .cycle ↔ (layers g vis).2 ≠ []) ∧
    (∀ cs, kahn g vis = .ok cs → sameLayers cs (layers g vis).1) := by
  have hinv : KInv g vis vis (indegOf g vis)
      ((List.range g.size).filter (fun v => indegOf g vis v == 0 && vis.contains v)) := by
    refine ⟨hnd, fun _ h => h, fun _ => rfl, List.nodup_range.filter _, ?_, fun v hv hn => absurd hv hn⟩
    intro v
    rw [mem_peel_indeg]
    simp only [List.mem_filter, List.mem_range, Bool.and_eq_true, beq_iff_eq, List.contains_iff_mem, decide_eq_true_eq]
    constructor
    · rintro ⟨_, h0, hv⟩; exact ⟨hv, h0⟩
    · rintro ⟨hv, h0⟩; exact ⟨hlt v hv, h0, hv⟩
  obtain ⟨r1, r2⟩ := kahnAux_refines g vis vis.length vis _ _ hinv (Nat.le_refl _)
  have hstuck := left_stuck g vis.length vis (Nat.le_refl _)
  have hleft := left_subset g vis
  unfold layers at hleft ⊢
  have hany : (vis.any (fun v => (kahnRun g vis).2 v != 0)) = true ↔ (layersAux g vis.length vis).2 ≠ [] := by
    unfold kahnRun
    simp only [List.any_eq_true, bne_iff_ne, ne_eq, r2]
    constructor
    · rintro ⟨v, _, hv⟩ hnil
      rw [hnil] at hv
      exact hv (by simp [indegOf])
    · intro hne
      cases hl : (layersAux g vis.length vis).2 with
      | nil => exact absurd hl hne
      | cons a t =>
        have ha : a ∈ (layersAux g vis.length vis).2 := by rw [hl]; simp
        refine ⟨a, hleft a ha, ?_⟩
        intro h0
        have : a ∈ peel g (layersAux g vis.length vis).2 := mem_peel_indeg.mpr ⟨ha, by rw [hl]; exact h0⟩
        rw [hstuck] at this; cases this
  constructor
  · unfold kahn
    constructor
    · intro h
      cases hb : vis.any (fun v => (kahnRun g vis).2 v != 0) with
      | true => exact hany.mp hb
      | false => rw [hb] at h; simp at h
    · intro hne
      rw [hany.mpr hne]; rfl
  · intro cs hcs
    unfold kahn at hcs
    split at hcs
    · cases hcs
    · cases hcs
      exact r1

/-- the concrete loop and the model of `groups` agree on every root set -/
theorem kahn_groups (g : Graph) (roots : List Nat) :
    (kahn g (closure g roots) = .error .cycle ↔ groups g roots = .error .cycle) ∧
    (∀ cs, kahn g (closure g roots) = .ok cs → ∃ gs, groups g roots = .ok gs ∧ sameLayers cs gs) := by
  obtain ⟨h1, h2⟩ := kahn_refines g (closure g roots) (closure_nodup g roots) (closure_lt g roots)
  constructor
  · rw [h1, groups_eq]
    cases hl : (layers g (closure g roots)).2 with
    | nil => simp
    | cons a t => simp
  · intro cs hcs
    have hs := h2 cs hcs
    have hok : ¬ kahn g (closure g roots) = .error .cycle := by rw [hcs]; simp
    have hnil : (layers g (closure g roots)).2 = [] := by
      by_contra hne
      exact hok (h1.mpr hne)
    exact ⟨_, by rw [groups_eq]; simp [hnil], hs⟩

end Monorail
