#!/bin/bash
# Confirms every seeded mutant independently: applies the patch in a scratch worktree of /repo,
# builds, runs the pinned test suite, runs the demonstration against the mutant binary (must fail)
# and against the binary of the unmodified tree (must pass), and files the result under
# /verif/seeded/<id>/.  Usage: [KOFF=2] [ONLY="C01 C02"] confirm_seeded.sh <dir with Cxx/patchK.diff demoK.sh notesK.md>
# KOFF shifts the ids (wave 2: patch1 -> Cxx-m3); ONLY restricts to some properties.
SRC=${1:-/tmp/mut/out}
WT=/var/tmp/mut-confirm
OUT=/verif/seeded
rm -rf $WT; git -C /repo worktree prune
git -C /repo worktree add -q --detach $WT HEAD || exit 1
cd $WT && cargo build --offline >/dev/null 2>&1 && cp target/debug/monorail /var/tmp/monorail.orig
for d in $SRC/C??; do
  P=$(basename $d)
  [ -d $d ] || continue
  if [ -n "$ONLY" ] && ! echo " $ONLY " | grep -q " $P "; then continue; fi
  for k in 1 2 3; do
    [ -f $d/patch$k.diff ] || continue
    ID=$P-m$((k+${KOFF:-0}))
    mkdir -p $OUT/$ID
    cp $d/patch$k.diff $OUT/$ID/patch.diff
    [ -f $d/demo$k.sh ] && cp $d/demo$k.sh $OUT/$ID/demo.sh
    [ -f $d/notes$k.md ] && cp $d/notes$k.md $OUT/$ID/notes.md
    cd $WT && git checkout -q -- . && git clean -fdq -e target
    if ! git apply $OUT/$ID/patch.diff; then echo "{\"id\":\"$ID\",\"property\":\"$P\",\"confirmed\":false,\"why\":\"patch does not apply\"}" > $OUT/$ID/meta.json; continue; fi
    BUILD=ok; cargo build --offline >/dev/null 2>&1 || BUILD=fail
    TESTS=$(cargo nextest run --offline 2>&1 | grep -E "^ +Summary" | sed 's/^ *//')
    cp target/debug/monorail /var/tmp/monorail.mut
    MUT_RC=na; ORIG_RC=na
    if [ -f $OUT/$ID/demo.sh ]; then
      timeout 600 bash $OUT/$ID/demo.sh /var/tmp/monorail.mut >/var/tmp/demo.mut.log 2>&1; MUT_RC=$?
      timeout 600 bash $OUT/$ID/demo.sh /var/tmp/monorail.orig >/var/tmp/demo.orig.log 2>&1; ORIG_RC=$?
    fi
    CONF=false
    if [ "$BUILD" = ok ] && echo "$TESTS" | grep -q "74 passed" && [ "$MUT_RC" != 0 ] && [ "$MUT_RC" != na ] && [ "$ORIG_RC" = 0 ]; then CONF=true; fi
    python3 - "$ID" "$P" "$CONF" "$BUILD" "$TESTS" "$MUT_RC" "$ORIG_RC" <<'PY'
import json,sys,re
id,p,conf,build,tests,mrc,orc=sys.argv[1:8]
notes=open('/verif/seeded/%s/notes.md'%id).read() if __import__('os').path.exists('/verif/seeded/%s/notes.md'%id) else ''
needs=''
m=re.search(r'(?is)(needs?|trigger|manifest)[^\n]*\n(.{0,600})',notes)
meta={"id":id,"property":p,"confirmed":conf=="true","build":build,"existing_tests":tests,
      "demo_exit_with_mutant":mrc,"demo_exit_with_unmodified":orc,
      "what_i_ran":"git apply patch.diff in a scratch worktree of /repo HEAD; cargo build --offline; cargo nextest run --offline; bash demo.sh <mutant binary>; bash demo.sh <binary of unmodified tree>",
      "needs_to_manifest":"see notes.md (written by the independent sub-agent that produced the change)"}
json.dump(meta,open('/verif/seeded/%s/meta.json'%id,'w'),indent=1)
print(id,conf,build,tests,mrc,orc)
PY
  done
done
cd / && git -C /repo worktree remove --force $WT; rm -f /var/tmp/monorail.mut /var/tmp/monorail.orig /var/tmp/demo.*.log
