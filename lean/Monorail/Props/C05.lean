import Monorail.Props.C06
/-!
# C05 — a run covers exactly the planned (command, target) pairs, once each
-/
namespace Monorail

/-- **C05 (one result entry per planned pair).** When the run has finished (nothing is running),
the ids in the result document are a permutation of the planned ids — every planned pair appears,
and (for distinct planned ids) appears exactly once, and nothing else appears. -/
theorem c05_cover (fou : Bool) (plan : List Group) (inputs : List (Nat × Outcome))
    (hfin : (runExec fou plan inputs).running = []) :
    (rIds (runExec fou plan inputs).results).Perm (planIds plan) := by
  have inv := runExec_inv fou plan inputs
  have hp := inv.perm
  rw [hfin, inv.stop hfin] at hp
  simpa [planIds] using hp

/-- **C05 (never two entries for one pair), at every moment of every schedule.** -/
theorem c05_results_nodup (fou : Bool) (plan : List Group) (hnd : (planIds plan).Nodup)
    (inputs : List (Nat × Outcome)) : (rIds (runExec fou plan inputs).results).Nodup := by
  have inv := runExec_inv fou plan inputs
  have hnd2 := inv.perm.nodup_iff.mpr hnd
  exact (List.nodup_append.mp (List.nodup_append.mp hnd2).1).1

/-- **C05 (started at most once).** Under every schedule no executable is started twice. -/
theorem c05_spawn_once (fou : Bool) (plan : List Group) (hnd : (planIds plan).Nodup)
    (inputs : List (Nat × Outcome)) : (spawnIds (runExec fou plan inputs).trace).Nodup := by
  have inv := runExec_inv fou plan inputs
  rw [inv.spawned.nodup_iff]
  have hnd2 := inv.perm.nodup_iff.mpr hnd
  have hnd3 : (rIds (runExec fou plan inputs).results ++ (runExec fou plan inputs).running).Nodup :=
    (List.nodup_append.mp hnd2).1
  have hsub : (rIds ((runExec fou plan inputs).results.filter (fun e => isSpawnStatus e.2))).Sublist
      (rIds (runExec fou plan inputs).results) := List.Sublist.map _ List.filter_sublist
  have : ((runExec fou plan inputs).running ++
      rIds ((runExec fou plan inputs).results.filter (fun e => isSpawnStatus e.2))).Sublist
      ((runExec fou plan inputs).running ++ rIds (runExec fou plan inputs).results) :=
    List.Sublist.append (List.Sublist.refl _) hsub
  exact (this.nodup (List.perm_append_comm.nodup_iff.mp hnd3))

/-- **C05 (only defined commands are started).** Every started executable belongs to a planned pair
whose command resolves to an executable file; a pair whose command is undefined (or not executable)
is never started. -/
theorem c05_only_defined (fou : Bool) (plan : List Group) (inputs : List (Nat × Outcome)) {g i : Nat}
    (h : Ev.spawn g i ∈ (runExec fou plan inputs).trace) :
    ∃ grp ∈ plan, ∃ t ∈ grp, t.id = i ∧ t.disp = .run :=
  (runExec_inv fou plan inputs).disp g i h

theorem task_of_id_unique {plan : List Group} (hnd : (planIds plan).Nodup)
    {G G' : Group} (hG : G ∈ plan) (hG' : G' ∈ plan) {t t' : Task}
    (ht : t ∈ G) (ht' : t' ∈ G') (hid : t.id = t'.id) : t = t' := by
  induction plan with
  | nil => cases hG
  | cons P rest ih =>
    simp only [planIds, List.flatMap_cons] at hnd
    rw [List.nodup_append] at hnd
    obtain ⟨hP, hrest, hdisj⟩ := hnd
    have inRest : ∀ {H : Group} {x : Task}, H ∈ rest → x ∈ H → x.id ∈ List.flatMap gIds rest :=
      fun hH hx => List.mem_flatMap.mpr ⟨_, hH, List.mem_map_of_mem hx⟩
    have injP : ∀ {x y : Task}, x ∈ P → y ∈ P → x.id = y.id → x = y := by
      intro x y hx hy hxy
      clear ih hdisj hrest inRest hG hG' ht ht'
      induction P with
      | nil => cases hx
      | cons a as ihP =>
        simp only [gIds, List.map_cons, List.nodup_cons, List.mem_map, not_exists, not_and] at hP
        rcases List.mem_cons.mp hx with rfl | hx1
        · rcases List.mem_cons.mp hy with rfl | hy1
          · rfl
          · exact absurd hxy.symm (hP.1 y hy1)
        · rcases List.mem_cons.mp hy with rfl | hy1
          · exact absurd hxy (hP.1 x hx1)
          · exact ihP hP.2 hx1 hy1
    rcases List.mem_cons.mp hG with h1 | h1
    · rcases List.mem_cons.mp hG' with h2 | h2
      · subst h1; subst h2
        exact injP ht ht' hid
      · subst h1
        exact absurd hid (hdisj _ (List.mem_map_of_mem ht) _ (inRest h2 ht'))
    · rcases List.mem_cons.mp hG' with h2 | h2
      · subst h2
        exact absurd hid.symm (hdisj _ (List.mem_map_of_mem ht') _ (inRest h1 ht))
      · exact ih (by simpa [planIds] using hrest) h1 h2

/-- **C05 (started exactly once when nothing failed).** If the finished run reports
`failed = false`, every planned pair whose command resolves to an executable was started (and, by
`c05_spawn_once`, exactly once). -/
theorem c05_started_when_ok (fou : Bool) (plan : List Group) (hnd : (planIds plan).Nodup)
    (inputs : List (Nat × Outcome))
    (hfin : (runExec fou plan inputs).running = []) (hok : (runExec fou plan inputs).failed = false)
    {G : Group} (hG : G ∈ plan) {t : Task} (ht : t ∈ G) (hrun : t.disp = .run) :
    t.id ∈ spawnIds (runExec fou plan inputs).trace := by
  have inv := runExec_inv fou plan inputs
  have hcov := c05_cover fou plan inputs hfin
  have hin : t.id ∈ planIds plan := List.mem_flatMap.mpr ⟨G, hG, List.mem_map_of_mem ht⟩
  have hres : t.id ∈ rIds (runExec fou plan inputs).results := hcov.mem_iff.mpr hin
  obtain ⟨e, he, hei⟩ := List.mem_map.mp hres
  by_cases hs : isSpawnStatus e.2 = true
  · rw [inv.spawned.mem_iff]
    apply List.mem_append_right
    exact List.mem_map.mpr ⟨e, List.mem_filter.mpr ⟨he, hs⟩, hei⟩
  · exfalso
    have hs' : isSpawnStatus e.2 = false := by simpa using hs
    obtain ⟨G', hG', t', ht', hid', hok'⟩ := inv.entry e he hs'
    have : t' = t := task_of_id_unique hnd hG' hG ht' ht (by rw [hid', hei])
    subst this
    rcases hok' with h | ⟨_, hd⟩ | ⟨_, hd⟩
    · have := inv.skip e he h
      rw [hok] at this; cases this
    · rw [hrun] at hd; cases hd
    · rw [hrun] at hd; cases hd

/-! ## Non-vacuity -/

example : let s := runExec true [[⟨0, .run⟩, ⟨1, .undefined⟩, ⟨2, .run⟩], [⟨3, .run⟩]] [(0, .code 0)]
    s.running = [] ∧ rIds s.results = [1, 2, 0, 3] ∧ spawnIds s.trace = [0] ∧ s.failed = true := by decide

example : let s := runExec false [[⟨0, .run⟩, ⟨1, .undefined⟩, ⟨2, .run⟩], [⟨3, .run⟩]] [(2, .code 0), (0, .code 0), (3, .code 0)]
    s.running = [] ∧ s.failed = false ∧ spawnIds s.trace = [0, 2, 3] := by decide

end Monorail
