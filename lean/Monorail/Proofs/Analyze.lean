import Monorail.Model.Analyze
import Monorail.Spec.C01
import Monorail.Proofs.Index
import Monorail.Proofs.Sort
/-! Lemmas about `analyze_change` / `analyze`. -/
namespace Monorail

/-- hypotheses of the C01 theorems: distinct target paths, every configured path normal -/
structure WFA (cfg : Config) : Prop where
  nodup : (cfg.map (·.path)).Nodup
  normalT : ∀ t ∈ cfg, Normal t.path
  normalU : ∀ t ∈ cfg, ∀ u ∈ t.uses, Normal u
  normalI : ∀ t ∈ cfg, ∀ g ∈ t.ignores, Normal g

theorem WFA.toWF {cfg : Config} (h : WFA cfg) : WF cfg := ⟨h.nodup, h.normalT⟩

theorem path_inj {cfg : Config} (hnd : (cfg.map (·.path)).Nodup) {T T' : Target}
    (hT : T ∈ cfg) (hT' : T' ∈ cfg) (hp : T.path = T'.path) : T = T' := by
  induction cfg with
  | nil => simp at hT
  | cons a as ih =>
    simp only [List.map_cons, List.nodup_cons, List.mem_map, not_exists, not_and] at hnd
    rcases List.mem_cons.mp hT with rfl | hT1
    · rcases List.mem_cons.mp hT' with rfl | hT1'
      · rfl
      · exact absurd hp.symm (hnd.1 T' hT1')
    · rcases List.mem_cons.mp hT' with rfl | hT1'
      · exact absurd hp (hnd.1 T hT1)
      · exact ih hnd.2 hT1 hT1'

theorem mem_searchTargets {cfg : Config} {q t : Path} :
    t ∈ searchTargets cfg q ↔ ∃ T ∈ cfg, T.path = t ∧ hit t q = true := by
  simp only [searchTargets, List.mem_filter, List.mem_map]
  constructor
  · rintro ⟨⟨T, hT, rfl⟩, hh⟩; exact ⟨T, hT, rfl, hh⟩
  · rintro ⟨T, hT, rfl, hh⟩; exact ⟨⟨T, hT, rfl⟩, hh⟩

theorem mem_ignoreTargets {cfg : Config} {p t : Path} :
    t ∈ ignoreTargets cfg p ↔ ∃ T ∈ cfg, T.path = t ∧ ∃ g ∈ T.ignores, hit g p = true := by
  simp only [ignoreTargets, allIgnores, ignore2targets, List.mem_flatMap, List.mem_filter,
    List.mem_map, List.contains_iff_mem]
  constructor
  · rintro ⟨g, ⟨⟨_, _, _⟩, hh⟩, T, ⟨hT, hg⟩, rfl⟩
    exact ⟨T, hT, rfl, g, hg, hh⟩
  · rintro ⟨T, hT, rfl, g, hg, hh⟩
    exact ⟨g, ⟨⟨T, hT, hg⟩, hh⟩, T, ⟨hT, hg⟩, rfl⟩

theorem mem_viaUses {cfg : Config} {p t2 : Path} :
    t2 ∈ viaUses cfg p ↔ ∃ N ∈ cfg, ∃ m ∈ N.uses, hit m p = true ∧ m ∉ ignoreTargets cfg p ∧
      N.path ∉ ignoreTargets cfg p ∧ ∃ T ∈ cfg, T.path = t2 ∧ hit t2 N.path = true := by
  simp only [viaUses, allUses, use2targets, List.mem_flatMap, List.mem_filter, List.mem_map,
    List.contains_iff_mem, Bool.and_eq_true, Bool.not_eq_true', mem_searchTargets]
  constructor
  · rintro ⟨m, ⟨⟨_, _, _⟩, hh, hmi⟩, t, ⟨⟨N, ⟨hN, hm⟩, rfl⟩, hni⟩, T, hT, rfl, hh2⟩
    exact ⟨N, hN, m, hm, hh, by simpa using hmi, by simpa using hni, T, hT, rfl, hh2⟩
  · rintro ⟨N, hN, m, hm, hh, hmi, hni, T, hT, rfl, hh2⟩
    exact ⟨m, ⟨⟨N, hN, hm⟩, hh, by simpa using hmi⟩, N.path, ⟨⟨N, ⟨hN, hm⟩, rfl⟩, by simpa using hni⟩,
      T, hT, rfl, hh2⟩

theorem ign_iff {cfg : Config} (h : WFA cfg) {T : Target} (hT : T ∈ cfg) (p : Path) :
    T.path ∈ ignoreTargets cfg p ↔ Ign T p := by
  rw [mem_ignoreTargets]
  constructor
  · rintro ⟨T', hT', hp, g, hg, hh⟩
    have : T' = T := path_inj h.nodup hT' hT hp
    subst this
    exact ⟨g, hg, (hit_iff (h.normalI _ hT' g hg) p).mp hh⟩
  · rintro ⟨g, hg, hw⟩
    exact ⟨T, hT, rfl, g, hg, (hit_iff (h.normalI _ hT g hg) p).mpr hw⟩

theorem useCounts_iff {cfg : Config} (h : WFA cfg) (p m : Path) :
    m ∉ ignoreTargets cfg p ↔ UseCounts cfg p m := by
  unfold UseCounts
  rw [mem_ignoreTargets]
  constructor
  · rintro hn ⟨V, hV, hp, g, hg, hw⟩
    exact hn ⟨V, hV, hp, g, hg, (hit_iff (h.normalI _ hV g hg) p).mpr hw⟩
  · rintro hn ⟨V, hV, hp, g, hg, hh⟩
    exact hn ⟨V, hV, hp, g, hg, (hit_iff (h.normalI _ hV g hg) p).mp hh⟩

/-- hypotheses of the C01 theorems when paths may carry one trailing separator -/
structure WFAD (cfg : Config) : Prop where
  nodup : (cfg.map (fun t => dirOf t.path)).Nodup
  normalT : ∀ t ∈ cfg, Normal (dirOf t.path)
  normalU : ∀ t ∈ cfg, ∀ u ∈ t.uses, Normal (dirOf u)
  normalI : ∀ t ∈ cfg, ∀ g ∈ t.ignores, Normal (dirOf g)

/-- a change is never the directory named by a slash-terminated target path / uses / ignores entry -/
structure ChangeOk (cfg : Config) (p : Path) : Prop where
  target : ∀ T ∈ cfg, T.path.getLast? = some sep → p ≠ dirOf T.path
  uses : ∀ T ∈ cfg, ∀ u ∈ T.uses, u.getLast? = some sep → p ≠ dirOf u
  ignores : ∀ T ∈ cfg, ∀ g ∈ T.ignores, g.getLast? = some sep → p ≠ dirOf g

theorem WFAD.toWFD {cfg : Config} (h : WFAD cfg) : WFD cfg := ⟨h.nodup, h.normalT⟩

theorem WFA.toWFAD {cfg : Config} (h : WFA cfg) : WFAD cfg :=
  ⟨h.toWF.toWFD.nodup, h.toWF.toWFD.normal,
   fun t ht u hu => by rw [dirOf_normal (h.normalU t ht u hu)]; exact h.normalU t ht u hu,
   fun t ht g hg => by rw [dirOf_normal (h.normalI t ht g hg)]; exact h.normalI t ht g hg⟩

theorem ign_iff_dir {cfg : Config} (h : WFAD cfg) {T : Target} (hT : T ∈ cfg) {p : Path} (hp : ChangeOk cfg p) :
    T.path ∈ ignoreTargets cfg p ↔ IgnD T p := by
  rw [mem_ignoreTargets]
  constructor
  · rintro ⟨T', hT', hpth, g, hg, hh⟩
    have : T' = T := path_inj h.toWFD.nodupPath hT' hT hpth
    subst this
    exact ⟨g, hg, (hit_dir (h.normalI _ hT' g hg) (hp.ignores _ hT' g hg)).mp hh⟩
  · rintro ⟨g, hg, hw⟩
    exact ⟨T, hT, rfl, g, hg, (hit_dir (h.normalI _ hT g hg) (hp.ignores _ hT g hg)).mpr hw⟩

theorem useCounts_iff_dir {cfg : Config} (h : WFAD cfg) {p : Path} (hp : ChangeOk cfg p) (m : Path) :
    m ∉ ignoreTargets cfg p ↔ UseCountsD cfg p m := by
  unfold UseCountsD
  rw [mem_ignoreTargets]
  constructor
  · rintro hn ⟨V, hV, hpth, g, hg, hw⟩
    exact hn ⟨V, hV, hpth, g, hg, (hit_dir (h.normalI _ hV g hg) (hp.ignores _ hV g hg)).mpr hw⟩
  · rintro hn ⟨V, hV, hpth, g, hg, hh⟩
    exact hn ⟨V, hV, hpth, g, hg, (hit_dir (h.normalI _ hV g hg) (hp.ignores _ hV g hg)).mp hh⟩

/-- the nesting lookup between two configured targets -/
theorem hit_targets {cfg : Config} (h : WFAD cfg) {T N : Target} (hT : T ∈ cfg) (hN : N ∈ cfg) :
    hit T.path N.path = true ↔ Within (dirOf T.path) (dirOf N.path) := by
  by_cases hTN : T = N
  · subst hTN
    constructor
    · intro _; exact within_refl _
    · intro _
      have hne : T.path ≠ [] := by
        intro hnil
        have := h.normalT T hT
        rw [hnil] at this
        exact normal_ne_nil this (by simp [dirOf])
      simp [hit, boundary, hne, List.isPrefixOf_iff_prefix]
  · have hne : dirOf T.path ≠ dirOf N.path := by
      intro heq
      obtain ⟨i, hi, hTi⟩ := List.mem_iff_getElem.mp hT
      obtain ⟨j, hj, hNj⟩ := List.mem_iff_getElem.mp hN
      have hij := nodup_map_getElem_inj h.nodup (a := T) (b := N)
        (by rw [List.getElem?_eq_getElem hi, hTi]) (by rw [List.getElem?_eq_getElem hj, hNj]) heq
      subst hij
      exact hTN (hTi.symm.trans hNj)
    exact hit_nest (h.normalT T hT) hne

theorem mem_analyzeChange_targets {cfg : Config} {p t : Path} :
    t ∈ (analyzeChange cfg p).targets ↔
      (t ∈ searchTargets cfg p ∨ t ∈ viaUses cfg p) ∧ t ∉ ignoreTargets cfg p := by
  simp [analyzeChange, List.mem_filter, or_and_right]

theorem chunksAux_flatten {α : Type} (k : Nat) (hk : 0 < k) :
    ∀ (f : Nat) (l : List α), l.length ≤ f → (chunksAux k f l).flatten = l := by
  intro f
  induction f with
  | zero =>
    intro l h
    have : l = [] := List.length_eq_zero_iff.mp (Nat.le_zero.mp h)
    subst this; simp [chunksAux]
  | succ f ih =>
    intro l h
    cases l with
    | nil => simp [chunksAux]
    | cons x xs =>
      simp only [chunksAux, List.flatten_cons]
      rw [ih]
      · exact List.take_append_drop k (x :: xs)
      · simp only [List.length_drop, List.length_cons] at h ⊢
        omega

theorem chunks_flatten {α : Type} (k : Nat) (hk : 0 < k) (l : List α) : (chunks k l).flatten = l :=
  chunksAux_flatten k hk l.length l (Nat.le_refl _)

theorem mem_analyze_targets {cfg : Config} {cs : List Path} {k : Nat} (hk : 0 < k) {t : Path} :
    t ∈ (analyze cfg cs k).targets ↔ ∃ p ∈ cs, t ∈ (analyzeChange cfg p).targets := by
  simp only [analyze, mem_sortDedupBy, List.mem_flatMap, List.mem_map]
  constructor
  · rintro ⟨c', ⟨c, hc, rfl⟩, r, hr, ht⟩
    simp only [List.mem_map] at hr
    obtain ⟨p, hp, rfl⟩ := hr
    refine ⟨p, ?_, ht⟩
    rw [← chunks_flatten k hk cs]
    exact List.mem_flatten.mpr ⟨c, hc, hp⟩
  · rintro ⟨p, hp, ht⟩
    rw [← chunks_flatten k hk cs] at hp
    obtain ⟨c, hc, hpc⟩ := List.mem_flatten.mp hp
    exact ⟨_, ⟨c, hc, rfl⟩, (p, analyzeChange cfg p), List.mem_map.mpr ⟨p, hpc, rfl⟩, ht⟩

end Monorail
