//! `mrverif <property> --seed N --tier quick|thorough --model <mrmodel> --corpus <dir> --out <file>`
//! Runs the correspondence + oracle checks of one property against the real implementation
//! (linked in-process from /repo with the verification hooks enabled) and writes a JSON report.
mod c01;
mod c03;
mod c08;
mod c10;
mod corpus;
mod ctx;
mod gen;
mod model;
mod report;
mod rng;
mod scratch;

use ctx::Ctx;

fn arg(args: &[String], name: &str, default: &str) -> String {
    args.iter()
        .position(|a| a == name)
        .and_then(|i| args.get(i + 1))
        .cloned()
        .unwrap_or_else(|| default.to_string())
}

fn main() {
    let args: Vec<String> = std::env::args().collect();
    if args.len() < 2 {
        eprintln!("usage: mrverif <cXX> [--seed N] [--tier quick|thorough] [--model PATH] [--corpus DIR] [--out FILE] [--budget K]");
        std::process::exit(2);
    }
    let prop = args[1].to_lowercase();
    if prop == "c08debug" {
        c08::debug_case(&args[2]);
        return;
    }
    let seed: u64 = arg(&args, "--seed", "20260930").parse().expect("--seed");
    let tier = arg(&args, "--tier", "quick");
    let model_path = arg(&args, "--model", "/verif/lean/.lake/build/bin/mrmodel");
    let out = arg(&args, "--out", "");
    let mut ctx = Ctx {
        rng: rng::Rng::new(seed),
        model: model::Model::spawn(&model_path),
        scratch: scratch::Scratch::new(),
        thorough: tier == "thorough",
        report: Default::default(),
        corpus_dir: arg(&args, "--corpus", "/verif/corpus").into(),
        budget: arg(&args, "--budget", "1").parse().expect("--budget"),
        prop: prop.clone(),
        current_case_file: arg(&args, "--current", "/dev/null").into(),
    };
    let t0 = std::time::Instant::now();
    match prop.as_str() {
        "c10" => c10::run(&mut ctx),
        "c01" => c01::run(&mut ctx),
        "c03" | "c09" => c03::run(&mut ctx),
        "c08" | "c15" | "c20" => c08::run(&mut ctx),
        other => {
            eprintln!("unknown property {}", other);
            std::process::exit(2);
        }
    }
    let mut j = ctx.report.to_json();
    j["seed"] = seed.into();
    j["tier"] = tier.into();
    j["wall_s"] = t0.elapsed().as_secs_f64().into();
    j["model_requests"] = ctx.model.requests.into();
    let s = serde_json::to_string_pretty(&j).unwrap();
    if out.is_empty() {
        println!("{}", s);
    } else {
        std::fs::write(&out, s).expect("write report");
    }
}
