import Monorail.Proofs.Git
/-!
# C02 — the reported change set is exactly the difference from the checkpoint

Over the abstract git repository of `Model/Git.lean`, for every repository reachable by any
history of create / edit / delete / move / stage / commit operations (`history_inv`).
-/
namespace Monorail

/-- a path is subtracted when its recorded pending digest equals the digest of what is on disk now
(a missing file has the empty digest) -/
def PendingMatch (r : GitRepo) (ck : Checkpoint) (p : Path) : Prop :=
  ∃ m, ck.pending = some m ∧ m ≠ [] ∧ pendingLookup m p = some (r.digest p)

theorem mem_filter_pending (r : GitRepo) (ck : Checkpoint) (all : List Path) (p : Path) :
    p ∈ r.pendingFilter ck all ↔ p ∈ all ∧ ¬ PendingMatch r ck p := by
  unfold PendingMatch GitRepo.pendingFilter
  cases hp : ck.pending with
  | none => simp
  | some m =>
    by_cases hm : m.isEmpty
    · have : m = [] := by simpa using hm
      subst this; simp
    · have hne : m ≠ [] := by simpa using hm
      simp only [hm, Bool.false_eq_true, if_false, List.mem_filter, bne_iff_ne, ne_eq, Option.some.injEq]
      constructor
      · rintro ⟨h1, h2⟩
        exact ⟨h1, fun ⟨m', hm', _, hl⟩ => by subst hm'; exact h2 hl⟩
      · rintro ⟨h1, h2⟩
        exact ⟨h1, fun hl => h2 ⟨m, rfl, hne, hl⟩⟩

/-- **C02 (working tree against the checkpoint commit).** With a checkpoint `(c, pending)` and no
`--begin` or `--end`, a path is reported exactly when
* git knows it (it is in the index or in commit `c`) and what the working tree holds for it differs
  from commit `c` — created, modified or deleted; a moved file is a deletion of the old path and a
  creation of the new one, because both paths differ — or it is untracked and not ignored,
* and its current digest is not the one recorded for it in the checkpoint's pending map. -/
theorem c02_set {r : GitRepo} (h : GitInv r) (ck : Checkpoint) (c : Nat) (hc : ck.id = some c) (p : Path) :
    p ∈ r.changes ck none none ↔
      ((((r.index p).isSome ∨ (r.tree c p).isSome) ∧ r.workView p ≠ r.tree c p) ∨
        ((r.work p).isSome ∧ (r.index p).isNone ∧ r.ignored p = false)) ∧
      ¬ PendingMatch r ck p := by
  unfold GitRepo.changes
  rw [mem_sortPaths, mem_filter_pending]
  simp only [GitRepo.diffChanges, hc, List.mem_append, mem_untracked h, mem_diffWork h]
  constructor
  · rintro ⟨h1 | h1, h2⟩
    · exact ⟨Or.inr h1, h2⟩
    · exact ⟨Or.inl h1, h2⟩
  · rintro ⟨h1 | h1, h2⟩
    · exact ⟨Or.inr h1, h2⟩
    · exact ⟨Or.inl h1, h2⟩

/-- **C02 (explicit range).** With `--begin a --end b` the tracked part is the difference between
those two commits. -/
theorem c02_range {r : GitRepo} (h : GitInv r) (ck : Checkpoint) (a b : Nat) (p : Path) :
    p ∈ r.changes ck (some a) (some b) ↔
      (r.tree a p ≠ r.tree b p ∨ ((r.work p).isSome ∧ (r.index p).isNone ∧ r.ignored p = false)) ∧
      ¬ PendingMatch r ck p := by
  unfold GitRepo.changes
  rw [mem_sortPaths, mem_filter_pending]
  simp only [GitRepo.diffChanges, List.mem_append, mem_untracked h, mem_diffCommits h]
  constructor
  · rintro ⟨h1 | h1, h2⟩
    · exact ⟨Or.inr h1, h2⟩
    · exact ⟨Or.inl h1, h2⟩
  · rintro ⟨h1 | h1, h2⟩
    · exact ⟨Or.inr h1, h2⟩
    · exact ⟨Or.inl h1, h2⟩

/-- **C02 (sorted).** The report is in byte order. -/
theorem c02_sorted (r : GitRepo) (ck : Checkpoint) (b e : Option Nat) :
    (r.changes ck b e).Pairwise pathLe := by
  unfold GitRepo.changes
  exact sortPaths_sorted _

/-- **C02 (argument table).** Which diff is taken: `--begin` wins over the checkpoint id; `--end`
is honoured only together with a begin; with neither a begin nor a checkpoint id the working tree is
compared with HEAD. -/
theorem c02_args (r : GitRepo) (ck : Checkpoint) (b e : Option Nat) :
    r.diffChanges ck b e =
      match (match b with | some x => some x | none => ck.id), e with
      | some a, some e' => r.diffCommits a e'
      | some a, none => r.diffWork a
      | none, _ => r.diffWork r.head := by
  unfold GitRepo.diffChanges
  cases b <;> cases hid : ck.id <;> cases e <;> simp [hid]

/-! ### verbatim names: the NUL-separated output of `git … -z` parses back to the names -/

/-- `parse_nul_separated_changes`: split on NUL, drop empty pieces -/
def splitNul : List Nat → List (List Nat)
  | [] => []
  | b :: bs =>
    if b = 0 then splitNul bs
    else match splitNul bs, bs with
      | rest, [] => [b] :: rest
      | rest, c :: _ => if c = 0 then [b] :: rest else
        match rest with
        | [] => [[b]]
        | l :: ls => (b :: l) :: ls

def joinNul (names : List (List Nat)) : List Nat := names.flatMap (fun n => n ++ [0])

/-- **C02 (verbatim).** Names are passed through byte for byte: what git writes with `-z` for any
list of non-empty names without NUL parses back to exactly those names (no quoting, no escaping). -/
theorem c02_verbatim (names : List (List Nat)) (h : ∀ n ∈ names, n ≠ [] ∧ 0 ∉ n) :
    splitNul (joinNul names) = names := by
  induction names with
  | nil => rfl
  | cons n rest ih =>
    have hn := h n List.mem_cons_self
    have ih' := ih (fun x hx => h x (List.mem_cons_of_mem _ hx))
    simp only [joinNul, List.flatMap_cons] at ih' ⊢
    -- peel the bytes of `n`
    obtain ⟨hne, h0⟩ := hn
    clear h ih
    induction n with
    | nil => exact absurd rfl hne
    | cons b bs ihn =>
      have hb : b ≠ 0 := fun e => h0 (by simp [e])
      have h0' : 0 ∉ bs := fun hm => h0 (List.mem_cons_of_mem _ hm)
      cases bs with
      | nil =>
        simp only [List.cons_append, List.nil_append, splitNul, hb, if_false, if_true]
        rw [ih']
      | cons c cs =>
        have hc : c ≠ 0 := fun e => h0' (by simp [e])
        have := ihn (by simp) h0'
        simp only [List.cons_append] at this ⊢
        simp only [splitNul, hb, if_false, hc]
        simp only [splitNul, hc, if_false] at this
        rw [this]

/-! ## Non-vacuity: a move, an untracked file, an ignored file, a pending digest -/

def exRepo : GitRepo :=
  [GitOp.write [97] 1, .write [98] 2, .addAll, .commit, .move [97] [99], .write [100] 4, .write [120] 5].foldl
    applyGit (GitRepo.empty (fun p => p = [120]))

-- commit 1 holds a,b ; then a moved to c, d created, x created but ignored
example : exRepo.changes { id := some 1, pending := none } none none = [[97], [99], [100]] := by decide
example : exRepo.changes { id := some 1, pending := some [([99], some 1)] } none none = [[97], [100]] := by decide
example : GitInv exRepo := history_inv _ _

end Monorail
