import Monorail.Props.C10
import Monorail.Proofs.Analyze
import Monorail.Generated.Consts
/-!
# C01 — change-to-target mapping is exact

Only property theorems and their non-vacuity examples live in this file.
-/
namespace Monorail

/-- **C01 (per change, exact).** For every configuration with distinct targets and normal paths, and
every changed path `p`: `analyze_change` puts `t` into the summary set exactly when `t` is the path
of a configured target affected by `p` in the sense of the specification (strict reading of the
documented grey case) — whole path components, never raw string prefixes. -/
theorem c01_change_exact {cfg : Config} (h : WFA cfg) (p t : Path) :
    t ∈ (analyzeChange cfg p).targets ↔ ∃ T, T.path = t ∧ Affected true cfg p T := by
  rw [mem_analyzeChange_targets]
  constructor
  · rintro ⟨hd | hv, hni⟩
    · obtain ⟨T, hT, rfl, hh⟩ := mem_searchTargets.mp hd
      refine ⟨T, rfl, hT, fun hi => hni ((ign_iff h hT p).mpr hi), Or.inl ?_⟩
      exact (hit_iff (h.normalT T hT) p).mp hh
    · obtain ⟨N, hN, m, hm, hh, hmi, hNi, T, hT, rfl, hh2⟩ := mem_viaUses.mp hv
      refine ⟨T, rfl, hT, fun hi => hni ((ign_iff h hT p).mpr hi), Or.inr ⟨N, hN, ?_, ?_, m, hm, ?_, ?_⟩⟩
      · exact (hit_iff (h.normalT T hT) _).mp hh2
      · exact fun hi => hNi ((ign_iff h hN p).mpr hi)
      · exact (hit_iff (h.normalU N hN m hm) p).mp hh
      · exact fun _ => (useCounts_iff h p m).mp hmi
  · rintro ⟨T, rfl, hT, hni, hd | ⟨N, hN, hw, hNi, m, hm, hwm, huc⟩⟩
    · refine ⟨Or.inl (mem_searchTargets.mpr ⟨T, hT, rfl, (hit_iff (h.normalT T hT) p).mpr hd⟩), ?_⟩
      exact fun hi => hni ((ign_iff h hT p).mp hi)
    · refine ⟨Or.inr (mem_viaUses.mpr ⟨N, hN, m, hm, ?_, ?_, ?_, T, hT, rfl, ?_⟩), ?_⟩
      · exact (hit_iff (h.normalU N hN m hm) p).mpr hwm
      · exact (useCounts_iff h p m).mpr (huc rfl)
      · exact fun hi => hNi ((ign_iff h hN p).mp hi)
      · exact (hit_iff (h.normalT T hT) _).mpr hw
      · exact fun hi => hni ((ign_iff h hT p).mp hi)

/-- the strict reading of the grey case is contained in the loose one (the oracle's sandwich) -/
theorem c01_strict_loose {cfg : Config} {p : Path} {T : Target} (h : Affected true cfg p T) :
    Affected false cfg p T := by
  obtain ⟨hT, hni, hd | ⟨N, hN, hw, hNi, m, hm, hwm, _⟩⟩ := h
  · exact ⟨hT, hni, Or.inl hd⟩
  · exact ⟨hT, hni, Or.inr ⟨N, hN, hw, hNi, m, hm, hwm, fun hf => absurd hf (by simp)⟩⟩

/-- The property text's recursive reading: affected through its own directory, its own `uses`, or a
nested target that is itself affected. -/
inductive AffectedRec (cfg : Config) (p : Path) : Target → Prop
  | dir {T : Target} : T ∈ cfg → ¬ Ign T p → Within T.path p → AffectedRec cfg p T
  | uses {T : Target} {u : Path} : T ∈ cfg → ¬ Ign T p → u ∈ T.uses → Within u p → AffectedRec cfg p T
  | nested {T N : Target} : T ∈ cfg → ¬ Ign T p → Within T.path N.path → AffectedRec cfg p N →
      AffectedRec cfg p T

/-- **C01 (the closed form is the recursive reading).** -/
theorem c01_rec_iff {cfg : Config} {p : Path} {T : Target} :
    AffectedRec cfg p T ↔ Affected false cfg p T := by
  constructor
  · intro h
    induction h with
    | dir hT hni hw => exact ⟨hT, hni, Or.inl hw⟩
    | @uses T u hT hni hu hw =>
      exact ⟨hT, hni, Or.inr ⟨T, hT, within_refl _, hni, u, hu, hw, fun hf => absurd hf (by simp)⟩⟩
    | nested hT hni hw _ ih =>
      obtain ⟨_, _, hd | ⟨N', hN', hw', hN'i, m, hm, hwm, huc⟩⟩ := ih
      · exact ⟨hT, hni, Or.inl (within_trans hw hd)⟩
      · exact ⟨hT, hni, Or.inr ⟨N', hN', within_trans hw hw', hN'i, m, hm, hwm, huc⟩⟩
  · rintro ⟨hT, hni, hd | ⟨N, hN, hw, hNi, m, hm, hwm, _⟩⟩
    · exact .dir hT hni hd
    · exact .nested hT hni hw (.uses hN hNi hm hwm)

/-- **C01 (summary = union over the changes), for every positive batch size.** -/
theorem c01_summary {cfg : Config} (h : WFA cfg) (cs : List Path) {k : Nat} (hk : 0 < k) (t : Path) :
    t ∈ (analyze cfg cs k).targets ↔ ∃ p ∈ cs, ∃ T, T.path = t ∧ Affected true cfg p T := by
  rw [mem_analyze_targets hk]
  constructor
  · rintro ⟨p, hp, ht⟩; exact ⟨p, hp, (c01_change_exact h p t).mp ht⟩
  · rintro ⟨p, hp, ht⟩; exact ⟨p, hp, (c01_change_exact h p t).mpr ht⟩

/-- **C01 (sorted, duplicate-free).** The summary is strictly increasing in byte order. -/
theorem c01_sorted (cfg : Config) (cs : List Path) (k : Nat) :
    (analyze cfg cs k).targets.Pairwise (fun a b => pathLt a b = true) :=
  sortDedupBy_sorted pathLt_strict _

/-- **C01 (independent of order, number and batching of the changes).** Two change lists with the
same members — in any order, with any multiplicities — analysed with any positive batch sizes give
the identical summary list. No well-formedness hypothesis is needed. -/
theorem c01_batch_indep (cfg : Config) (cs cs' : List Path) {k k' : Nat} (hk : 0 < k) (hk' : 0 < k')
    (hsame : ∀ p, p ∈ cs ↔ p ∈ cs') :
    (analyze cfg cs k).targets = (analyze cfg cs' k').targets := by
  apply sorted_ext pathLt_strict (c01_sorted _ _ _) (c01_sorted _ _ _)
  intro t
  rw [mem_analyze_targets hk, mem_analyze_targets hk']
  constructor
  · rintro ⟨p, hp, ht⟩; exact ⟨p, (hsame p).mp hp, ht⟩
  · rintro ⟨p, hp, ht⟩; exact ⟨p, (hsame p).mpr hp, ht⟩

/-- the batch size the code uses today is positive (regenerated from `/repo` on every run) -/
theorem c01_batchSize_pos : 0 < Consts.batchSize := by decide

/-- **C01 (summary = non-ignored entries of the per-change breakdown).** -/
theorem c01_breakdown_union (cfg : Config) (p t : Path) :
    t ∈ (analyzeChange cfg p).targets ↔
      ∃ r, r ≠ Reason.ignores ∧ (t, r) ∈ (analyzeChange cfg p).breakdown := by
  rw [mem_analyzeChange_targets]
  simp only [analyzeChange, List.mem_append, List.mem_map, Prod.mk.injEq, List.contains_iff_mem]
  constructor
  · rintro ⟨hd | hv, hni⟩
    · exact ⟨Reason.target, by simp, Or.inl ⟨t, hd, rfl, by simp [hni]⟩⟩
    · exact ⟨Reason.uses, by simp, Or.inr ⟨t, hv, rfl, by simp [hni]⟩⟩
  · rintro ⟨r, hr, ⟨t', ht', rfl, hre⟩ | ⟨t', ht', rfl, hre⟩⟩
    · refine ⟨Or.inl ht', fun hi => ?_⟩
      simp only [hi, if_true] at hre
      exact hr hre.symm
    · refine ⟨Or.inr ht', fun hi => ?_⟩
      simp only [hi, if_true] at hre
      exact hr hre.symm

/-! ## The oracle evaluated on implementation output is the specification -/

theorem ignB_iff (T : Target) (p : Path) : ignB T p = true ↔ Ign T p := by
  simp [ignB, Ign, List.any_eq_true, withinB_iff]

theorem useCountsB_iff (cfg : Config) (p u : Path) : useCountsB cfg p u = true ↔ UseCounts cfg p u := by
  simp only [useCountsB, UseCounts, Bool.not_eq_true', List.any_eq_false, Bool.and_eq_true, beq_iff_eq,
    not_and, Bool.not_eq_true, not_exists]
  constructor
  · intro h V hV hp hi
    have := h V hV hp
    rw [← ignB_iff] at hi
    rw [hi] at this; exact Bool.noConfusion this
  · intro h V hV hp
    cases hb : ignB V p with
    | false => rfl
    | true => exact absurd ((ignB_iff V p).mp hb) (h V hV hp)

theorem affectedB_iff (strict : Bool) {cfg : Config} {p : Path} {T : Target} (hT : T ∈ cfg) :
    affectedB strict cfg p T = true ↔ Affected strict cfg p T := by
  simp only [affectedB, Affected, Bool.and_eq_true, Bool.not_eq_true', Bool.or_eq_true,
    List.any_eq_true, withinB_iff, hT, true_and]
  constructor
  · rintro ⟨hni, hd | ⟨N, hN, ⟨hw, hNi⟩, m, hm, hwm, hs⟩⟩
    · exact ⟨fun hi => by rw [(ignB_iff T p).mpr hi] at hni; exact Bool.noConfusion hni, Or.inl hd⟩
    · refine ⟨fun hi => by rw [(ignB_iff T p).mpr hi] at hni; exact Bool.noConfusion hni,
        Or.inr ⟨N, hN, hw, fun hi => by rw [(ignB_iff N p).mpr hi] at hNi; exact Bool.noConfusion hNi,
          m, hm, hwm, ?_⟩⟩
      intro hst
      subst hst
      simpa [useCountsB_iff] using hs
  · rintro ⟨hni, hd | ⟨N, hN, hw, hNi, m, hm, hwm, hs⟩⟩
    · refine ⟨?_, Or.inl hd⟩
      cases hb : ignB T p with
      | false => rfl
      | true => exact absurd ((ignB_iff T p).mp hb) hni
    · refine ⟨?_, Or.inr ⟨N, hN, ⟨hw, ?_⟩, m, hm, hwm, ?_⟩⟩
      · cases hb : ignB T p with
        | false => rfl
        | true => exact absurd ((ignB_iff T p).mp hb) hni
      · cases hb : ignB N p with
        | false => rfl
        | true => exact absurd ((ignB_iff N p).mp hb) hNi
      · cases strict with
        | false => simp
        | true => simp [(useCountsB_iff cfg p m).mpr (hs rfl)]

/-! ## Target paths written with a trailing separator -/

/-- **C01 (per change, exact; trailing separators).** `c01_change_exact` for configurations whose
target paths name pairwise different normal directories and whose `uses` / `ignores` entries name
normal paths, each written with or without one trailing separator, and for every changed path that
is not itself the directory such an entry names (a change is a file). -/
theorem c01_change_exact_dir {cfg : Config} (h : WFAD cfg) (p t : Path) (hp : ChangeOk cfg p) :
    t ∈ (analyzeChange cfg p).targets ↔ ∃ T, T.path = t ∧ AffectedD true cfg p T := by
  rw [mem_analyzeChange_targets]
  constructor
  · rintro ⟨hd | hv, hni⟩
    · obtain ⟨T, hT, rfl, hh⟩ := mem_searchTargets.mp hd
      refine ⟨T, rfl, hT, fun hi => hni ((ign_iff_dir h hT hp).mpr hi), Or.inl ?_⟩
      exact (hit_dir (h.normalT T hT) (hp.target T hT)).mp hh
    · obtain ⟨N, hN, m, hm, hh, hmi, hNi, T, hT, rfl, hh2⟩ := mem_viaUses.mp hv
      refine ⟨T, rfl, hT, fun hi => hni ((ign_iff_dir h hT hp).mpr hi), Or.inr ⟨N, hN, ?_, ?_, m, hm, ?_, ?_⟩⟩
      · exact (hit_targets h hT hN).mp hh2
      · exact fun hi => hNi ((ign_iff_dir h hN hp).mpr hi)
      · exact (hit_dir (h.normalU N hN m hm) (hp.uses N hN m hm)).mp hh
      · exact fun _ => (useCounts_iff_dir h hp m).mp hmi
  · rintro ⟨T, rfl, hT, hni, hd | ⟨N, hN, hw, hNi, m, hm, hwm, huc⟩⟩
    · refine ⟨Or.inl (mem_searchTargets.mpr ⟨T, hT, rfl, (hit_dir (h.normalT T hT) (hp.target T hT)).mpr hd⟩), ?_⟩
      exact fun hi => hni ((ign_iff_dir h hT hp).mp hi)
    · refine ⟨Or.inr (mem_viaUses.mpr ⟨N, hN, m, hm, ?_, ?_, ?_, T, hT, rfl, ?_⟩), ?_⟩
      · exact (hit_dir (h.normalU N hN m hm) (hp.uses N hN m hm)).mpr hwm
      · exact (useCounts_iff_dir h hp m).mpr (huc rfl)
      · exact fun hi => hNi ((ign_iff_dir h hN hp).mp hi)
      · exact (hit_targets h hT hN).mpr hw
      · exact fun hi => hni ((ign_iff_dir h hT hp).mp hi)

/-- **C01 (whole analysis; trailing separators).** -/
theorem c01_analyze_exact_dir {cfg : Config} (h : WFAD cfg) (cs : List Path) {k : Nat} (hk : 0 < k) (t : Path)
    (hp : ∀ p ∈ cs, ChangeOk cfg p) :
    t ∈ (analyze cfg cs k).targets ↔ ∃ p ∈ cs, ∃ T, T.path = t ∧ AffectedD true cfg p T := by
  rw [mem_analyze_targets hk]
  constructor
  · rintro ⟨p, hpc, ht⟩
    exact ⟨p, hpc, (c01_change_exact_dir h p t (hp p hpc)).mp ht⟩
  · rintro ⟨p, hpc, hT⟩
    exact ⟨p, hpc, (c01_change_exact_dir h p t (hp p hpc)).mpr hT⟩

theorem ignDB_iff (T : Target) (p : Path) : ignDB T p = true ↔ IgnD T p := by
  simp [ignDB, IgnD, List.any_eq_true, withinB_iff]

theorem useCountsDB_iff (cfg : Config) (p u : Path) : useCountsDB cfg p u = true ↔ UseCountsD cfg p u := by
  simp only [useCountsDB, UseCountsD, Bool.not_eq_true', List.any_eq_false, Bool.and_eq_true, beq_iff_eq,
    not_and, Bool.not_eq_true, not_exists]
  constructor
  · intro h V hV hp hi
    have := h V hV hp
    rw [← ignDB_iff] at hi
    rw [hi] at this; exact Bool.noConfusion this
  · intro h V hV hp
    cases hb : ignDB V p with
    | false => rfl
    | true => exact absurd ((ignDB_iff V p).mp hb) (h V hV hp)

theorem affectedDB_iff (strict : Bool) {cfg : Config} {p : Path} {T : Target} (hT : T ∈ cfg) :
    affectedDB strict cfg p T = true ↔ AffectedD strict cfg p T := by
  simp only [affectedDB, AffectedD, Bool.and_eq_true, Bool.not_eq_true', Bool.or_eq_true,
    List.any_eq_true, withinB_iff, hT, true_and]
  constructor
  · rintro ⟨hni, hd | ⟨N, hN, ⟨hw, hNi⟩, m, hm, hwm, hs⟩⟩
    · exact ⟨fun hi => by rw [(ignDB_iff T p).mpr hi] at hni; exact Bool.noConfusion hni, Or.inl hd⟩
    · refine ⟨fun hi => by rw [(ignDB_iff T p).mpr hi] at hni; exact Bool.noConfusion hni,
        Or.inr ⟨N, hN, hw, fun hi => by rw [(ignDB_iff N p).mpr hi] at hNi; exact Bool.noConfusion hNi,
          m, hm, hwm, ?_⟩⟩
      intro hst
      subst hst
      simpa [useCountsDB_iff] using hs
  · rintro ⟨hni, hd | ⟨N, hN, hw, hNi, m, hm, hwm, hs⟩⟩
    · refine ⟨?_, Or.inl hd⟩
      cases hb : ignDB T p with
      | false => rfl
      | true => exact absurd ((ignDB_iff T p).mp hb) hni
    · refine ⟨?_, Or.inr ⟨N, hN, ⟨hw, ?_⟩, m, hm, hwm, ?_⟩⟩
      · cases hb : ignDB T p with
        | false => rfl
        | true => exact absurd ((ignDB_iff T p).mp hb) hni
      · cases hb : ignDB N p with
        | false => rfl
        | true => exact absurd ((ignDB_iff N p).mp hb) hNi
      · cases strict with
        | false => simp
        | true => simp [(useCountsDB_iff cfg p m).mpr (hs rfl)]

/-- the driver applies the oracle exactly on the domain of the theorem -/
theorem wfAllDB_iff (cfg : Config) : wfAllDB cfg = true ↔ WFAD cfg := by
  simp only [wfAllDB, Bool.and_eq_true, List.all_eq_true, normalB_iff, wfDB_iff]
  constructor
  · rintro ⟨hw, hrest⟩
    exact ⟨hw.nodup, hw.normal, fun t ht u hu => (hrest t ht).1 u hu, fun t ht g hg => (hrest t ht).2 g hg⟩
  · intro h
    exact ⟨h.toWFD, fun t ht => ⟨h.normalU t ht, h.normalI t ht⟩⟩

theorem changeOkB_spec {cfg : Config} {p : Path} (h : changeOkB cfg p = true) : ChangeOk cfg p := by
  simp only [changeOkB, slashed, Bool.and_eq_true, List.all_eq_true, Bool.not_eq_true', Bool.and_eq_false_iff,
    beq_eq_false_iff_ne, ne_eq, beq_iff_eq] at h
  refine ⟨?_, ?_, ?_⟩
  · intro T hT hs heq
    rcases (h.2 T hT).1.1 with h1 | h1
    · exact h1 hs
    · exact h1 heq
  · intro T hT u hu hs heq
    rcases (h.2 T hT).1.2 u hu with h1 | h1
    · exact h1 hs
    · exact h1 heq
  · intro T hT g hg hs heq
    rcases (h.2 T hT).2 g hg with h1 | h1
    · exact h1 hs
    · exact h1 heq

/-- `core/` declared with a trailing separator, `app` uses `core/api`, `core/sub` nested:
the change `core/api/x` affects `core/` (its directory) and `app` (its uses entry), not `core/sub` -/
def exCfg01Slash : Config :=
  [ { path := [99,111,114,101,47], uses := [], ignores := [] },
    { path := [97,112,112], uses := [[99,111,114,101,47,97,112,105]], ignores := [] },
    { path := [99,111,114,101,47,115,117,98], uses := [], ignores := [] } ]

example : wfAllDB exCfg01Slash = true ∧ changeOkB exCfg01Slash [99,111,114,101,47,97,112,105,47,120] = true := by decide
/-- a `uses` entry written `sh/`: a change `sh/f` affects the declaring target -/
example : (analyze [{ path := [97], uses := [[115,104,47]], ignores := [] }, { path := [98], uses := [], ignores := [] }]
    [[115,104,47,102]] 50).targets = [[97]] ∧
    wfAllDB [{ path := [97], uses := [[115,104,47]], ignores := [] }, { path := [98], uses := [], ignores := [] }] = true := by decide
example : (analyze exCfg01Slash [[99,111,114,101,47,97,112,105,47,120]] 50).targets = [[97,112,112],[99,111,114,101,47]] := by decide

/-! ## Non-vacuity -/

/-- `top`, `top/inner` (uses `shared`), `app`, `app2` (ignores `app2/docs`) -/
def exCfg01 : Config :=
  [ { path := [116,111,112], uses := [], ignores := [] },
    { path := [116,111,112,47,105,110], uses := [[115,104]], ignores := [] },
    { path := [97,112,112], uses := [], ignores := [] },
    { path := [97,112,112,50], uses := [], ignores := [[97,112,112,50,47,100]] } ]

theorem exCfg01_wfa : WFA exCfg01 := by
  refine ⟨by decide, ?_, ?_, ?_⟩
  · intro t ht
    simp only [exCfg01, List.mem_cons, List.not_mem_nil, or_false] at ht
    rcases ht with rfl | rfl | rfl | rfl <;> (rw [← normalB_iff]; decide)
  · intro t ht u hu
    simp only [exCfg01, List.mem_cons, List.not_mem_nil, or_false] at ht
    rcases ht with rfl | rfl | rfl | rfl <;> simp at hu
    subst hu; rw [← normalB_iff]; decide
  · intro t ht u hu
    simp only [exCfg01, List.mem_cons, List.not_mem_nil, or_false] at ht
    rcases ht with rfl | rfl | rfl | rfl <;> simp at hu
    subst hu; rw [← normalB_iff]; decide

/-- changes `sh/f` (affects `top/inner` through uses, hence `top`), `app2/x`, `app2/d/y` (ignored) -/
example : (analyze exCfg01 [[115,104,47,102],[97,112,112,50,47,120],[97,112,112,50,47,100,47,121]] 50).targets
    = [[97,112,112,50],[116,111,112],[116,111,112,47,105,110]] := by decide

end Monorail
