//! Structured generators for configurations and change lists, built from the quantifier text of
//! the properties: prefix-sharing sibling names, nesting, uses/ignores of every kind.
use crate::rng::Rng;
use serde_json::{json, Value};

#[derive(Clone, Debug, PartialEq)]
pub struct TargetSpec {
    pub path: String,
    pub uses: Vec<String>,
    pub ignores: Vec<String>,
}
#[derive(Clone, Debug, PartialEq)]
pub struct ConfigCase {
    pub targets: Vec<TargetSpec>,
}
impl ConfigCase {
    /// the configuration file content monorail reads
    pub fn to_config_json(&self) -> String {
        let ts: Vec<Value> = self
            .targets
            .iter()
            .map(|t| {
                let mut o = serde_json::Map::new();
                o.insert("path".into(), json!(t.path));
                if !t.uses.is_empty() {
                    o.insert("uses".into(), json!(t.uses));
                }
                if !t.ignores.is_empty() {
                    o.insert("ignores".into(), json!(t.ignores));
                }
                Value::Object(o)
            })
            .collect();
        json!({ "targets": ts }).to_string()
    }
    /// the same value as the model driver wants it
    pub fn to_model(&self) -> Value {
        let ts: Vec<Value> = self
            .targets
            .iter()
            .map(|t| json!({"path": t.path, "uses": t.uses, "ignores": t.ignores}))
            .collect();
        Value::Array(ts)
    }
    pub fn from_model(v: &Value) -> ConfigCase {
        let strs = |x: &Value| -> Vec<String> {
            x.as_array()
                .map(|a| a.iter().map(|s| s.as_str().unwrap().to_string()).collect())
                .unwrap_or_default()
        };
        ConfigCase {
            targets: v
                .as_array()
                .unwrap()
                .iter()
                .map(|t| TargetSpec {
                    path: t["path"].as_str().unwrap().to_string(),
                    uses: strs(&t["uses"]),
                    ignores: strs(&t["ignores"]),
                })
                .collect(),
        }
    }
    pub fn index_of(&self, path: &str) -> Option<usize> {
        self.targets.iter().position(|t| t.path == path)
    }
    /// create every target directory with one file in it (what `Index::new` requires)
    pub fn materialise(&self, work: &std::path::Path) {
        for t in &self.targets {
            let d = work.join(&t.path);
            let _ = std::fs::create_dir_all(&d);
            let _ = std::fs::write(d.join(".keep"), b"x");
        }
    }
}

/// component alphabet chosen to collide as byte prefixes
pub const COMPONENTS: &[&str] = &[
    "a", "ab", "app", "app2", "app-web", "lib", "lib2", "x", "src", "é", "core", "a.b",
    // a combining accent (NFD), a soft hyphen, a zero-width joiner: legal in file names
    "cafe\u{301}", "co\u{ad}op", "z\u{200d}w",
];
const FILES: &[&str] = &["f.rs", "README.md", "x", "main.go", "a b.txt"];

fn random_path(rng: &mut Rng, max_depth: usize) -> String {
    let d = rng.range(1, max_depth);
    (0..d).map(|_| *rng.pick(COMPONENTS)).collect::<Vec<_>>().join("/")
}

/// a new target path: fresh, nested in an existing target, or a prefix-sharing sibling of one
fn target_path(rng: &mut Rng, existing: &[String]) -> String {
    if !existing.is_empty() {
        let e = rng.pick(existing).clone();
        match rng.below(10) {
            0..=3 => return format!("{}/{}", e, rng.pick(COMPONENTS)),
            4 => return format!("{}/{}/{}", e, rng.pick(COMPONENTS), rng.pick(COMPONENTS)),
            5 => return format!("{}2", e),
            6 => return format!("{}-web", e),
            7 => {
                // a sibling whose name is a byte prefix of an existing one
                if e.len() > 1 && !e.ends_with('/') {
                    let mut s = e.clone();
                    s.pop();
                    if !s.is_empty() && !s.ends_with('/') && s.is_char_boundary(s.len()) {
                        return s;
                    }
                }
            }
            _ => {}
        }
    }
    random_path(rng, 3)
}

/// a path related to the configuration in one of the ways the property text lists
pub fn related_path(rng: &mut Rng, targets: &[String]) -> String {
    if targets.is_empty() {
        return random_path(rng, 3);
    }
    let t = rng.pick(targets).clone();
    match rng.below(12) {
        0 | 1 => t,                                                      // a target itself
        2 | 3 => format!("{}/{}", t, rng.pick(FILES)),                   // a file in a target
        4 => format!("{}/{}/{}", t, rng.pick(COMPONENTS), rng.pick(FILES)), // deeper
        5 => match t.rfind('/') {                                        // a directory above a target
            Some(i) => t[..i].to_string(),
            None => random_path(rng, 2),
        },
        6 => format!("{}x", t),                                          // prefix-sharing non-path
        7 => format!("{}2/{}", t, rng.pick(FILES)),                      // inside a prefix-sharing sibling
        8 => format!("{}-web/{}", t, rng.pick(FILES)),
        9 => format!("{}/{}", t, rng.pick(COMPONENTS)),                  // a directory in a target
        _ => random_path(rng, 4),                                        // anywhere
    }
}

pub struct GenOpts {
    pub max_targets: usize,
    pub allow_dups: bool,
    pub allow_odd: bool,
    /// target paths written with one trailing slash ("core/" names the directory core), referred to
    /// by `uses` / `ignores` entries in both spellings
    pub allow_slash: bool,
}

pub fn config(rng: &mut Rng, o: &GenOpts) -> ConfigCase {
    let n = if rng.chance(1, 10) { rng.range(1, o.max_targets) } else { rng.range(1, o.max_targets.min(6)) };
    let mut paths: Vec<String> = vec![];
    while paths.len() < n {
        let p = target_path(rng, &paths);
        if paths.contains(&p) && !(o.allow_dups && rng.chance(1, 30)) {
            continue;
        }
        paths.push(p);
    }
    if o.allow_odd && rng.chance(1, 25) {
        // non-normal spellings, compared model-vs-implementation only
        let i = rng.below(paths.len());
        paths[i] = match rng.below(3) {
            0 => format!("{}/", paths[i]),
            1 => paths[i].replacen('/', "//", 1),
            _ => format!("{}/", paths[i]),
        };
    }
    // which targets are declared with a trailing slash; everything that refers to them is built
    // from the plain spelling (and sometimes the slashed one)
    let mut slashed: Vec<bool> = paths.iter().map(|_| false).collect();
    if o.allow_slash && rng.chance(1, 5) {
        for _ in 0..rng.range(1, 2) {
            let i = rng.below(paths.len());
            if !paths[i].ends_with('/') && !paths[i].contains("//") {
                slashed[i] = true;
            }
        }
    }
    let mut targets = vec![];
    for (pi, p) in paths.iter().enumerate() {
        let nu = match rng.below(10) { 0..=4 => 0, 5..=7 => 1, 8 => 2, _ => 3 };
        let ni = match rng.below(10) { 0..=5 => 0, 6..=8 => 1, _ => 2 };
        let uses = (0..nu)
            .map(|_| {
                let u = related_path(rng, &paths);
                match paths.iter().position(|q| *q == u) {
                    Some(k) if slashed[k] && rng.chance(1, 3) => format!("{}/", u),
                    _ => u,
                }
            })
            .collect();
        let ignores = (0..ni)
            .map(|_| {
                if rng.chance(2, 3) {
                    match rng.below(4) {
                        0 => format!("{}/{}", p, rng.pick(FILES)),
                        1 => format!("{}/{}", p, rng.pick(COMPONENTS)),
                        2 => p.clone(),
                        _ => format!("{}/{}/{}", p, rng.pick(COMPONENTS), rng.pick(FILES)),
                    }
                } else {
                    related_path(rng, &paths)
                }
            })
            .collect();
        let path = if slashed[pi] { format!("{}/", p) } else { p.clone() };
        // `uses` / `ignores` entries naming a directory may be written with a trailing slash too
        let slash_entry = |rng: &mut Rng, e: String| -> String {
            if o.allow_slash && !e.is_empty() && !e.ends_with('/') && !e.contains("//") && rng.chance(1, 10) {
                format!("{}/", e)
            } else {
                e
            }
        };
        let uses: Vec<String> = uses;
        let uses = uses.into_iter().map(|e| slash_entry(rng, e)).collect();
        let ignores: Vec<String> = ignores;
        let ignores = ignores.into_iter().map(|e| slash_entry(rng, e)).collect();
        targets.push(TargetSpec { path, uses, ignores });
    }
    rng.shuffle(&mut targets);
    ConfigCase { targets }
}

pub fn changes(rng: &mut Rng, cfg: &ConfigCase, max: usize) -> Vec<String> {
    let paths: Vec<String> = cfg.targets.iter().map(|t| t.path.clone()).collect();
    let mut pool: Vec<String> = paths.clone();
    for t in &cfg.targets {
        pool.extend(t.uses.iter().cloned());
        pool.extend(t.ignores.iter().cloned());
    }
    let n = match rng.below(20) {
        0 => 0,
        1..=12 => rng.range(1, 6),
        13..=17 => rng.range(7, 40.min(max)),
        _ => rng.range(40.min(max), max),
    };
    let mut out: Vec<String> = vec![];
    for _ in 0..n {
        let c = if rng.chance(1, 8) && !out.is_empty() {
            rng.pick(&out).clone() // duplicate
        } else {
            related_path(rng, &pool)
        };
        out.push(c);
    }
    out
}

/// one-step shrink candidates of a configuration (fewer targets / uses / ignores)
pub fn shrink_config(c: &ConfigCase) -> Vec<ConfigCase> {
    let mut out = vec![];
    for i in 0..c.targets.len() {
        if c.targets.len() > 1 {
            let mut d = c.clone();
            d.targets.remove(i);
            out.push(d);
        }
    }
    for i in 0..c.targets.len() {
        for k in 0..c.targets[i].uses.len() {
            let mut d = c.clone();
            d.targets[i].uses.remove(k);
            out.push(d);
        }
        for k in 0..c.targets[i].ignores.len() {
            let mut d = c.clone();
            d.targets[i].ignores.remove(k);
            out.push(d);
        }
    }
    out
}
