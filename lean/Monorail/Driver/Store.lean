import Monorail.Driver.Util
import Monorail.Model.Store
open Lean
namespace Monorail.Driver

def runOf (j : Json) : Except String Run := do
  let doc ← getNat j "doc"
  let logs ← (← getArr j "logs").toList.mapM (fun x => do
    let a ← x.getArr?
    pure ((← (a[0]!).getNat?), (← (a[1]!).getNat?)))
  pure { doc := doc, logs := logs }

def contentJson : Content → Json
  | .full c => toJson c
  | .torn => Json.str "torn"

def slotJson (s : Slot) : Json :=
  Json.mkObj [("result", match s.result with | some c => contentJson c | none => Json.null),
    ("logs", Json.arr (s.logs.map (fun kc => Json.arr #[toJson kc.1, contentJson kc.2])).toArray)]

/-- {"op":"store","max":n,"runs":[{"doc","logs":[[k,c]]}..]} : the store after the history -/
def handleStore (j : Json) : Except String Json := do
  let max ← getNat j "max"
  -- an element with "abort": true is an invocation that errored out right after slot set-up
  -- (e.g. an undefined sequence): the first two effects of a run, nothing else
  let evs ← (← getArr j "runs").toList.mapM (fun x => do
    let r ← runOf x
    let ab := (getBool x "abort").toOption.getD false
    pure (r, ab))
  let s := evs.foldl (fun st (ra : Run × Bool) =>
    if ra.2 then applyAll st ((runEffects max st ra.1).take 2) else doRun max st ra.1) emptyStore
  let ids := List.range (max + 3)
  let slots := ids.filterMap (fun i => (s.slots i).map (fun sl => (toString i, slotJson sl)))
  pure (Json.mkObj [
    ("pointer", match s.pointer with | some p => toJson p | none => Json.null),
    ("next", toJson (nextId s.pointer max)),
    ("slots", Json.mkObj slots),
    ("resultShow", match resultShow s with | some d => toJson d | none => Json.null)])

end Monorail.Driver
