import Monorail.Model.Graph
import Mathlib.Order.WellFounded
import Mathlib.Logic.Relation
import Mathlib.Data.Finset.Card
import Mathlib.Data.List.Perm.Subperm
/-! Lemmas about the abstract Kahn layering and the visibility closure. -/
namespace Monorail
open Relation

/-- "`x` depends on `a`" (an edge of the graph) -/
def Dep (g : Graph) (x a : Nat) : Prop := a ∈ g.out x

/-- reachability through one or more dependency edges -/
abbrev Reach1 (g : Graph) : Nat → Nat → Prop := TransGen (Dep g)
/-- reachability through zero or more dependency edges -/
abbrev Reach (g : Graph) : Nat → Nat → Prop := ReflTransGen (Dep g)

/-- every edge points at an existing node (true of every graph `Index::new` builds) -/
def InRange (g : Graph) : Prop := ∀ u, ∀ v ∈ g.out u, v < g.size

/-- `b` occurs in a strictly earlier group than `a` -/
def Before (gs : List (List Nat)) (b a : Nat) : Prop :=
  ∃ pre B mid A post, gs = pre ++ B :: (mid ++ A :: post) ∧ b ∈ B ∧ a ∈ A

theorem dep_lt (g : Graph) {x a : Nat} (h : Dep g x a) : x < g.size := by
  unfold Dep Graph.out at h
  by_contra hx
  have hn : g.adj[x]? = none := List.getElem?_eq_none (Nat.le_of_not_lt hx)
  simp [List.getD, hn] at h

theorem mem_peel {g : Graph} {rem : List Nat} {v : Nat} :
    v ∈ peel g rem ↔ v ∈ rem ∧ ∀ u ∈ rem, v ∉ g.out u := by
  simp [peel, List.mem_filter, List.all_eq_true]

theorem peel_subset (g : Graph) (rem : List Nat) : ∀ v ∈ peel g rem, v ∈ rem :=
  fun _ hv => (mem_peel.mp hv).1

/-- members of any layer come from the start set -/
theorem layers_mem_subset (g : Graph) : ∀ (fuel : Nat) (rem : List Nat) (l : List Nat),
    l ∈ (layersAux g fuel rem).1 → ∀ v ∈ l, v ∈ rem := by
  intro fuel
  induction fuel with
  | zero => intro rem l h; simp [layersAux] at h
  | succ fuel ih =>
    intro rem l h v hv
    simp only [layersAux] at h
    split at h
    · simp at h
    · rcases List.mem_cons.mp h with rfl | h
      · exact peel_subset g rem v hv
      · exact (List.mem_filter.mp (ih _ l h v hv)).1

/-- ORDER: if `u` (still remaining) depends on `v` and `v` is released in some layer, then `u` was
released in a strictly earlier layer. Needs no acyclicity. -/
theorem order_aux (g : Graph) : ∀ (fuel : Nat) (rem : List Nat) (u v : Nat),
    u ∈ rem → v ∈ g.out u → (∃ l ∈ (layersAux g fuel rem).1, v ∈ l) →
    Before (layersAux g fuel rem).1 u v := by
  intro fuel
  induction fuel with
  | zero => intro rem u v _ _ h; simp [layersAux] at h
  | succ fuel ih =>
    intro rem u v hu huv h
    simp only [layersAux] at h ⊢
    split
    · rename_i he; simp [he] at h
    · rename_i he
      simp only [he] at h
      obtain ⟨l, hl, hv⟩ := h
      rcases List.mem_cons.mp hl with rfl | hl
      · exact absurd huv ((mem_peel.mp hv).2 u hu)
      · by_cases hup : u ∈ peel g rem
        · obtain ⟨pre, post, hsplit⟩ := List.append_of_mem hl
          exact ⟨[], peel g rem, pre, l, post, by rw [hsplit]; rfl, hup, hv⟩
        · have hu' : u ∈ rem.filter (fun v => !(peel g rem).contains v) := by
            simp [List.mem_filter, hu, hup]
          obtain ⟨pre, B, mid, A, post, heq, hB, hA⟩ := ih _ u v hu' huv ⟨l, hl, hv⟩
          exact ⟨peel g rem :: pre, B, mid, A, post, by rw [heq]; rfl, hB, hA⟩

/-- PARTITION: layers ++ leftover is a permutation of the start set. -/
theorem perm_aux (g : Graph) : ∀ (fuel : Nat) (rem : List Nat),
    ((layersAux g fuel rem).1.flatten ++ (layersAux g fuel rem).2).Perm rem := by
  intro fuel
  induction fuel with
  | zero => intro rem; simp [layersAux]
  | succ fuel ih =>
    intro rem
    simp only [layersAux]
    split
    · simp
    · simp only [List.flatten_cons, List.append_assoc]
      have h1 := ih (rem.filter (fun v => !(peel g rem).contains v))
      have h2 : (peel g rem ++ rem.filter (fun v => !(peel g rem).contains v)).Perm rem := by
        have : peel g rem = rem.filter (fun v => (peel g rem).contains v) := by
          conv => lhs; unfold peel
          apply List.filter_congr
          intro x hx
          rw [Bool.eq_iff_iff]
          simp only [List.contains_iff_mem, mem_peel, List.all_eq_true, Bool.not_eq_true']
          constructor
          · intro h; exact ⟨hx, fun u hu => by simpa using h u hu⟩
          · intro h u hu; simpa using h.2 u hu
        conv => lhs; arg 1; rw [this]
        exact List.filter_append_perm _ rem
      exact (List.Perm.append_left _ h1).trans h2

/-- no layer is empty -/
theorem layers_nonempty (g : Graph) : ∀ (fuel : Nat) (rem : List Nat),
    ∀ l ∈ (layersAux g fuel rem).1, l ≠ [] := by
  intro fuel
  induction fuel with
  | zero => intro rem l h; simp [layersAux] at h
  | succ fuel ih =>
    intro rem l h
    simp only [layersAux] at h
    split at h
    · simp at h
    · rename_i he
      rcases List.mem_cons.mp h with rfl | h
      · intro hnil; simp [hnil] at he
      · exact ih _ l h

/-- a set of remaining nodes in which everyone has a dependent inside the set is never released -/
theorem stuck_aux (g : Graph) (C : List Nat) (hC : ∀ v ∈ C, ∃ u ∈ C, v ∈ g.out u) :
    ∀ (fuel : Nat) (rem : List Nat), (∀ v ∈ C, v ∈ rem) → ∀ v ∈ C, v ∈ (layersAux g fuel rem).2 := by
  intro fuel
  induction fuel with
  | zero => intro rem h v hv; simpa [layersAux] using h v hv
  | succ fuel ih =>
    intro rem h v hv
    simp only [layersAux]
    split
    · exact h v hv
    · apply ih _ _ v hv
      intro w hw
      simp only [List.mem_filter, h w hw, true_and]
      obtain ⟨u, huC, hwu⟩ := hC w hw
      have : w ∉ peel g rem := fun hp => (mem_peel.mp hp).2 u (h u huC) hwu
      simpa using this

theorem filter_not_peel_length_lt (g : Graph) (rem : List Nat) (h : (peel g rem).isEmpty = false) :
    (rem.filter (fun v => !(peel g rem).contains v)).length < rem.length := by
  cases hp : peel g rem with
  | nil => simp [hp] at h
  | cons a t =>
    have ha : a ∈ peel g rem := by simp [hp]
    have har : a ∈ rem := peel_subset g rem a ha
    apply List.length_filter_lt_length_iff_exists.mpr
    exact ⟨a, har, by simp [← hp, ha]⟩

/-- when the loop stops, nothing more can be released from the leftover -/
theorem left_stuck (g : Graph) : ∀ (fuel : Nat) (rem : List Nat), rem.length ≤ fuel →
    peel g (layersAux g fuel rem).2 = [] := by
  intro fuel
  induction fuel with
  | zero =>
    intro rem h
    have : rem = [] := List.length_eq_zero_iff.mp (Nat.le_zero.mp h)
    simp [layersAux, this, peel]
  | succ fuel ih =>
    intro rem h
    simp only [layersAux]
    split
    · rename_i he; simpa [List.isEmpty_iff] using he
    · rename_i he
      apply ih
      have := filter_not_peel_length_lt g rem (by simpa using he)
      omega

theorem left_subset (g : Graph) (vis : List Nat) : ∀ v ∈ (layers g vis).2, v ∈ vis := by
  intro v hv
  have := (perm_aux g vis.length vis).subset (List.mem_append_right _ hv)
  exact this

/-- dependency edges that start inside `vis` -/
def DepOn (g : Graph) (vis : List Nat) (x a : Nat) : Prop := x ∈ vis ∧ a ∈ g.out x

theorem transGen_of_depOn {g : Graph} {vis : List Nat} {a b : Nat}
    (h : TransGen (DepOn g vis) a b) : TransGen (Dep g) a b := by
  induction h with
  | single h => exact TransGen.single h.2
  | tail _ h ih => exact TransGen.tail ih h.2

/-- finitely many nodes: no cycle inside `vis` ⇒ `DepOn` is well founded -/
theorem wf_of_noCycle (g : Graph) (vis : List Nat) (h : ∀ v, ¬ TransGen (DepOn g vis) v v) :
    WellFounded (DepOn g vis) := by
  classical
  let m : Nat → Nat := fun x =>
    ((Finset.range g.size).filter (fun z => TransGen (DepOn g vis) z x)).card
  have key : ∀ x y, DepOn g vis x y → m x < m y := by
    intro x y hxy
    apply Finset.card_lt_card
    rw [Finset.ssubset_iff_of_subset]
    · refine ⟨x, ?_, ?_⟩
      · simp only [Finset.mem_filter, Finset.mem_range]
        exact ⟨dep_lt g hxy.2, TransGen.single hxy⟩
      · simp only [Finset.mem_filter, Finset.mem_range, not_and]
        intro _; exact h x
    · intro z hz
      simp only [Finset.mem_filter, Finset.mem_range] at hz ⊢
      exact ⟨hz.1, TransGen.tail hz.2 hxy⟩
  exact Subrelation.wf (fun {a b} hab => key a b hab) (measure m).wf

/-- COMPLETENESS: no cycle among the visible nodes ⇒ nothing is left over. -/
theorem complete_of_noCycle (g : Graph) (vis : List Nat)
    (h : ∀ v, ¬ TransGen (DepOn g vis) v v) : (layers g vis).2 = [] := by
  have hwf := wf_of_noCycle g vis h
  have hs := left_stuck g vis.length vis (Nat.le_refl _)
  have hsub := left_subset g vis
  unfold layers at hsub ⊢
  generalize (layersAux g vis.length vis).2 = left at hs hsub ⊢
  cases left with
  | nil => rfl
  | cons a t =>
    exfalso
    obtain ⟨m, hm, hmin⟩ := hwf.has_min {x | x ∈ a :: t} ⟨a, List.mem_cons_self⟩
    have : m ∈ peel g (a :: t) :=
      mem_peel.mpr ⟨hm, fun u hu hmu => hmin u hu ⟨hsub u hu, hmu⟩⟩
    simp [hs] at this

/-- a non-empty set of visible nodes in which everyone has a dependent in the set is left over -/
theorem cyclic_left (g : Graph) (vis C : List Nat) (hne : C ≠ [])
    (hsub : ∀ v ∈ C, v ∈ vis) (hC : ∀ v ∈ C, ∃ u ∈ C, v ∈ g.out u) :
    (layers g vis).2 ≠ [] := by
  intro h
  cases C with
  | nil => exact hne rfl
  | cons c t =>
    have := stuck_aux g (c :: t) hC vis.length vis hsub c (by simp)
    unfold layers at h
    simp [h] at this

theorem groups_eq (g : Graph) (roots : List Nat) :
    groups g roots = if (layers g (closure g roots)).2.isEmpty then .ok (layers g (closure g roots)).1
      else .error .cycle := rfl

/-! ### visibility closure -/

theorem mem_dedupNat {x : Nat} {l : List Nat} : x ∈ dedupNat l ↔ x ∈ l := by
  induction l with
  | nil => simp [dedupNat]
  | cons a as ih =>
    simp only [dedupNat]
    split
    · rename_i h
      rw [ih, List.mem_cons]
      constructor
      · exact Or.inr
      · rintro (rfl | h')
        · simpa using h
        · exact h'
    · simp [ih]

theorem dedupNat_nodup (l : List Nat) : (dedupNat l).Nodup := by
  induction l with
  | nil => simp [dedupNat]
  | cons a as ih =>
    simp only [dedupNat]
    split
    · exact ih
    · rename_i h
      rw [List.nodup_cons]
      exact ⟨by rw [mem_dedupNat]; simpa using h, ih⟩

theorem mem_expand {g : Graph} {s : List Nat} {x : Nat} :
    x ∈ expand g s ↔ x ∈ s ∨ (x < g.size ∧ ∃ u ∈ s, x ∈ g.out u) := by
  simp only [expand, mem_dedupNat, List.mem_append, List.mem_filter, List.mem_flatMap,
    decide_eq_true_eq]
  constructor
  · rintro (h | ⟨⟨u, hu, hx⟩, hlt⟩)
    · exact Or.inl h
    · exact Or.inr ⟨hlt, u, hu, hx⟩
  · rintro (h | ⟨hlt, u, hu, hx⟩)
    · exact Or.inl h
    · exact Or.inr ⟨⟨u, hu, hx⟩, hlt⟩

theorem nodup_lt_length_le {s : List Nat} {n : Nat} (hnd : s.Nodup) (hlt : ∀ x ∈ s, x < n) :
    s.length ≤ n := by
  have hsub : s ⊆ List.range n := fun x hx => List.mem_range.mpr (hlt x hx)
  have := (List.subperm_of_subset hnd hsub).length_le
  simpa using this

/-- if expanding does not add anything, the set is closed under dependencies -/
theorem closed_of_expand_length {g : Graph} {s : List Nat} (hnd : s.Nodup)
    (hlen : (expand g s).length = s.length) :
    ∀ u ∈ s, ∀ x ∈ g.out u, x < g.size → x ∈ s := by
  intro u hu x hx hlt
  have hsub : s ⊆ expand g s := fun y hy => mem_expand.mpr (Or.inl hy)
  have hnd' : (expand g s).Nodup := dedupNat_nodup _
  have hperm : s.Perm (expand g s) :=
    (List.subperm_of_subset hnd hsub).perm_of_length_le (by omega)
  exact hperm.mem_iff.mpr (mem_expand.mpr (Or.inr ⟨hlt, u, hu, hx⟩))

theorem closureAux_spec (g : Graph) : ∀ (fuel : Nat) (s : List Nat),
    s.Nodup → (∀ x ∈ s, x < g.size) → g.size ≤ s.length + fuel →
    (∀ x ∈ s, x ∈ closureAux g fuel s) ∧
    (closureAux g fuel s).Nodup ∧ (∀ x ∈ closureAux g fuel s, x < g.size) ∧
    (∀ u ∈ closureAux g fuel s, ∀ x ∈ g.out u, x < g.size → x ∈ closureAux g fuel s) ∧
    (∀ x ∈ closureAux g fuel s, ∃ r ∈ s, Reach g r x) := by
  intro fuel
  induction fuel with
  | zero =>
    intro s hnd hlt hsz
    refine ⟨fun x hx => hx, hnd, hlt, ?_, fun x hx => ⟨x, hx, ReflTransGen.refl⟩⟩
    intro u _ x _ hx
    -- s already contains every node
    have hlen : s.length = g.size := by
      have := nodup_lt_length_le hnd hlt
      simp at hsz; omega
    have hsub : s ⊆ List.range g.size := fun y hy => List.mem_range.mpr (hlt y hy)
    have hperm : s.Perm (List.range g.size) :=
      (List.subperm_of_subset hnd hsub).perm_of_length_le (by simp [hlen])
    exact hperm.mem_iff.mpr (List.mem_range.mpr hx)
  | succ fuel ih =>
    intro s hnd hlt hsz
    simp only [closureAux]
    split
    · rename_i heq
      have heq' : (expand g s).length = s.length := by simpa using heq
      exact ⟨fun x hx => hx, hnd, hlt, closed_of_expand_length hnd heq',
        fun x hx => ⟨x, hx, ReflTransGen.refl⟩⟩
    · rename_i hne
      have hnd' : (expand g s).Nodup := dedupNat_nodup _
      have hlt' : ∀ x ∈ expand g s, x < g.size := by
        intro x hx
        rcases mem_expand.mp hx with h | ⟨h, _⟩
        · exact hlt x h
        · exact h
      have hsub : s ⊆ expand g s := fun y hy => mem_expand.mpr (Or.inl hy)
      have hle : s.length ≤ (expand g s).length := (List.subperm_of_subset hnd hsub).length_le
      have hgt : s.length < (expand g s).length := by
        have : (expand g s).length ≠ s.length := by simpa using hne
        omega
      obtain ⟨h1, h2, h3, h4, h5⟩ := ih (expand g s) hnd' hlt' (by omega)
      refine ⟨fun x hx => h1 x (hsub hx), h2, h3, h4, ?_⟩
      intro x hx
      obtain ⟨r, hr, hreach⟩ := h5 x hx
      rcases mem_expand.mp hr with h | ⟨_, u, hu, hru⟩
      · exact ⟨r, h, hreach⟩
      · exact ⟨u, hu, ReflTransGen.head hru hreach⟩

theorem closure_nodup (g : Graph) (roots : List Nat) : (closure g roots).Nodup :=
  (closureAux_spec g g.size _ (dedupNat_nodup _)
    (fun x hx => by simpa using (List.mem_filter.mp (mem_dedupNat.mp hx)).2) (by omega)).2.1

theorem closure_lt (g : Graph) (roots : List Nat) : ∀ x ∈ closure g roots, x < g.size :=
  (closureAux_spec g g.size _ (dedupNat_nodup _)
    (fun x hx => by simpa using (List.mem_filter.mp (mem_dedupNat.mp hx)).2) (by omega)).2.2.1

theorem closure_closed (g : Graph) (hr : InRange g) (roots : List Nat) :
    ∀ u ∈ closure g roots, ∀ x ∈ g.out u, x ∈ closure g roots := by
  intro u hu x hx
  exact (closureAux_spec g g.size _ (dedupNat_nodup _)
    (fun x hx => by simpa using (List.mem_filter.mp (mem_dedupNat.mp hx)).2) (by omega)).2.2.2.1
    u hu x hx (hr u x hx)

/-- the visible set is exactly what is reachable from the (existing) roots -/
theorem mem_closure (g : Graph) (hr : InRange g) (roots : List Nat) (x : Nat) :
    x ∈ closure g roots ↔ ∃ r ∈ roots, r < g.size ∧ Reach g r x := by
  have spec := closureAux_spec g g.size (dedupNat (roots.filter (fun v => v < g.size)))
    (dedupNat_nodup _)
    (fun x hx => by simpa using (List.mem_filter.mp (mem_dedupNat.mp hx)).2) (by omega)
  constructor
  · intro hx
    obtain ⟨r, hr', hreach⟩ := spec.2.2.2.2 x hx
    have := List.mem_filter.mp (mem_dedupNat.mp hr')
    exact ⟨r, this.1, by simpa using this.2, hreach⟩
  · rintro ⟨r, hrr, hlt, hreach⟩
    have hr0 : r ∈ closure g roots :=
      spec.1 r (mem_dedupNat.mpr (List.mem_filter.mpr ⟨hrr, by simpa using hlt⟩))
    induction hreach with
    | refl => exact hr0
    | tail _ hstep ih => exact closure_closed g hr roots _ ih _ hstep

end Monorail
