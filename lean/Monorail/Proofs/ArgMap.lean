import Monorail.Model.ArgMap
/-! Lemmas about the argument table. -/
namespace Monorail

/-- every value stored under key `c`, in order (equals `lookupArgs` when keys are distinct) -/
def allArgs (m : CmdArgs) (c : String) : List String :=
  match m with
  | [] => []
  | (k, v) :: rest => if k = c then v ++ allArgs rest c else allArgs rest c

theorem allArgs_eq_lookup {m : CmdArgs} (h : (m.map (·.1)).Nodup) (c : String) :
    allArgs m c = lookupArgs m c := by
  induction m with
  | nil => rfl
  | cons kv rest ih =>
    obtain ⟨k, v⟩ := kv
    simp only [List.map_cons, List.nodup_cons] at h
    simp only [allArgs, lookupArgs]
    split
    · rename_i hk
      subst hk
      have : allArgs rest k = [] := by
        have hnot : k ∉ rest.map (·.1) := h.1
        clear ih h
        induction rest with
        | nil => rfl
        | cons kv' r ih' =>
          obtain ⟨k', v'⟩ := kv'
          simp only [List.map_cons, List.mem_cons, not_or] at hnot
          simp only [allArgs]
          rw [if_neg (fun e => hnot.1 e.symm)]
          exact ih' hnot.2
      simp [this]
    · exact ih h.2

theorem lookup_mergeCmd (dst : CmdArgs) (c : String) (args : List String) (c' : String) :
    lookupArgs (mergeCmd dst c args) c' =
      if c' = c then lookupArgs dst c ++ args else lookupArgs dst c' := by
  induction dst with
  | nil =>
    simp only [mergeCmd, lookupArgs]
    by_cases h : c' = c
    · subst h; simp
    · have h' : ¬ c = c' := fun e => h e.symm
      simp [h, h']
  | cons kv rest ih =>
    obtain ⟨k, v⟩ := kv
    simp only [mergeCmd]
    by_cases hk : k = c
    · subst hk
      simp only [if_true, lookupArgs]
      by_cases h : c' = k
      · subst h; simp
      · have h' : ¬ k = c' := fun e => h e.symm
        simp [h, h']
    · simp only [hk, if_false, lookupArgs]
      by_cases hkc' : k = c'
      · subst hkc'
        simp [hk]
      · simp only [hkc', if_false]
        rw [ih]

theorem lookup_mergeFile (dst src : CmdArgs) (c : String) :
    lookupArgs (mergeFile dst src) c = lookupArgs dst c ++ allArgs src c := by
  unfold mergeFile
  induction src generalizing dst with
  | nil => simp [allArgs]
  | cons kv rest ih =>
    obtain ⟨k, v⟩ := kv
    simp only [List.foldl_cons]
    rw [ih, lookup_mergeCmd]
    simp only [allArgs]
    by_cases h : c = k
    · subst h; simp
    · have h' : ¬ k = c := fun e => h e.symm
      simp [h, h']

theorem getArgs_mergeTarget (tbl : Table) (t : String) (src : CmdArgs) (t' c : String) :
    getArgs (mergeTarget tbl t src) t' c =
      if t' = t then getArgs tbl t c ++ allArgs src c else getArgs tbl t' c := by
  induction tbl with
  | nil =>
    simp only [mergeTarget, getArgs]
    by_cases h : t' = t
    · subst h; simp [lookup_mergeFile, lookupArgs]
    · have h' : ¬ t = t' := fun e => h e.symm
      simp [h, h']
  | cons km rest ih =>
    obtain ⟨k, m⟩ := km
    simp only [mergeTarget]
    by_cases hk : k = t
    · subst hk
      simp only [if_true, getArgs]
      by_cases h : t' = k
      · subst h; simp [lookup_mergeFile]
      · have h' : ¬ k = t' := fun e => h e.symm
        simp [h, h']
    · simp only [hk, if_false, getArgs]
      by_cases hkt' : k = t'
      · subst hkt'
        simp [hk]
      · simp only [hkt', if_false]
        rw [ih]

/-- the arguments the requested argmap files of target `t` contribute to command `c` -/
def fileEntryAll (files : TargetFiles) (c n : String) : List String :=
  match files n with
  | some src => allArgs src c
  | none => []

def fileArgs (inp : ArgInput) (files : TargetFiles) (c : String) : List String :=
  ((if inp.useBase then ["base"] else []) ++ inp.argmaps).flatMap (fileEntryAll files c)

theorem getArgs_mergeTargetArgmaps (inp : ArgInput) (tbl : Table) (t : String) (files : TargetFiles)
    (t' c : String) :
    getArgs (mergeTargetArgmaps inp tbl t files) t' c =
      if t' = t then getArgs tbl t c ++ fileArgs inp files c else getArgs tbl t' c := by
  unfold mergeTargetArgmaps fileArgs
  generalize ((if inp.useBase then ["base"] else []) ++ inp.argmaps) = names
  induction names generalizing tbl with
  | nil => by_cases h : t' = t <;> simp [h]
  | cons n ns ih =>
    simp only [List.foldl_cons, List.flatMap_cons]
    rw [ih]
    cases hf : files n with
    | none => simp [fileEntryAll, hf]
    | some src =>
      simp only [getArgs_mergeTarget, if_true, fileEntryAll, hf]
      by_cases h : t' = t
      · simp [h, List.append_assoc]
      · simp [h]

theorem getArgs_foldTargets (inp : ArgInput) (files : String → TargetFiles) (targets : List String)
    (hnd : targets.Nodup) (tbl : Table) (t c : String) :
    getArgs (targets.foldl (fun tb t => mergeTargetArgmaps inp tb t (files t)) tbl) t c =
      getArgs tbl t c ++ (if t ∈ targets then fileArgs inp (files t) c else []) := by
  induction targets generalizing tbl with
  | nil => simp
  | cons a as ih =>
    simp only [List.foldl_cons]
    rw [List.nodup_cons] at hnd
    rw [ih hnd.2, getArgs_mergeTargetArgmaps]
    by_cases hta : t = a
    · subst hta
      simp [hnd.1]
    · simp [hta]

end Monorail
