import Monorail.Model.Graph
import Monorail.Model.Kahn
/-!
# `Dag::set_subtree_visibility`, concretely

The iterative depth-first walk of the (repaired) code: a stack of `(node, next adjacency index)`,
a `visited` set for this walk, an `active` set holding the nodes on the path being explored, and the
`visibility` flags of the graph (which accumulate over the walks from several roots). Reaching an
active node again is a cycle; reaching a visited one that is no longer active (a diamond) is not.

One loop iteration is `dfsStep`; `dfsRun` iterates it with fuel (`Proofs/Dfs.lean` proves the fuel
of `setVisible` is never exhausted). `indexGroups` is what `Index::new` + `get_groups` do together:
walk from every requested root, then run the in-degree loop over the visible set.

Import-free (linked into the driver).
-/
namespace Monorail

structure DSt where
  stack : List (Nat × Nat)     -- top first
  visited : List Nat
  active : List Nat
  vis : List Nat               -- nodes whose visibility flag is set

inductive DRes where
  | running (s : DSt)
  | done (vis : List Nat)
  | cycle (v : Nat)

/-- one iteration of `while let Some(&(n, i)) = stack.last()` -/
def dfsStep (g : Graph) (s : DSt) : DRes :=
  match s.stack with
  | [] => .done s.vis
  | (n, i) :: rest =>
    match (g.out n)[i]? with
    | some d =>
      if s.active.contains d then .cycle d
      else if s.visited.contains d then .running { s with stack := (n, i + 1) :: rest }
      else .running { stack := (d, 0) :: (n, i + 1) :: rest, visited := d :: s.visited,
                      active := d :: s.active, vis := if s.vis.contains d then s.vis else d :: s.vis }
    | none => .running { s with stack := rest, active := s.active.erase n }

inductive DErr where
  | cycle (v : Nat)
  | fuel
deriving Repr, DecidableEq

def dfsRun (g : Graph) : Nat → DSt → Except DErr (List Nat)
  | 0, _ => .error .fuel
  | fuel + 1, s =>
    match dfsStep g s with
    | .done vis => .ok vis
    | .cycle v => .error (.cycle v)
    | .running s' => dfsRun g fuel s'

/-- an upper bound on the number of iterations of one walk -/
def dfsFuel (g : Graph) : Nat := ((List.range g.size).map (fun u => (g.out u).length + 2)).sum + 2

/-- `set_subtree_visibility(root, true)` on a graph whose visible nodes are `vis` -/
def setVisible (g : Graph) (vis : List Nat) (root : Nat) : Except DErr (List Nat) :=
  dfsRun g (dfsFuel g)
    { stack := [(root, 0)], visited := [root], active := [root],
      vis := if vis.contains root then vis else root :: vis }

/-- the loop over the requested roots at the end of `Index::new` -/
def visibleOf (g : Graph) : List Nat → List Nat → Except DErr (List Nat)
  | [], vis => .ok vis
  | r :: rs, vis =>
    match setVisible g vis r with
    | .ok vis' => visibleOf g rs vis'
    | .error e => .error e

/-- `Index::new(.., roots, ..)` followed by `dag.get_groups()` -/
def indexGroups (g : Graph) (roots : List Nat) : Except GraphErr (List (List Nat)) :=
  match visibleOf g roots [] with
  | .ok vis => kahn g vis
  | .error _ => .error .cycle

/-! ## LEGACY (pinned tree before repair D3)

The pinned `set_subtree_visibility` walked breadth-first and kept every node it had reached in one
`active` set, reporting a cycle whenever a node was reached a second time - which also happens for a
diamond. Kept as a checked counter-example only. -/

def legacyWalk (g : Graph) : Nat → List Nat → List Nat → Except DErr (List Nat)
  | 0, _, seen => .ok seen
  | _ + 1, [], seen => .ok seen
  | fuel + 1, n :: queue, seen =>
    match (g.out n).find? (fun d => seen.contains d) with
    | some d => .error (.cycle d)
    | none => legacyWalk g fuel (queue ++ g.out n) (seen ++ g.out n)

def setVisibleLegacy (g : Graph) (root : Nat) : Except DErr (List Nat) :=
  legacyWalk g (dfsFuel g) [root] [root]

end Monorail
