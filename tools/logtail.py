#!/usr/bin/env python3
"""C08 / C15 / C20 at CLI level, after the in-process capture run (`mrverif c08|c15|c20`).

  C08  real time: tasks pause in the middle of lines across the 500 ms flush; `log show` must give
       back exactly the bytes of every stream of every task, per task.
  C15  the same run executed with no listener, with `log tail` under random filters, and with the
       listener SIGKILLed before the run / mid-output / between groups: result documents, exit
       status and stored logs must be pairwise equal.
  C20  real `log tail` under every filter combination (streams, --targets with prefix-sharing and
       nested names, --commands): blocks only for admitted keys; per key the concatenated blocks
       equal the stored log (newline-terminated text)."""
import json
import os
import re
import signal
import socket
import subprocess
import sys
import time
from concurrent.futures import ThreadPoolExecutor

import scen
import storeobs

TARGETS = [{"path": "app"}, {"path": "app2"}, {"path": "lib"}, {"path": "lib/core"}, {"path": "web", "uses": ["lib"]},
           {"path": "naïve"}]
COMMANDS = ["build", "test"]


def gen_plan(rng, realtime, text=True):
    """per (command,target): steps on both streams; returns (plan, expected {(stream,target,command): bytes})"""
    plan, expect = {}, {}
    for t in TARGETS:
        for c in COMMANDS:
            steps = []
            out = {1: b"", 2: b""}
            n = rng.range(2, 7)
            for k in range(n):
                fd = rng.pick([1, 1, 2])
                if text:
                    body = ("%s %s %s line %d %s\n" % (c, t["path"], "out" if fd == 1 else "err", k, "x" * rng.below(30))).encode()
                    if rng.chance(1, 3):
                        body += b"second line of the same write\n"
                    if rng.chance(1, 3):
                        # text that is not valid UTF-8 (latin-1, a truncated multi-byte character)
                        body = body[:-1] + rng.pick([b" caf\xe9", b" \xff\xfe", b" \xe2\x82", b" \x80"]) + b"\n"
                else:
                    body = bytes(rng.below(256) for _ in range(rng.range(1, 40)))
                if realtime and rng.chance(1, 3) and text:
                    # pause in the middle of the line, straddling the flush
                    cut = rng.range(1, len(body) - 1)
                    steps.append([rng.pick([0, 5, 20]), fd, body[:cut].hex()])
                    steps.append([rng.range(300, 900), fd, body[cut:].hex()])
                else:
                    steps.append([rng.pick([0, 0, 3, 10, 40]) if not realtime else rng.pick([0, 10, 120, 450]), fd, body.hex()])
                out[fd] += body
            if not text and rng.chance(1, 2):
                pass
            plan["%s|%s" % (c, t["path"])] = {"steps": steps}
            if out[1]:
                expect[("stdout", t["path"], c)] = out[1]
            if out[2]:
                expect[("stderr", t["path"], c)] = out[2]
    return plan, expect


def make_repo(plan):
    repo = scen.Repo(TARGETS, git=False)
    for t in TARGETS:
        for c in COMMANDS:
            repo.install(t["path"], c)
    repo.set_plan(plan)
    return repo


def wait_port(port, timeout=8.0):
    """wait until some process LISTENs on the loopback port (read from /proc/net/tcp: probing by
    bind or connect would race with, or be served by, the listener itself)"""
    want = ":%04X" % port
    t0 = time.time()
    while time.time() - t0 < timeout:
        try:
            for line in open("/proc/net/tcp").read().split("\n")[1:]:
                f = line.split()
                if len(f) > 3 and f[1].endswith(want) and f[3] == "0A":
                    return True
        except OSError:
            pass
        time.sleep(0.01)
    return False


def start_tail(repo, flt):
    args = ["log", "tail"]
    if flt["stdout"]:
        args.append("--stdout")
    if flt["stderr"]:
        args.append("--stderr")
    if flt["targets"]:
        args += ["--targets"] + flt["targets"]
    if flt["commands"]:
        args += ["--commands"] + flt["commands"]
    p = repo.popen(args)
    if not wait_port(repo.log_port) or p.poll() is not None:
        raise RuntimeError("log tail did not start listening")
    # collect its stdout as it arrives, so that "everything has been printed" can be observed
    p.collected = bytearray()
    p.last_growth = time.time()

    def pump():
        while True:
            b = p.stdout.read1(65536) if hasattr(p.stdout, "read1") else p.stdout.read(65536)
            if not b:
                return
            p.collected.extend(b)
            p.last_growth = time.time()
    import threading
    p.pump = threading.Thread(target=pump, daemon=True)
    p.pump.start()
    return p


def drain_tail(p, quiet=0.5, limit=15.0):
    """wait until the listener has printed nothing new for `quiet` seconds, then stop it"""
    t0 = time.time()
    while time.time() - t0 < limit and time.time() - p.last_growth < quiet:
        time.sleep(0.05)
    p.send_signal(signal.SIGTERM)
    try:
        p.wait(timeout=10)
    except subprocess.TimeoutExpired:
        p.kill()
    p.pump.join(timeout=5)
    return bytes(p.collected)


def settle_tail(p, done, quiet=3.0, limit=90.0):
    """collect the listener's output until `done(bytes)` holds - the normal case, reached as soon as
    the last block has been relayed - or, failing that, until it has printed nothing new for `quiet`
    seconds (a generous margin: a loaded machine must not turn slowness into a verdict); then stop it"""
    t0 = time.time()
    while time.time() - t0 < limit:
        if done(bytes(p.collected)):
            break
        if time.time() - p.last_growth > quiet and time.time() - t0 > quiet:
            break
        time.sleep(0.05)
    p.send_signal(signal.SIGTERM)
    try:
        p.wait(timeout=10)
    except subprocess.TimeoutExpired:
        p.kill()
    p.pump.join(timeout=5)
    return bytes(p.collected)


def reassembled(out, flt, want):
    """do the header-introduced blocks of `out` reassemble, per admitted key, to `want`?"""
    blocks = parse_tail(out)
    if blocks is None:
        return False
    per = {}
    for k, b in blocks:
        per[k] = per.get(k, b"") + b
    return all(per.get(k, b"") == w for k, w in want.items() if admitted(flt, k))


def admitted(flt, key):
    stream, target, command = key
    if stream == "stdout" and not flt["stdout"]:
        return False
    if stream == "stderr" and not flt["stderr"]:
        return False
    if flt["targets"] and target not in flt["targets"]:
        return False
    if flt["commands"] and command not in flt["commands"]:
        return False
    return True


def gen_filter(rng):
    so, se = rng.pick([(True, True), (True, False), (False, True), (True, True)])
    targets = []
    if rng.chance(2, 3):
        targets = sorted(set(rng.pick(["app", "app2", "lib", "lib/core", "web"]) for _ in range(rng.range(1, 3))))
    commands = []
    if rng.chance(1, 3):
        commands = [rng.pick(COMMANDS)]
    if rng.chance(1, 8):
        # a filter that names no configured target at all admits nothing
        targets = [rng.pick(["nosuch", "app/", "ap", "lib/cor"])]
    elif targets and rng.chance(1, 2):
        # a long filter: dozens of other (here: absent) targets are named too, several KB of JSON
        targets = targets + ["services/%s/%03d" % ("x" * rng.range(40, 90), i) for i in range(rng.range(40, 80))]
    return {"stdout": so, "stderr": se, "targets": targets, "commands": commands}


def run_once(repo, extra_env=None):
    rc, j, out, err = repo.mono("run", "-c", *COMMANDS, extra_env=extra_env, timeout=120)
    rc2, _, shown, _ = repo.mono("log", "show", "--stdout", "--stderr")
    return rc, storeobs.canon_doc(j), storeobs.parse_log_show(shown) if rc2 == 0 else None, err


def c08_case(seed, model, rep):
    rng = scen.Rng(seed)
    text = seed % 2 == 0
    plan, expect = gen_plan(rng, realtime=True, text=text)
    repo = make_repo(plan)
    try:
        rc, doc, logs, err = run_once(repo)
        rep.evaluations += 1
        rep.count("realtime_text" if text else "realtime_binary")
        if rc != 0:
            rep.oracle_fail({"kind": "run failed", "case": {"seed": seed, "mode": "c08"}, "rc": rc, "stderr": err[-300:]})
            return
        if text:
            ok = logs == expect
        else:
            # binary output cannot be split into blocks reliably: compare per file through --targets/--commands filters
            ok = True
            for (stream, t, c), want in expect.items():
                rc2, _, shown, _ = repo.mono("log", "show", "--" + stream, "--targets", t, "--commands", c)
                m = storeobs.HEADER.match(shown)
                got = shown[m.end():] if m else shown
                if got != want:
                    ok = False
                    logs = {"key": [stream, t, c], "got": got.hex(), "want": want.hex()}
                    break
        if not ok:
            rep.oracle_fail({"kind": "log show differs from the bytes the tasks wrote", "case": {"seed": seed, "mode": "c08"},
                             "diff": str(logs)[:600]})
            return
        rep.nontrivial_case({"seed": seed})
        rep.sample({"seed": seed, "mode": "realtime", "keys": len(expect)})
    finally:
        repo.done()


HDR = re.compile(rb"\[monorail \| (?:\x1b\[[0-9;]*m)?(stdout|stderr)\.zst(?:\x1b\[0m)? \| ([^\n|]*?) \| ([^\n|]*?)\]\n")


def parse_tail(out):
    """listener stdout -> list of ((stream,target,command), body); the first line is the stream header"""
    nl = out.find(b"\n")
    if nl < 0:
        return [] if not out else None
    body = out[nl + 1:]
    blocks = []
    pos = 0
    m = HDR.match(body, pos)
    if body and not m:
        return None
    while m:
        key = (m.group(1).decode(), m.group(2).decode(), m.group(3).decode())
        start = m.end()
        nxt = HDR.search(body, start)
        end = nxt.start() if nxt else len(body)
        blocks.append((key, body[start:end]))
        m = nxt
    return blocks


def c20_case(seed, model, rep):
    rng = scen.Rng(seed)
    plan, expect = gen_plan(rng, realtime=False)
    flt = gen_filter(rng)
    repo = make_repo(plan)
    case = {"seed": seed, "mode": "c20", "filter": flt}
    try:
        tail = start_tail(repo, flt)
        rc, doc, logs, err = run_once(repo)
        tail.last_growth = time.time()
        tout = settle_tail(tail, lambda o: reassembled(o, flt, expect))
        rep.evaluations += 1
        rep.count("filter_targets" if flt["targets"] else "filter_any_target")
        rep.count("filter_commands" if flt["commands"] else "filter_any_command")
        rep.count("streams_%s%s" % ("o" if flt["stdout"] else "", "e" if flt["stderr"] else ""))
        if rc != 0 or logs != expect:
            rep.count("violations_of_C08_or_C15")
            return
        blocks = parse_tail(tout)
        if blocks is None:
            rep.oracle_fail({"kind": "listener output is not header-introduced blocks", "case": case, "head": tout[:300].decode("utf-8", "replace")})
            return
        per = {}
        for k, b in blocks:
            per[k] = per.get(k, b"") + b
        for k in per:
            if not admitted(flt, k):
                rep.oracle_fail({"kind": "block for a key the listener's filters do not admit", "case": case, "key": list(k)})
                return
        for k, want in expect.items():
            if admitted(flt, k) and per.get(k, b"") != want:
                rep.oracle_fail({"kind": "blocks of a key do not reassemble to its stored log", "case": case, "key": list(k),
                                 "got": per.get(k, b"").decode("utf-8", "replace")[:300], "want": want.decode()[:300]})
                return
        if len(blocks) >= 2:
            rep.nontrivial_case({"seed": seed})
        rep.sample({"seed": seed, "filter": flt, "blocks": len(blocks)})
    finally:
        repo.done()


def show_per_key(repo, keys):
    """stored log of each key, read back through `log show` with filters (works for binary output)"""
    got = {}
    for (stream, t, c) in keys:
        rc2, _, shown, _ = repo.mono("log", "show", "--" + stream, "--targets", t, "--commands", c, timeout=120)
        m = storeobs.HEADER.match(shown)
        got[(stream, t, c)] = shown[m.end():] if m else shown
    return got


def c08_volume_case(seed, model, rep):
    """megabytes of poorly compressible output from every member of one group, all finishing close
    together: the compressors still have a backlog when the last task is joined"""
    rng = scen.Rng(seed)
    group = ["app", "app2", "lib"]
    plan, expect = {}, {}
    for t in group:
        blk_o = bytes(rng.below(256) for _ in range(8192)) * 4
        blk_e = bytes(rng.below(256) for _ in range(4096)) * 2
        no, ne = rng.range(120, 200), rng.range(60, 120)
        plan["build|%s" % t] = {"repeat": [[no, 1, blk_o.hex()], [ne, 2, blk_e.hex()]]}
        expect[("stdout", t, "build")] = blk_o * no
        expect[("stderr", t, "build")] = blk_e * ne
    repo = make_repo(plan)
    case = {"seed": seed, "mode": "c08volume"}
    try:
        rc, j, out, err = repo.mono("run", "-c", "build", "-t", *group, "--deps", timeout=300)
        rep.evaluations += 1
        rep.count("volume_cases")
        rep.count("volume_mb", sum(len(v) for v in expect.values()) // (1 << 20))
        if rc != 0:
            rep.oracle_fail({"kind": "run failed", "case": case, "rc": rc, "stderr": err[-300:]})
            return
        got = show_per_key(repo, expect.keys())
        for k, want in expect.items():
            if got[k] != want:
                rep.oracle_fail({"kind": "stored log differs from the bytes written", "case": case, "key": list(k),
                                 "written_bytes": len(want), "stored_bytes": len(got[k]),
                                 "is_prefix": want.startswith(got[k])})
                return
        rep.nontrivial_case({"seed": seed, "mode": "volume"})
    finally:
        repo.done()


def c08_repeat_case(seed, model, rep):
    """the same command named twice in one invocation: its second execution replaces the logs of the
    first; what is stored afterwards is exactly what the second process wrote"""
    rng = scen.Rng(seed)
    first = bytes(rng.below(256) for _ in range(rng.range(3000, 9000)))
    second = ("second execution %d\n" % rng.below(1000)).encode() * rng.range(1, 3)
    plan = {"build|app": {"by_count": [{"steps": [[0, 1, first.hex()], [0, 2, first[:2000].hex()]]},
                                        {"steps": [[0, 1, second.hex()], [0, 2, b"e\n".hex()]]}]}}
    repo = make_repo(plan)
    case = {"seed": seed, "mode": "c08repeat"}
    try:
        repo.clear_traces()
        rc, j, out, err = repo.mono("run", "-c", "build", "build", "-t", "app", timeout=120)
        rep.evaluations += 1
        rep.count("repeated_command_cases")
        if rc != 0 or len([t for t in repo.traces() if t["command"] == "build"]) != 2:
            rep.count("repeated_command_unexpected")
            return
        expect = {("stdout", "app", "build"): second, ("stderr", "app", "build"): b"e\n"}
        for (stream, t, c), want in expect.items():
            rc2, _, shown, err2 = repo.mono("log", "show", "--" + stream, "--targets", t, "--commands", c)
            m = storeobs.HEADER.match(shown)
            got = shown[m.end():] if m else shown
            if rc2 != 0 or got != want:
                rep.oracle_fail({"kind": "stored log differs from the bytes written", "case": case, "key": [stream, t, c],
                                 "log_show_rc": rc2, "stderr": err2[-200:], "written_bytes": len(want), "shown_bytes": len(got)})
                return
        rep.nontrivial_case({"seed": seed, "mode": "repeat"})
    finally:
        repo.done()


def blocks_vs_stored(repo, tail, flt, case, rep, whole_lines=False):
    """C20 judged against the stored logs themselves (whatever the run's outcome was)"""
    rc0, _, shown0, _ = repo.mono("log", "show", "--stdout", "--stderr", timeout=120)
    stored0 = storeobs.parse_log_show(shown0) if rc0 == 0 else {}
    want0 = {k: v for k, v in stored0.items() if v.endswith(b"\n")}
    tail.last_growth = time.time()
    tout = settle_tail(tail, lambda o: reassembled(o, flt, want0))
    blocks = parse_tail(tout)
    if blocks is None:
        rep.oracle_fail({"kind": "listener output is not header-introduced blocks", "case": case, "head": tout[:300].decode("utf-8", "replace")})
        return False
    per = {}
    for k, b in blocks:
        per[k] = per.get(k, b"") + b
        if whole_lines and not b.endswith(b"\n"):
            # every stream of this scenario is newline-terminated text: the reader hands over complete
            # lines only, so a block (and with it the position of the next header) never falls
            # inside a line
            rep.oracle_fail({"kind": "listener output is not header-introduced blocks", "case": case, "key": list(k),
                             "detail": "a block ends in the middle of a line; the next header does not start a line",
                             "block_tail": b[-60:].decode("utf-8", "replace")})
            return False
    rc2, _, shown, _ = repo.mono("log", "show", "--stdout", "--stderr", timeout=120)
    stored = storeobs.parse_log_show(shown) if rc2 == 0 else {}
    for k in per:
        if not admitted(flt, k):
            rep.oracle_fail({"kind": "block for a key the listener's filters do not admit", "case": case, "key": list(k)})
            return False
    for k, want in stored.items():
        if admitted(flt, k) and want.endswith(b"\n") and per.get(k, b"") != want:
            g = per.get(k, b"")
            rep.oracle_fail({"kind": "blocks of a key do not reassemble to its stored log", "case": case, "key": list(k),
                             "stored_bytes": len(want), "streamed_bytes": len(g), "streamed_is_prefix": want.startswith(g),
                             "got_tail": g[-120:].decode("utf-8", "replace"), "want_tail": want[-120:].decode("utf-8", "replace")})
            return False
    tail.last_per, tail.last_stored = per, stored
    return True


def c20_cancel_case(seed, model, rep):
    """a member of the group fails while its siblings are printing: they are cancelled with lines read
    since the last flush tick still unflushed; what was stored for them must also have been streamed"""
    rng = scen.Rng(seed)
    plan = {}
    for t in ("app", "app2"):
        gap = rng.pick([40, 70, 110])
        plan["build|%s" % t] = {"steps": [[gap, rng.pick([1, 1, 2]), ("%s line %d\n" % (t, i)).encode().hex()] for i in range(40)]}
    plan["build|lib"] = {"sleep_ms": rng.pick([250, 400, 620, 780, 1150]), "exit": 3}
    flt = {"stdout": True, "stderr": True, "targets": [], "commands": []}
    repo = make_repo(plan)
    case = {"seed": seed, "mode": "c20cancel", "fail_after_ms": plan["build|lib"]["sleep_ms"]}
    try:
        tail = start_tail(repo, flt)
        rc, j, out, err = repo.mono("run", "-c", "build", "-t", "app", "app2", "lib", "--deps", timeout=120)
        # (not the listener: it runs in the repository too and may still be relaying the last block)
        scen.reap_helpers(repo, keep=(tail.pid,))
        rep.evaluations += 1
        rep.count("cancel_cases")
        if rc != 1:
            tail.kill()
            rep.count("cancel_case_unexpected_rc")
            return
        if blocks_vs_stored(repo, tail, flt, case, rep):
            rep.nontrivial_case({"seed": seed, "mode": "cancel"})
            # the task machine (two readers of one task, cancelled in either order) on the lines each
            # reader had consumed: what it streams is what the listener received for that key
            for t in ("app", "app2"):
                so = tail.last_stored.get(("stdout", t, "build"), b"")
                se = tail.last_stored.get(("stderr", t, "build"), b"")
                if not ((so == b"" or so.endswith(b"\n")) and (se == b"" or se.endswith(b"\n"))):
                    continue
                evs = [["out", "chunk", l.hex()] for l in so.splitlines(True)] + [["err", "chunk", l.hex()] for l in se.splitlines(True)]
                if rng.chance(1, 2):
                    evs.insert(rng.below(len(evs) + 1), [rng.pick(["out", "err"]), "tick"])
                evs += [["out", "cancel"], ["err", "cancel"]] if rng.chance(1, 2) else [["err", "cancel"], ["out", "cancel"]]
                m = model.ask({"op": "task", "events": evs, "client_out": True, "client_err": True})
                got_o = tail.last_per.get(("stdout", t, "build"), b"").hex()
                got_e = tail.last_per.get(("stderr", t, "build"), b"").hex()
                rep.count("task_machine_comparisons")
                if m["o"]["streamed"] != got_o or m["e"]["streamed"] != got_e or m["o"]["stored"] != so.hex() or m["e"]["stored"] != se.hex():
                    rep.disagree({"kind": "the task machine streams something else than the listener received", "case": case, "target": t,
                                  "model_out_bytes": len(m["o"]["streamed"]) // 2, "listener_out_bytes": len(got_o) // 2,
                                  "model_err_bytes": len(m["e"]["streamed"]) // 2, "listener_err_bytes": len(got_e) // 2})
    finally:
        repo.done()


def c20_stall_case(seed, model, rep):
    """the listener stops reading for a while (SIGSTOP) while the tasks write more than the socket
    buffers hold: the writers wait, nothing is dropped or cut"""
    rng = scen.Rng(seed)
    plan = {}
    for t in ("app", "app2", "lib"):
        line = ("%s %s\n" % (t, "x" * rng.range(60, 200))).encode()
        plan["build|%s" % t] = {"steps": [[0, 1, ("%s first\n" % t).encode().hex()]], "repeat": [[rng.range(12000, 18000), 1, line.hex()]]}
    flt = {"stdout": True, "stderr": True, "targets": [], "commands": []}
    repo = make_repo(plan)
    stall = rng.pick([0.9, 1.4, 2.0])
    case = {"seed": seed, "mode": "c20stall", "stall_s": stall}
    try:
        tail = start_tail(repo, flt)
        p = repo.popen(["run", "-c", "build", "-t", "app", "app2", "lib", "--deps"])
        t0 = time.time()
        while time.time() - t0 < 5 and len(tail.collected) < 200:
            time.sleep(0.01)
        os.kill(tail.pid, signal.SIGSTOP)
        time.sleep(stall)
        os.kill(tail.pid, signal.SIGCONT)
        try:
            out, err = p.communicate(timeout=300)
        except subprocess.TimeoutExpired:
            scen.kill_tree(p)
            rep.oracle_fail({"kind": "run did not finish after the listener resumed", "case": case})
            return
        rep.evaluations += 1
        rep.count("stall_cases")
        if p.returncode != 0:
            tail.kill()
            rep.count("stall_case_unexpected_rc")
            return
        if blocks_vs_stored(repo, tail, flt, case, rep):
            rep.nontrivial_case({"seed": seed, "mode": "stall"})
    finally:
        repo.done()


def c20_frozen_case(seed, model, rep):
    """the listener is suspended when the run connects and resumed a few seconds later: the run waits
    for it and everything is streamed"""
    rng = scen.Rng(seed)
    plan, expect = gen_plan(rng, realtime=False)
    flt = {"stdout": True, "stderr": True, "targets": [], "commands": []}
    repo = make_repo(plan)
    stall = rng.pick([1.6, 2.4])
    case = {"seed": seed, "mode": "c20frozen", "stall_s": stall}
    try:
        tail = start_tail(repo, flt)
        os.kill(tail.pid, signal.SIGSTOP)
        p = repo.popen(["run", "-c"] + COMMANDS)
        time.sleep(stall)
        os.kill(tail.pid, signal.SIGCONT)
        try:
            out, err = p.communicate(timeout=120)
        except subprocess.TimeoutExpired:
            scen.kill_tree(p)
            tail.kill()
            rep.oracle_fail({"kind": "blocks of a key do not reassemble to its stored log", "case": case, "detail": "the run did not finish"})
            return
        rep.evaluations += 1
        rep.count("frozen_listener_cases")
        if p.returncode != 0:
            tail.kill()
            rep.count("frozen_case_unexpected_rc")
            return
        if blocks_vs_stored(repo, tail, flt, case, rep):
            rep.nontrivial_case({"seed": seed, "mode": "frozen"})
    finally:
        repo.done()


def c08_isolation_case(seed, model, rep):
    """targets whose SHA-256 digests share their first 32 bits, in one group; and a slot that is reused
    by a run that executes less than the run before it: every log holds its own task's bytes only"""
    rng = scen.Rng(seed)
    targets = [{"path": "svc24848"}, {"path": "svc93803"}, {"path": "other"}]
    repo = scen.Repo(targets, git=False, max_retained_runs=1)
    case = {"seed": seed, "mode": "c08isolation"}
    try:
        for t in targets:
            for c in ("build", "check"):
                repo.install(t["path"], c)
        plan, expect = {}, {}
        for t in targets:
            body = ("%s says %d\n" % (t["path"], rng.below(100000))).encode() * rng.range(1, 4)
            plan["build|%s" % t["path"]] = {"steps": [[0, 1, body.hex()], [0, 2, body[::-1].hex()]]}
            expect[("stdout", t["path"], "build")] = body
            expect[("stderr", t["path"], "build")] = body[::-1]
        plan["check|other"] = {"steps": [[0, 1, b"check other\n".hex()]]}
        repo.set_plan(plan)
        rc, j, out, err = repo.mono("run", "-c", "build")
        rep.evaluations += 1
        rep.count("isolation_cases")
        if rc != 0:
            rep.oracle_fail({"kind": "run failed", "case": case, "rc": rc, "stderr": err[-300:]})
            return
        got = show_per_key(repo, expect.keys())
        bad = [list(k) for k in expect if got.get(k) != expect[k]]
        if bad:
            rep.oracle_fail({"kind": "stored log differs from the bytes written", "case": case, "keys": bad,
                             "detail": "targets svc24848 and svc93803 (digests agree in their first 8 hex digits)"})
            return
        # the only slot is reused by a run that executes one task
        rc, j, out, err = repo.mono("run", "-c", "check", "-t", "other")
        rc2, _, shown, _ = repo.mono("log", "show", "--stdout", "--stderr")
        logs = storeobs.parse_log_show(shown) if rc2 == 0 else None
        if rc != 0 or logs != {("stdout", "other", "check"): b"check other\n"}:
            rep.oracle_fail({"kind": "stored log differs from the bytes written", "case": case,
                             "detail": "log show after a run that reuses the slot shows something else than that run's logs",
                             "shown_keys": sorted(map(str, (logs or {}).keys()))})
            return
        rep.nontrivial_case({"seed": seed, "mode": "isolation"})
    finally:
        repo.done()


def c20_longline_case(seed, model, rep):
    """a line far longer than any buffer that straddles several flush ticks, next to short lines from
    other tasks: a block never ends in the middle of a line"""
    rng = scen.Rng(seed)
    a, b = rng.range(70000, 140000), rng.range(20000, 60000)
    plan = {
        "build|app": {"steps": [[0, 1, (b"A" * a).hex()], [rng.pick([700, 1200, 1600]), 1, (b"B" * b + b"\n").hex()]]},
        "build|app2": {"steps": [[0, 2, (b"c" * 20000).hex()], [900, 2, (b"d" * 20000 + b"\n").hex()]]},
        "build|lib": {"steps": [[60, rng.pick([1, 2]), ("lib line %d\n" % i).encode().hex()] for i in range(30)]},
    }
    flt = {"stdout": True, "stderr": True, "targets": [], "commands": []}
    repo = make_repo(plan)
    case = {"seed": seed, "mode": "c20longline", "first_part": a, "second_part": b}
    try:
        tail = start_tail(repo, flt)
        rc, j, out, err = repo.mono("run", "-c", "build", "-t", "app", "app2", "lib", "--deps", timeout=120)
        rep.evaluations += 1
        rep.count("longline_cases")
        if rc != 0:
            tail.kill()
            rep.count("longline_case_unexpected_rc")
            return
        if blocks_vs_stored(repo, tail, flt, case, rep, whole_lines=True):
            rep.nontrivial_case({"seed": seed, "mode": "longline"})
    finally:
        repo.done()


def c15_stall_case(seed, model, rep):
    """the listener stops reading for several seconds while one task floods the stream and another
    writes its last lines and exits: nothing the tasks wrote may be missing from the stored logs"""
    rng = scen.Rng(seed)
    line = ("plug %s\n" % ("y" * 120)).encode()
    n = rng.range(60000, 90000)
    quiet_lines = [("quiet line %d\n" % i).encode() for i in range(4)]
    plan = {"build|app": {"steps": [[0, 1, b"plug first\n".hex()]], "repeat": [[n, 1, line.hex()]]},
            "build|app2": {"steps": [[300, 1, quiet_lines[0].hex()], [300, 1, quiet_lines[1].hex()], [400, 2, quiet_lines[2].hex()],
                                     [200, 1, quiet_lines[3].hex()]]}}
    expect = {("stdout", "app", "build"): b"plug first\n" + line * n,
              ("stdout", "app2", "build"): quiet_lines[0] + quiet_lines[1] + quiet_lines[3],
              ("stderr", "app2", "build"): quiet_lines[2]}
    flt = {"stdout": True, "stderr": True, "targets": [], "commands": []}
    repo = make_repo(plan)
    stall = rng.pick([2.6, 3.2])
    case = {"seed": seed, "mode": "c15stall", "stall_s": stall}
    try:
        tail = start_tail(repo, flt)
        p = repo.popen(["run", "-c", "build", "-t", "app", "app2", "--deps"])
        t0 = time.time()
        while time.time() - t0 < 5 and len(tail.collected) < 100:
            time.sleep(0.01)
        os.kill(tail.pid, signal.SIGSTOP)
        time.sleep(stall)
        os.kill(tail.pid, signal.SIGCONT)
        try:
            out, err = p.communicate(timeout=300)
        except subprocess.TimeoutExpired:
            scen.kill_tree(p)
            tail.kill()
            rep.oracle_fail({"kind": "a log tail listener changed the outcome of the run", "case": case, "variant": "listener stalled: the run did not finish"})
            return
        tail.kill()
        tail.wait()
        rep.evaluations += 1
        rep.count("c15_stall_cases")
        got = show_per_key(repo, expect.keys())
        bad = [list(k) for k in expect if got.get(k) != expect[k]]
        if p.returncode != 0 or bad:
            rep.oracle_fail({"kind": "a log tail listener changed the outcome of the run", "case": case,
                             "variant": "listener stalled for %.1fs mid-run" % stall, "exit": p.returncode, "logs_that_differ": bad,
                             "sizes": {str(k): [len(expect[k]), len(got.get(k, b""))] for k in expect}})
            return
        rep.nontrivial_case({"seed": seed, "mode": "stall"})
    finally:
        repo.done()


def c15_restart_case(seed, model, rep):
    """the listener is killed mid-run and a new one is started on the same port while the tasks keep
    writing (more than a pipe holds): the run finishes with the same records as without a listener"""
    rng = scen.Rng(seed)
    blk = ("x" * 99 + "\n").encode() * 400          # 40 KB of lines
    plan, expect = {}, {}
    for t in ("app", "app2"):
        steps = [[0, 1, ("%s start\n" % t).encode().hex()], [0, 2, ("%s start err\n" % t).encode().hex()]]
        for k in range(10):
            steps.append([150, 1, blk.hex()])
            steps.append([0, 2, blk.hex()])
        plan["build|%s" % t] = {"steps": steps}
        expect[("stdout", t, "build")] = ("%s start\n" % t).encode() + blk * 10
        expect[("stderr", t, "build")] = ("%s start err\n" % t).encode() + blk * 10
    flt = {"stdout": True, "stderr": True, "targets": [], "commands": []}
    repo = make_repo(plan)
    case = {"seed": seed, "mode": "c15restart"}
    try:
        tail = start_tail(repo, flt)
        p = repo.popen(["run", "-c", "build", "-t", "app", "app2", "--deps"])
        time.sleep(rng.pick([0.3, 0.5]))
        tail.kill()
        tail.wait()
        tail2 = None
        try:
            tail2 = start_tail(repo, flt)
        except RuntimeError:
            pass
        try:
            out, err = p.communicate(timeout=60)
        except subprocess.TimeoutExpired:
            scen.kill_tree(p)
            scen.reap_helpers(repo)
            if tail2:
                tail2.kill()
            rep.evaluations += 1
            rep.oracle_fail({"kind": "a log tail listener changed the outcome of the run", "case": case,
                             "variant": "listener killed and restarted mid-run: the run did not finish within 60 s"})
            return
        if tail2:
            tail2.kill()
            tail2.wait()
        rep.evaluations += 1
        rep.count("c15_restart_cases")
        got = show_per_key(repo, expect.keys())
        bad = [list(k) for k in expect if got.get(k) != expect[k]]
        if p.returncode != 0 or bad:
            rep.oracle_fail({"kind": "a log tail listener changed the outcome of the run", "case": case,
                             "variant": "listener killed and restarted mid-run", "exit": p.returncode, "logs_that_differ": bad})
            return
        rep.nontrivial_case({"seed": seed, "mode": "restart"})
    finally:
        repo.done()


def c15_case(seed, model, rep):
    rng = scen.Rng(seed)
    plan, expect = gen_plan(rng, realtime=rng.chance(1, 3))
    # make it fail sometimes: the outcome must be the same with and without listener
    if rng.chance(1, 4):
        k = rng.pick(sorted(plan.keys()))
        plan[k]["exit"] = 4
    case = {"seed": seed, "mode": "c15"}
    repo = make_repo(plan)
    try:
        base = run_once(repo)
        variants = []
        # listener with random filters, alive throughout
        flt = gen_filter(rng)
        tail = start_tail(repo, flt)
        variants.append(("listener " + json.dumps(flt), run_once(repo)))
        tail.kill()
        tail.wait()
        # listener killed at a random moment of the run (or just before it)
        flt2 = {"stdout": True, "stderr": True, "targets": [], "commands": []}
        tail = start_tail(repo, flt2)
        delay = rng.pick([0, 0.01, 0.03, 0.08, 0.2, 0.5])
        if delay == 0:
            tail.kill()
            tail.wait()
            variants.append(("listener killed before the run", run_once(repo)))
        else:
            import threading
            threading.Timer(delay, tail.kill).start()
            variants.append(("listener killed %.2fs into the run" % delay, run_once(repo)))
            tail.wait()
        # listener frozen (SIGSTOP) when the run connects: the kernel completes the connection, the
        # run waits for the listener's filter line; then the listener is killed inside that handshake
        tail = start_tail(repo, flt2)
        os.kill(tail.pid, signal.SIGSTOP)
        import threading
        threading.Timer(rng.pick([0.15, 0.3, 0.5]), tail.kill).start()
        variants.append(("listener frozen, then killed while the run waits for its filter line", run_once(repo)))
        tail.wait()
        rep.evaluations += 1
        rep.count("base_failed" if base[0] == 1 else "base_ok")
        for name, v in variants:
            # an `error` entry without code is the documented fate of siblings of a failed task and is timing dependent
            def norm(doc):
                return doc
            if v[0] != base[0] or (base[0] == 0 and (v[1] != base[1] or v[2] != base[2])) or (base[0] == 0 and v[2] != expect):
                rep.oracle_fail({"kind": "a log tail listener changed the outcome of the run", "case": case, "variant": name,
                                 "exit": [base[0], v[0]], "same_results": v[1] == base[1], "same_logs": v[2] == base[2],
                                 "stderr": v[3][-300:]})
                return
        rep.nontrivial_case({"seed": seed})
        rep.sample({"seed": seed, "variants": [n for n, _ in variants], "exit": base[0]})
    finally:
        repo.done()


def main():
    args = scen.parse_args(sys.argv)
    prop = args["prop"]
    t0 = time.time()
    # in-process part (paused tokio time, listener socket served by the harness)
    inproc = os.path.join(scen.VERIF, "evidence", ".%s.inproc.%d.json" % (prop, os.getpid()))
    cmd = [os.path.join(scen.HARNESS, "mrverif"), prop.lower(), "--seed", str(args["seed"]), "--tier", args["tier"],
           "--model", scen.MODEL, "--corpus", args["corpus"], "--out", inproc, "--budget", str(args["budget"])]
    p = subprocess.run(cmd, stdout=subprocess.PIPE, stderr=subprocess.STDOUT, text=True)
    if p.returncode != 0 or not os.path.exists(inproc):
        sys.stderr.write(p.stdout[-3000:])
        sys.exit(3)
    base = json.load(open(inproc))
    os.remove(inproc)
    rep = scen.Report()
    model = scen.Model()
    seeds = []
    for c in scen.load_corpus(args["corpus"], prop):
        cc = c.get("case", c)
        if isinstance(cc, dict) and cc.get("mode") == prop.lower() and "seed" in cc:
            seeds.append(cc["seed"])
    rng = scen.Rng(args["seed"] + 17)
    fn = {"C08": c08_case, "C15": c15_case, "C20": c20_case}[prop]
    n = {"C08": (40, 4), "C15": (60, 8), "C20": (150, 16)}[prop][0 if args["tier"] == "thorough" else 1] * args["budget"]
    seeds += [rng.next() for _ in range(n)]
    scen.run_cases(lambda s: fn(s, model, rep), seeds, rep, 8)
    thorough = args["tier"] == "thorough"
    extra = []
    special = {"c08isolation": c08_isolation_case, "c20frozen": c20_frozen_case, "c08repeat": c08_repeat_case, "c15stall": c15_stall_case, "c15restart": c15_restart_case, "c08volume": c08_volume_case, "c20cancel": c20_cancel_case, "c20stall": c20_stall_case, "c20longline": c20_longline_case}
    for c in scen.load_corpus(args["corpus"], prop):
        cc = c.get("case", c)
        if isinstance(cc, dict) and cc.get("mode") in special and "seed" in cc:
            extra.append((special[cc["mode"]], cc["seed"]))
    if args["budget"] == 0:
        scen.run_cases(lambda e: e[0](e[1], model, rep), extra, rep, 3)
    elif prop == "C08":
        extra += [(c08_volume_case, rng.next()) for _ in range((6 if thorough else 1) * max(1, args["budget"]))]
        extra += [(c08_repeat_case, rng.next()) for _ in range((8 if thorough else 2) * max(1, args["budget"]))]
        extra += [(c08_isolation_case, rng.next()) for _ in range((3 if thorough else 1) * max(1, args["budget"]))]
    elif prop == "C15":
        extra += [(c15_stall_case, rng.next()) for _ in range((4 if thorough else 1) * max(1, args["budget"]))]
        extra += [(c15_restart_case, rng.next()) for _ in range((6 if thorough else 2) * max(1, args["budget"]))]
    elif prop == "C20":
        extra += [(c20_cancel_case, rng.next()) for _ in range((20 if thorough else 3) * max(1, args["budget"]))]
        extra += [(c20_stall_case, rng.next()) for _ in range((5 if thorough else 1) * max(1, args["budget"]))]
        extra += [(c20_longline_case, rng.next()) for _ in range((6 if thorough else 1) * max(1, args["budget"]))]
        extra += [(c20_frozen_case, rng.next()) for _ in range((4 if thorough else 1) * max(1, args["budget"]))]
    if args["budget"] > 0:
        scen.run_cases(lambda e: e[0](e[1], model, rep), extra, rep, 3)
    j = rep.to_json()
    # merge with the in-process report
    merged = dict(base)
    merged["evaluations"] = base["evaluations"] + j["evaluations"]
    merged["distinct_nontrivial"] = base["distinct_nontrivial"] + j["distinct_nontrivial"]
    merged["hist"] = dict(base["hist"])
    for k, v in j["hist"].items():
        merged["hist"]["cli_" + k] = v
    merged["samples"] = base["samples"][:3] + j["samples"][:3]
    merged["oracle_failures"] = base["oracle_failures"] + j["oracle_failures"]
    merged["disagreements"] = base["disagreements"] + j["disagreements"]
    merged["notes"] = base.get("notes", []) + ["in-process cases: %d, CLI scenarios: %d" % (base["evaluations"], j["evaluations"])]
    merged["wall_s"] = time.time() - t0
    model.close()
    scen.cleanup_scratch()
    s = json.dumps(merged, indent=1)
    if args["out"]:
        open(args["out"], "w").write(s)
    else:
        print(s)


if __name__ == "__main__":
    main()
