import Monorail.Model.Select
import Monorail.Proofs.ExecInv
import Mathlib.Data.List.Nodup
/-!
# The plan laid out from target groups: positions and distinct ids
-/
namespace Monorail

theorem cmdGroups_length (n : Nat) (disp : Nat → Nat → Disp) (c : Nat) (groups : List (List Nat)) :
    (cmdGroups n disp c groups).length = groups.length := by
  simp [cmdGroups]

theorem planOf_succ (n ncmd : Nat) (disp : Nat → Nat → Disp) (groups : List (List Nat)) :
    planOf n (ncmd + 1) disp groups = planOf n ncmd disp groups ++ cmdGroups n disp ncmd groups := by
  simp [planOf, List.range_succ, List.flatMap_append]

theorem planOf_length (n : Nat) (disp : Nat → Nat → Disp) (groups : List (List Nat)) :
    ∀ ncmd, (planOf n ncmd disp groups).length = ncmd * groups.length := by
  intro ncmd
  induction ncmd with
  | zero => simp [planOf]
  | succ k ih => rw [planOf_succ, List.length_append, ih, cmdGroups_length, Nat.succ_mul]

/-- group `k` of command `c` sits at plan position `c * (number of groups) + k` -/
theorem planOf_get (n : Nat) (disp : Nat → Nat → Disp) (groups : List (List Nat)) :
    ∀ ncmd c k, c < ncmd → k < groups.length →
      (planOf n ncmd disp groups)[c * groups.length + k]? = (cmdGroups n disp c groups)[k]? := by
  intro ncmd
  induction ncmd with
  | zero => intro c k hc; exact absurd hc (Nat.not_lt_zero c)
  | succ m ih =>
    intro c k hc hk
    rw [planOf_succ]
    by_cases hcm : c < m
    · have hlt : c * groups.length + k < (planOf n m disp groups).length := by
        rw [planOf_length]
        calc c * groups.length + k < c * groups.length + groups.length := by omega
          _ = (c + 1) * groups.length := by rw [Nat.succ_mul]
          _ ≤ m * groups.length := Nat.mul_le_mul_right _ (by omega)
      rw [List.getElem?_append_left hlt]
      exact ih c k hcm hk
    · have hceq : c = m := by omega
      subst hceq
      have hge : (planOf n c disp groups).length ≤ c * groups.length + k := by
        rw [planOf_length]; omega
      rw [List.getElem?_append_right hge, planOf_length]
      congr 1
      omega

theorem taskId_inj {n c c' t t' : Nat} (ht : t < n) (ht' : t' < n) (h : taskId n c t = taskId n c' t') :
    c = c' ∧ t = t' := by
  unfold taskId at h
  have h1 : (c * n + t) / n = (c' * n + t') / n := by rw [h]
  have hn : 0 < n := by omega
  rw [Nat.mul_comm c n, Nat.mul_comm c' n, Nat.mul_add_div hn, Nat.mul_add_div hn,
    Nat.div_eq_of_lt ht, Nat.div_eq_of_lt ht'] at h1
  have hc : c = c' := by omega
  subst hc
  exact ⟨rfl, by omega⟩

theorem cmdGroups_ids (n : Nat) (disp : Nat → Nat → Disp) (c : Nat) (groups : List (List Nat)) :
    (cmdGroups n disp c groups).flatMap gIds = groups.flatten.map (taskId n c) := by
  induction groups with
  | nil => simp [cmdGroups]
  | cons a t iht =>
    have : cmdGroups n disp c (a :: t) =
        a.map (fun t => (⟨taskId n c t, disp c t⟩ : Task)) :: cmdGroups n disp c t := by
      simp [cmdGroups]
    rw [this, List.flatMap_cons, iht, List.flatten_cons, List.map_append]
    congr 1
    simp [gIds, List.map_map, Function.comp_def]

theorem planIds_planOf (n : Nat) (disp : Nat → Nat → Disp) (groups : List (List Nat)) (ncmd : Nat) :
    planIds (planOf n ncmd disp groups) =
      (List.range ncmd).flatMap (fun c => groups.flatten.map (taskId n c)) := by
  induction ncmd with
  | zero => simp [planOf, planIds]
  | succ k ih =>
    rw [planOf_succ, List.range_succ, List.flatMap_append]
    simp only [planIds, List.flatMap_append] at ih ⊢
    rw [ih, cmdGroups_ids]
    simp

/-- distinct (command, target) pairs get distinct task ids -/
theorem planIds_nodup (n : Nat) (disp : Nat → Nat → Disp) (groups : List (List Nat))
    (hnd : groups.flatten.Nodup) (hlt : ∀ t ∈ groups.flatten, t < n) :
    ∀ ncmd, (planIds (planOf n ncmd disp groups)).Nodup := by
  intro ncmd
  rw [planIds_planOf]
  induction ncmd with
  | zero => simp
  | succ k ih =>
    rw [List.range_succ, List.flatMap_append, List.nodup_append]
    refine ⟨ih, ?_, ?_⟩
    · simp only [List.flatMap_cons, List.flatMap_nil, List.append_nil]
      exact List.Nodup.map_on (fun a ha b hb hab => (taskId_inj (hlt a ha) (hlt b hb) hab).2) hnd
    · intro x hx y hy hxy
      subst hxy
      simp only [List.mem_flatMap, List.mem_range, List.mem_map, List.flatMap_cons, List.flatMap_nil,
        List.append_nil] at hx hy
      obtain ⟨c, hc, a, ha, rfl⟩ := hx
      obtain ⟨b, hb, hab⟩ := hy
      have := (taskId_inj (hlt b hb) (hlt a ha) hab).1
      omega

theorem planOf_group (n : Nat) (disp : Nat → Nat → Disp) (groups : List (List Nat)) {ncmd c k : Nat}
    {G : List Nat} (hc : c < ncmd) (hk : groups[k]? = some G) :
    (planOf n ncmd disp groups)[c * groups.length + k]? =
      some (G.map (fun t => (⟨taskId n c t, disp c t⟩ : Task))) := by
  have hklt : k < groups.length := (List.getElem?_eq_some_iff.mp hk).1
  rw [planOf_get n disp groups ncmd c k hc hklt]
  simp [cmdGroups, hk]

end Monorail
