#!/usr/bin/env python3
"""Every seeded change x several seeds through the quick check of its property; writes
seeded/ROBUSTNESS.json {id: {seed: detected}}.  usage: seeded_sweep.py seed [seed ...]"""
import json
import os
import subprocess
import sys

V = os.path.join(os.path.dirname(os.path.abspath(__file__)), "..")
seeds = [int(x) for x in sys.argv[1:]] or [1, 2]
outp = os.path.join(V, "seeded", "ROBUSTNESS.json")
res = json.load(open(outp)) if os.path.exists(outp) else {}
for d in sorted(os.listdir(os.path.join(V, "seeded"))):
    mp = os.path.join(V, "seeded", d, "meta.json")
    if not os.path.exists(mp):
        continue
    meta = json.load(open(mp))
    if meta.get("obsolete"):
        continue
    prop = meta["property"]
    patch = os.path.join(V, "seeded", d, "patch.diff")
    subprocess.run(["git", "-C", "/repo", "checkout", "--", "."], check=True)
    if subprocess.run(["git", "-C", "/repo", "apply", patch]).returncode != 0:
        res[d] = {"applied": False}
        continue
    try:
        for s in seeds:
            p = subprocess.run([os.path.join(V, "check"), prop, "--tier", "quick", "--seed", str(s)], cwd=V, stdout=subprocess.PIPE,
                               stderr=subprocess.STDOUT, text=True, env=dict(os.environ, MRVERIF_EVIDENCE_DIR="/var/tmp/mrverif-seeded-evidence"))
            lines = [l for l in p.stdout.split("\n") if l.startswith("VIOLATION")]
            res.setdefault(d, {})[str(s)] = {"detected": p.returncode == 1 and bool(lines),
                                             "with_failing_input": bool(lines) and "no-failing-input-found" not in lines[-1]}
            print(d, s, res[d][str(s)], flush=True)
    finally:
        subprocess.run(["git", "-C", "/repo", "apply", "-R", patch], stderr=subprocess.DEVNULL)
        subprocess.run(["git", "-C", "/repo", "checkout", "--", "."], check=True)
    json.dump(res, open(outp, "w"), indent=1)
subprocess.run(["cargo", "build", "--offline"], cwd=os.path.join(V, "harness"), stdout=subprocess.DEVNULL, stderr=subprocess.DEVNULL)
