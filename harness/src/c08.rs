//! C08 / C15 / C20 in-process: the real `process_reader` + `Compressor` (wired as `process_plan`
//! wires a target group) fed by scripted readers under paused tokio time, optionally with a log
//! stream listener (a TCP socket served by this harness) that may be closed after a number of
//! bytes. Stored files are decoded independently (zstd crate) and compared with the raw script
//! (oracle) and with the Lean reader machine fed with the derived event list; listener blocks are
//! compared with the machine's blocks (flush grouping) and reassembled per key.
use crate::ctx::Ctx;
use serde_json::{json, Value};
use std::time::Duration;
use tokio::io::{AsyncReadExt, AsyncWriteExt};

#[derive(Clone, Debug)]
pub struct Script {
    /// (delay before this chunk in ms, bytes); an empty chunk is just a pause before end of stream
    pub chunks: Vec<(u64, Vec<u8>)>,
}

#[derive(Clone, Debug)]
pub struct Case {
    pub scripts: Vec<Script>, // reader 2i = stdout of task i, 2i+1 = stderr of task i
    pub listener: Option<Listener>,
}
#[derive(Clone, Debug)]
pub struct Listener {
    pub include_stdout: bool,
    pub include_stderr: bool,
    /// close the connection after reading this many bytes (None = read to the end)
    pub close_after: Option<usize>,
}

fn hex(b: &[u8]) -> String {
    b.iter().map(|x| format!("{:02x}", x)).collect()
}
fn unhex(s: &str) -> Vec<u8> {
    (0..s.len() / 2).map(|i| u8::from_str_radix(&s[2 * i..2 * i + 2], 16).unwrap()).collect()
}

impl Case {
    pub fn to_json(&self) -> Value {
        json!({
            "scripts": self.scripts.iter().map(|s| s.chunks.iter().map(|(d, b)| json!([d, hex(b)])).collect::<Vec<_>>()).collect::<Vec<_>>(),
            "listener": self.listener.as_ref().map(|l| json!({"stdout": l.include_stdout, "stderr": l.include_stderr, "close_after": l.close_after})),
        })
    }
    pub fn from_json(v: &Value) -> Case {
        Case {
            scripts: v["scripts"].as_array().unwrap().iter().map(|s| Script {
                chunks: s.as_array().unwrap().iter().map(|c| (c[0].as_u64().unwrap(), unhex(c[1].as_str().unwrap()))).collect(),
            }).collect(),
            listener: v.get("listener").and_then(|l| if l.is_null() { None } else {
                Some(Listener { include_stdout: l["stdout"].as_bool().unwrap(), include_stderr: l["stderr"].as_bool().unwrap(),
                    close_after: l["close_after"].as_u64().map(|x| x as usize) })
            }),
        }
    }
}

/// event list of one reader: ticks every `flush_ms` from 0, chunks at their cumulative times
fn events(s: &Script, flush_ms: u64) -> Vec<Value> {
    let mut evs: Vec<(u64, u8, Value)> = vec![];
    let mut t = 0u64;
    for (d, b) in &s.chunks {
        t += d;
        if !b.is_empty() {
            evs.push((t, 1, json!(["chunk", hex(b)])));
        }
    }
    let end = t;
    let mut k = 0;
    while k * flush_ms < end || k == 0 {
        evs.push((k * flush_ms, 0, json!(["tick"])));
        k += 1;
    }
    evs.sort_by_key(|e| (e.0, e.1));
    let mut out: Vec<Value> = evs.into_iter().map(|e| e.2).collect();
    out.push(json!(["eof"]));
    out
}

/// The scripted writer starts its timeline when the reader is first polled, i.e. at the instant
/// `process_reader` creates its flush interval: chunk times and tick times share one origin.
struct Gate {
    inner: tokio::io::DuplexStream,
    start: Option<tokio::sync::oneshot::Sender<()>>,
}
impl tokio::io::AsyncRead for Gate {
    fn poll_read(mut self: std::pin::Pin<&mut Self>, cx: &mut std::task::Context<'_>, buf: &mut tokio::io::ReadBuf<'_>) -> std::task::Poll<std::io::Result<()>> {
        if let Some(tx) = self.start.take() {
            let _ = tx.send(());
        }
        std::pin::Pin::new(&mut self.inner).poll_read(cx, buf)
    }
}

pub struct Observed {
    pub files: Vec<Vec<u8>>,
    pub results: Vec<Result<(), String>>,
    pub listener_bytes: Option<Vec<u8>>,
}

fn zstd_decode(p: &std::path::Path) -> Result<Vec<u8>, String> {
    let f = std::fs::File::open(p).map_err(|e| e.to_string())?;
    zstd::stream::decode_all(f).map_err(|e| e.to_string())
}

pub fn run_impl(case: &Case, dir: &std::path::Path) -> Result<Observed, String> {
    let rt = tokio::runtime::Builder::new_current_thread().enable_all().start_paused(true).build().map_err(|e| e.to_string())?;
    rt.block_on(async {
        // listener
        let mut addr = None;
        let mut lhandle = None;
        if let Some(l) = &case.listener {
            let sock = tokio::net::TcpListener::bind("127.0.0.1:0").await.map_err(|e| e.to_string())?;
            let port = sock.local_addr().unwrap().port();
            addr = Some(("127.0.0.1".to_string(), port as usize));
            let args = json!({"commands": [], "targets": [], "include_stdout": l.include_stdout, "include_stderr": l.include_stderr});
            let close_after = l.close_after;
            lhandle = Some(tokio::spawn(async move {
                let (mut s, _) = sock.accept().await.unwrap();
                let mut line = serde_json::to_vec(&args).unwrap();
                line.push(b'\n');
                s.write_all(&line).await.unwrap();
                let mut got = vec![];
                let mut buf = [0u8; 4096];
                loop {
                    match s.read(&mut buf).await {
                        Ok(0) | Err(_) => break,
                        Ok(n) => {
                            got.extend_from_slice(&buf[..n]);
                            if let Some(c) = close_after {
                                if got.len() >= c {
                                    break; // drop the socket: the client's next writes fail
                                }
                            }
                        }
                    }
                }
                got
            }));
        }
        let mut readers = vec![];
        for (i, s) in case.scripts.iter().enumerate() {
            let (mut w, r) = tokio::io::duplex(1 << 16);
            let (tx, rx) = tokio::sync::oneshot::channel::<()>();
            let r = Gate { inner: r, start: Some(tx) };
            let chunks = s.chunks.clone();
            tokio::spawn(async move {
                let _ = rx.await;
                for (d, b) in chunks {
                    if d > 0 {
                        tokio::time::sleep(Duration::from_millis(d)).await;
                    }
                    if !b.is_empty() && w.write_all(&b).await.is_err() {
                        return;
                    }
                }
                drop(w);
            });
            let name = if i % 2 == 0 { "stdout.zst" } else { "stderr.zst" };
            let sub = dir.join(format!("t{}", i / 2));
            std::fs::create_dir_all(&sub).map_err(|e| e.to_string())?;
            readers.push(monorail::verif::CaptureReader {
                path: sub.join(name),
                header: format!("[{}]\n", i),
                reader: Box::new(r),
            });
        }
        let results = monorail::verif::capture(readers, 2, addr, "t", "c").await?;
        let mut files = vec![];
        for i in 0..case.scripts.len() {
            let name = if i % 2 == 0 { "stdout.zst" } else { "stderr.zst" };
            files.push(zstd_decode(&dir.join(format!("t{}", i / 2)).join(name))?);
        }
        let listener_bytes = match lhandle {
            Some(h) => Some(tokio::time::timeout(Duration::from_secs(3600), h).await.map_err(|e| e.to_string())?.map_err(|e| e.to_string())?),
            None => None,
        };
        Ok(Observed { files, results, listener_bytes })
    })
}

/// split listener bytes into (reader index, body) blocks; headers are "[<i>]\n" lines
fn parse_blocks(bytes: &[u8], nreaders: usize) -> Option<Vec<(usize, Vec<u8>)>> {
    // first line is the stream header written by connect(): "[monorail | ... ]\n"
    let mut pos = bytes.iter().position(|b| *b == b'\n').map(|p| p + 1)?;
    let mut blocks: Vec<(usize, Vec<u8>)> = vec![];
    let is_header = |l: &[u8]| -> Option<usize> {
        if l.len() >= 3 && l[0] == b'[' && l[l.len() - 1] == b'\n' && l[l.len() - 2] == b']' {
            std::str::from_utf8(&l[1..l.len() - 2]).ok()?.parse::<usize>().ok().filter(|i| *i < nreaders)
        } else {
            None
        }
    };
    while pos < bytes.len() {
        let end = bytes[pos..].iter().position(|b| *b == b'\n').map(|p| pos + p + 1).unwrap_or(bytes.len());
        let line = &bytes[pos..end];
        if let Some(i) = is_header(line) {
            blocks.push((i, vec![]));
        } else {
            blocks.last_mut()?.1.extend_from_slice(line);
        }
        pos = end;
    }
    Some(blocks)
}

fn judge(ctx: &mut Ctx, case: &Case, origin: &str) {
    ctx.report.evaluations += 1;
    let dir = ctx.scratch.case_dir();
    let obs = run_impl(case, &dir);
    ctx.scratch.done(&dir);
    let prop = ctx.prop.clone();
    ctx.report.count(&format!("origin_{}", origin));
    ctx.report.count(&format!("readers_{}", match case.scripts.len() { 0..=2 => "1_2", 3..=10 => "3_10", _ => "gt10" }));
    ctx.report.count(match &case.listener { None => "no_listener", Some(l) if l.close_after.is_some() => "listener_dies", _ => "listener" });
    let obs = match obs {
        Ok(o) => o,
        Err(e) => {
            ctx.report.oracle_failures.push(json!({"kind": "capture failed", "error": e, "case": case.to_json()}));
            ctx.report.count("oracle_failures");
            return;
        }
    };
    let mut straddle = false;
    let mut nontrivial = false;
    let mut model_resp: Vec<Option<Value>> = vec![None; case.scripts.len()];
    for (i, s) in case.scripts.iter().enumerate() {
        let raw: Vec<u8> = s.chunks.iter().flat_map(|c| c.1.clone()).collect();
        let evs = events(s, 500);
        // does a tick fall inside a line?
        let mut partial = false;
        for e in &evs {
            match e[0].as_str().unwrap() {
                "chunk" => { let b = unhex(e[1].as_str().unwrap()); partial = b.last() != Some(&b'\n'); }
                "tick" => { if partial { straddle = true; } }
                _ => {}
            }
        }
        if !raw.is_empty() { nontrivial = true; }
        // oracle (C08 / C15): stored bytes are exactly what was written, whatever the listener did
        if obs.files[i] != raw || obs.results[i].is_err() {
            if prop == "c08" || (prop == "c15" && case.listener.is_some()) {
                ctx.report.count("oracle_failures");
                if ctx.report.oracle_failures.len() < 5 {
                    ctx.report.oracle_failures.push(json!({"kind": "stored log differs from the bytes written", "reader": i,
                        "written": hex(&raw), "stored": hex(&obs.files[i]), "result": format!("{:?}", obs.results[i]), "case": case.to_json()}));
                }
            }
            continue;
        }
        // model
        let selected = case.listener.as_ref().map(|l| if i % 2 == 0 { l.include_stdout } else { l.include_stderr }).unwrap_or(false);
        let resp = ctx.model.ask(&json!({"op": "reader", "events": evs, "client": selected}));
        model_resp[i] = Some(resp.clone());
        if unhex(resp["bytes"].as_str().unwrap()) != obs.files[i] || resp["done"] != true {
            ctx.report.count("disagreements");
            if ctx.report.disagreements.len() < 5 {
                ctx.report.disagreements.push(json!({"kind": "model reader and implementation store different bytes", "reader": i, "case": case.to_json()}));
            }
        }
    }
    if straddle { ctx.report.count("tick_inside_line"); }
    // listener side (C20): blocks = the model's flush grouping; per key reassembly = stored log
    if let (Some(l), Some(bytes)) = (&case.listener, &obs.listener_bytes) {
        if l.close_after.is_none() {
            match parse_blocks(bytes, case.scripts.len()) {
                None => {
                    if prop == "c20" {
                        ctx.report.count("oracle_failures");
                        ctx.report.oracle_failures.push(json!({"kind": "listener output is not header-introduced blocks", "case": case.to_json(), "listener": hex(bytes)}));
                    }
                }
                Some(blocks) => {
                    // headers can only be recognised at line starts: every selected stream must be
                    // newline-terminated text (the property's own restriction) for the parse to be valid
                    let parse_valid = (0..case.scripts.len()).all(|i| {
                        let sel = if i % 2 == 0 { l.include_stdout } else { l.include_stderr };
                        !sel || obs.files[i].is_empty() || obs.files[i].last() == Some(&b'\n')
                    });
                    if !parse_valid {
                        ctx.report.count("listener_parse_skipped_unterminated_stream");
                    }
                    for (i, s) in case.scripts.iter().enumerate() {
                        if !parse_valid { break; }
                        let selected = if i % 2 == 0 { l.include_stdout } else { l.include_stderr };
                        let mine: Vec<&Vec<u8>> = blocks.iter().filter(|b| b.0 == i).map(|b| &b.1).collect();
                        let joined: Vec<u8> = mine.iter().flat_map(|b| b.iter().cloned()).collect();
                        let text_ok = obs.files[i].is_empty() || obs.files[i].last() == Some(&b'\n');
                        let headerlike = obs.files[i].split(|b| *b == b'\n').any(|ln| ln.first() == Some(&b'['));
                        if !selected {
                            if !mine.is_empty() && prop == "c20" {
                                ctx.report.count("oracle_failures");
                                ctx.report.oracle_failures.push(json!({"kind": "blocks for a stream the listener did not select", "reader": i, "case": case.to_json()}));
                            }
                            continue;
                        }
                        if text_ok && !headerlike && joined != obs.files[i] && prop == "c20" {
                            ctx.report.count("oracle_failures");
                            if ctx.report.oracle_failures.len() < 5 {
                                ctx.report.oracle_failures.push(json!({"kind": "blocks of a key do not reassemble to its stored log", "reader": i,
                                    "stored": hex(&obs.files[i]), "reassembled": hex(&joined), "case": case.to_json()}));
                            }
                        }
                        // flush grouping vs the machine
                        if text_ok && !headerlike {
                            let resp = match &model_resp[i] { Some(r) => r.clone(), None => ctx.model.ask(&json!({"op": "reader", "events": events(s, 500), "client": true})) };
                            let mblocks: Vec<Vec<u8>> = resp["blocks"].as_array().unwrap().iter()
                                .map(|b| b.as_array().unwrap().iter().flat_map(|l| unhex(l.as_str().unwrap())).collect()).collect();
                            let oblocks: Vec<Vec<u8>> = mine.iter().map(|b| (*b).clone()).collect();
                            if mblocks != oblocks {
                                ctx.report.count("disagreements");
                                if ctx.report.disagreements.len() < 5 {
                                    ctx.report.disagreements.push(json!({"kind": "listener blocks differ from the model's flush grouping", "reader": i,
                                        "model": mblocks.iter().map(|b| hex(b)).collect::<Vec<_>>(), "observed": oblocks.iter().map(|b| hex(b)).collect::<Vec<_>>(), "case": case.to_json()}));
                                }
                            }
                        }
                    }
                }
            }
        }
    }
    let relevant = match prop.as_str() { "c08" => true, "c15" => case.listener.is_some(), _ => case.listener.as_ref().map(|l| l.close_after.is_none()).unwrap_or(false) };
    if nontrivial && relevant {
        ctx.report.nontrivial_case(&case.to_json());
        if case.scripts.len() <= 2 {
            ctx.report.sample(case.to_json());
        }
    }
}

fn gen_bytes(r: &mut crate::rng::Rng, text: bool, big: bool) -> Vec<u8> {
    let n = match r.below(400) { 0..=39 => 0, 40..=239 => r.range(1, 12), 240..=359 => r.range(13, 200), 360..=394 => r.range(1000, 70_000), 395..=397 => if big { r.range(150_000, 400_000) } else { r.range(1000, 70_000) }, _ => if big { r.range(400_000, 1_500_000) } else { r.range(130_000, 200_000) } };
    let mut v = Vec::with_capacity(n);
    for _ in 0..n {
        if text {
            v.push(if r.chance(1, 9) { b'\n' } else { b'a' + (r.below(26) as u8) });
        } else {
            v.push(r.below(256) as u8);
        }
    }
    v
}

fn gen_script(r: &mut crate::rng::Rng, text: bool, newline_terminated: bool, big: bool) -> Script {
    let n = r.range(0, 8);
    let mut chunks = vec![];
    for _ in 0..n {
        let d = match r.below(6) { 0 => 0, 1 | 2 => r.range(1, 60) as u64, 3 => r.range(300, 499) as u64, 4 => r.range(501, 900) as u64, _ => r.range(1, 1400) as u64 };
        let mut b = if r.chance(1, 6) { vec![b'x'] } else { gen_bytes(r, text, big) };
        if text {
            // keep '[' away from line starts so that listener output parses unambiguously
            for x in b.iter_mut() { if *x == b'[' { *x = b'('; } }
        }
        chunks.push((d, b));
    }
    if newline_terminated {
        if let Some(last) = chunks.iter_mut().rev().find(|c| !c.1.is_empty()) {
            if last.1.last() != Some(&b'\n') { last.1.push(b'\n'); }
        }
    }
    if r.chance(1, 3) {
        chunks.push((r.range(100, 1300) as u64, vec![])); // the process lingers before closing the stream
    }
    // chunk times must not coincide with a flush tick (the order would be undetermined)
    let mut t = 0u64;
    for c in chunks.iter_mut() {
        t += c.0;
        if t % 500 == 0 { c.0 += 1; t += 1; }
    }
    Script { chunks }
}

pub fn gen_case(r: &mut crate::rng::Rng, prop: &str, big: bool) -> Case {
    let tasks = match r.below(10) { 0..=5 => 1, 6..=8 => r.range(2, 5), _ => r.range(6, 20) };
    let with_listener = match prop { "c08" => r.chance(1, 4), _ => true };
    let text = with_listener || r.chance(1, 2);
    let listener = if with_listener {
        let (o, e) = match r.below(4) { 0 => (true, false), 1 => (false, true), _ => (true, true) };
        let dies = prop == "c15" && r.chance(2, 3) || prop == "c08" && r.chance(1, 3);
        Some(Listener { include_stdout: o, include_stderr: e, close_after: if dies { Some(r.range(1, 3000)) } else { None } })
    } else {
        None
    };
    let nl = prop == "c20" || r.chance(1, 2);
    Case { scripts: (0..2 * tasks).map(|_| gen_script(r, text, nl, big)).collect(), listener }
}

pub fn run(ctx: &mut Ctx) {
    for c in crate::corpus::load(&ctx.corpus_dir, &ctx.prop.to_uppercase()) {
        let c = if c.get("case").is_some() { c["case"].clone() } else { c };
        if c.get("scripts").is_some() {
            judge(ctx, &Case::from_json(&c), "corpus");
        }
    }
    if ctx.budget == 0 {
        return;
    }
    // hand-written edge cases
    let edge = vec![
        vec![(10u64, b"AAA".to_vec()), (700, b"BBB\n".to_vec())],                 // pause inside a line across a tick
        vec![(10, b"no newline at end".to_vec()), (1300, vec![])],                 // unterminated, lingering
        vec![(1, b"a".to_vec()), (1, b"b".to_vec()), (1, b"\n".to_vec()), (498, b"c".to_vec()), (3, b"d\n".to_vec())],
        vec![(5, vec![0u8, 255, 10, 13, 10, 0]), (600, vec![1, 2, 3])],            // binary, CR LF
        vec![],
    ];
    for e in edge {
        let case = Case { scripts: vec![Script { chunks: e.clone() }, Script { chunks: vec![] }], listener: None };
        judge(ctx, &case, "edge");
        let case = Case { scripts: vec![Script { chunks: e }, Script { chunks: vec![(3, b"err\n".to_vec())] }],
            listener: Some(Listener { include_stdout: true, include_stderr: true, close_after: None }) };
        judge(ctx, &case, "edge");
    }
    let n = if ctx.thorough { 6000 } else { 400 } * ctx.budget;
    let prop = ctx.prop.clone();
    for _ in 0..n {
        let mut r = ctx.rng.fork();
        let case = gen_case(&mut r, &prop, ctx.thorough);
        judge(ctx, &case, "random");
    }
}

#[allow(dead_code)]
pub fn debug_case(path: &str) {
    let v: Value = serde_json::from_str(&std::fs::read_to_string(path).unwrap()).unwrap();
    let case = Case::from_json(&v[0]);
    let dir = std::path::PathBuf::from("/var/tmp/c08dbg");
    let _ = std::fs::remove_dir_all(&dir);
    std::fs::create_dir_all(&dir).unwrap();
    let obs = run_impl(&case, &dir).unwrap();
    let bytes = obs.listener_bytes.unwrap();
    println!("listener bytes {}", bytes.len());
    let blocks = parse_blocks(&bytes, case.scripts.len()).unwrap();
    for b in &blocks {
        println!("block reader {} len {} head {:?}", b.0, b.1.len(), String::from_utf8_lossy(&b.1[..b.1.len().min(20)]));
    }
    for (i, r) in obs.results.iter().enumerate() {
        println!("reader {} result {:?} stored {}", i, r, obs.files[i].len());
    }
}
