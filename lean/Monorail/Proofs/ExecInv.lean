import Monorail.Proofs.Exec
import Monorail.Proofs.Trace
/-! The invariant of the executor machine, established by `startExec` and preserved by `stepExec`. -/
namespace Monorail

def spawnIds (tr : List Ev) : List Nat :=
  tr.filterMap (fun e => match e with | .spawn _ i => some i | .done _ _ => none)

def isSpawnStatus : Status → Bool
  | .success => true
  | .error _ => true
  | _ => false

theorem spawnIds_append (a b : List Ev) : spawnIds (a ++ b) = spawnIds a ++ spawnIds b := by
  simp [spawnIds, List.filterMap_append]

theorem spawnIds_block (g : Nat) (ids : List Nat) : spawnIds (ids.map (Ev.spawn g)) = ids := by
  induction ids with
  | nil => rfl
  | cons a as ih => simp [spawnIds] at ih ⊢

theorem spawnIds_done (i : Nat) (oc : Outcome) : spawnIds [Ev.done i oc] = [] := rfl

theorem isSpawnStatus_statusOf (oc : Outcome) : isSpawnStatus (statusOf oc) = true := by
  cases oc with
  | code k => simp only [statusOf]; split <;> rfl
  | aborted => rfl

theorem isFailure_statusOf (fou : Bool) (oc : Outcome) : isFailure fou (statusOf oc) = oc.fails := by
  cases oc with
  | code k =>
    simp only [statusOf, Outcome.fails]
    split
    · rename_i h; simp [isFailure, h]
    · rename_i h; simp [isFailure, h]
  | aborted => rfl

theorem entryOk_not_spawnStatus {t : Task} {st : Status} (h : EntryOk t st) : isSpawnStatus st = false := by
  rcases h with rfl | ⟨rfl, _⟩ | ⟨rfl, _⟩ <;> rfl

theorem drop_cons_inv {α : Type} {l : List α} {n : Nat} {x : α} {xs : List α} (h : l.drop n = x :: xs) :
    l[n]? = some x ∧ l.drop (n + 1) = xs := by
  induction l generalizing n with
  | nil => simp at h
  | cons a as ih =>
    cases n with
    | zero => simp at h; simp [h.1, h.2]
    | succ n => simp at h; simpa using ih h

/-- `advance` keeps track of the position in the plan -/
theorem advance_pos (fou : Bool) (plan : List Group) : ∀ (rest : List Group) (gi : Nat) (f : Bool),
    plan.drop gi = rest →
    (advance fou rest gi f).rest = plan.drop ((advance fou rest gi f).gidx + 1) ∧
    ∀ i ∈ (advance fou rest gi f).spawns, ∃ grp, plan[(advance fou rest gi f).gidx]? = some grp ∧
      ∃ t ∈ grp, t.id = i ∧ t.disp = .run := by
  intro rest
  induction rest with
  | nil =>
    intro gi f h
    simp only [advance]
    refine ⟨?_, by simp⟩
    have : plan.length ≤ gi := List.drop_eq_nil_iff.mp h
    exact (List.drop_eq_nil_iff.mpr (by omega)).symm
  | cons g rest ih =>
    intro gi f h
    obtain ⟨hget, hdrop⟩ := drop_cons_inv h
    simp only [advance]
    split
    · exact ih (gi + 1) _ hdrop
    · refine ⟨hdrop.symm, ?_⟩
      intro i hi
      obtain ⟨t, ht, hh⟩ := (schedGroup_facts fou f g).1 i hi
      exact ⟨g, hget, t, ht, hh⟩

/-- everything but "an empty running set means the plan is exhausted" -/
structure ExecInvW (fou : Bool) (plan : List Group) (s : ExecSt) : Prop where
  perm : (rIds s.results ++ s.running ++ planIds s.rest).Perm (planIds plan)
  fail : s.failed = true ↔ ∃ e ∈ s.results, isFailure fou e.2 = true
  live : ∀ g b, Ev.spawn g b ∈ s.trace → b ∈ s.running ∨ ∃ oc, Ev.done b oc ∈ s.trace
  mono : ∀ g b, Ev.spawn g b ∈ s.trace → g ≤ s.gidx
  barrier : Barrier s.trace
  contig : Contig s.trace
  truth : ∀ e ∈ s.results,
    (e.2 = .success → Ev.done e.1 (.code 0) ∈ s.trace) ∧
    (∀ k, e.2 = .error (some k) → k ≠ 0 ∧ Ev.done e.1 (.code k) ∈ s.trace) ∧
    (e.2 = .error none → Ev.done e.1 .aborted ∈ s.trace)
  spawned : (spawnIds s.trace).Perm (s.running ++ rIds (s.results.filter (fun e => isSpawnStatus e.2)))
  disp : ∀ g i, Ev.spawn g i ∈ s.trace → ∃ grp ∈ plan, ∃ t ∈ grp, t.id = i ∧ t.disp = .run
  entry : ∀ e ∈ s.results, isSpawnStatus e.2 = false → ∃ grp ∈ plan, ∃ t ∈ grp, t.id = e.1 ∧ EntryOk t e.2
  sub : ∀ g ∈ s.rest, g ∈ plan
  pos : s.rest = plan.drop (s.gidx + 1)
  whereSpawn : ∀ g i, Ev.spawn g i ∈ s.trace → ∃ grp, plan[g]? = some grp ∧ ∃ t ∈ grp, t.id = i ∧ t.disp = .run
  ordered : Ordered s.trace
  skip : ∀ e ∈ s.results, e.2 = .skipped → s.failed = true

structure ExecInv (fou : Bool) (plan : List Group) (s : ExecSt) : Prop extends ExecInvW fou plan s where
  stop : s.running = [] → s.rest = []

theorem filter_entries_nil {rs : List (Nat × Status)}
    (h : ∀ e ∈ rs, isSpawnStatus e.2 = false) : rs.filter (fun e => isSpawnStatus e.2) = [] := by
  apply List.filter_eq_nil_iff.mpr
  intro e he
  simp [h e he]

theorem advance_rest_sub (fou : Bool) : ∀ (rest : List Group) (gi : Nat) (f : Bool),
    ∀ g ∈ (advance fou rest gi f).rest, g ∈ rest := by
  intro rest
  induction rest with
  | nil => intro gi f g hg; simp [advance] at hg
  | cons g0 rest ih =>
    intro gi f g hg
    simp only [advance] at hg
    split at hg
    · exact List.mem_cons_of_mem _ (ih _ _ g hg)
    · exact List.mem_cons_of_mem _ hg

theorem startExec_inv (fou : Bool) (plan : List Group) : ExecInv fou plan (startExec fou plan) := by
  obtain ⟨a1, a2, a3, a4, a5, a6⟩ := advance_facts fou plan 0 false
  have hent : ∀ e ∈ (advance fou plan 0 false).results, isSpawnStatus e.2 = false := by
    intro e he
    obtain ⟨g, _, t, _, _, hok⟩ := a2 e he
    exact entryOk_not_spawnStatus hok
  refine
    { perm := ?_, fail := ?_, live := ?_, mono := ?_, barrier := ?_, contig := ?_, truth := ?_,
      spawned := ?_, stop := a5, disp := ?_, entry := ?_, sub := advance_rest_sub fou plan 0 false,
      pos := (advance_pos fou plan plan 0 false (by simp)).1, whereSpawn := ?_,
      ordered := by
        have := ordered_append_spawns ordered_nil (advance fou plan 0 false).gidx
          (by intro g b h; simp at h) (advance fou plan 0 false).spawns
        simpa [startExec] using this,
      skip := fun e he hs => advance_skipped fou plan 0 false e he hs }
  rotate_right
  · intro g i hi
    simp only [startExec, List.mem_map] at hi
    obtain ⟨c, hc, he⟩ := hi
    cases he
    exact (advance_pos fou plan plan 0 false (by simp)).2 i hc
  · have := advance_perm fou plan 0 false
    simp only [startExec]
    refine (List.Perm.append_right _ List.perm_append_comm).trans this
  · simp only [startExec]; simpa using a3
  · intro g b hb
    simp only [startExec, List.mem_map] at hb ⊢
    obtain ⟨c, hc, he⟩ := hb
    cases he
    exact Or.inl hc
  · intro g b hb
    simp only [startExec, List.mem_map] at hb ⊢
    obtain ⟨c, _, he⟩ := hb
    cases he
    exact Nat.le_refl _
  · have := barrier_append_spawns barrier_nil (by intro g b h; simp at h)
      (advance fou plan 0 false).gidx (by intro g b h; simp at h) (advance fou plan 0 false).spawns
    simpa [startExec] using this
  · have := contig_append_spawns contig_nil (advance fou plan 0 false).gidx
      (by intro g b h; simp at h) (advance fou plan 0 false).spawns
    simpa [startExec] using this
  · intro e he
    have := hent e he
    simp only [startExec] at he
    refine ⟨?_, ?_, ?_⟩
    · intro h; rw [h] at this; simp [isSpawnStatus] at this
    · intro k h; rw [h] at this; simp [isSpawnStatus] at this
    · intro h; rw [h] at this; simp [isSpawnStatus] at this
  · simp only [startExec]
    rw [spawnIds_block, filter_entries_nil hent]
    simp [rIds]
  · intro g i hi
    simp only [startExec, List.mem_map] at hi
    obtain ⟨c, hc, he⟩ := hi
    cases he
    exact a1 i hc
  · intro e he _
    exact a2 e he

end Monorail

namespace Monorail

/-- the bookkeeping of one joined completion -/
def doneSt (s : ExecSt) (id : Nat) (oc : Outcome) : ExecSt :=
  { s with running := s.running.erase id, results := s.results ++ [(id, statusOf oc)],
           failed := s.failed || oc.fails, trace := s.trace ++ [Ev.done id oc] }

/-- moving on to the next group(s) once the current one has drained -/
def advSt (fou : Bool) (s : ExecSt) : ExecSt :=
  let a := advance fou s.rest (s.gidx + 1) s.failed
  { rest := a.rest, gidx := a.gidx, running := a.spawns, results := s.results ++ a.results,
    failed := a.failed, trace := s.trace ++ a.spawns.map (Ev.spawn a.gidx) }

theorem stepExec_eq (fou : Bool) (s : ExecSt) (id : Nat) (oc : Outcome) :
    stepExec fou s id oc =
      if s.running.contains id then
        (if (s.running.erase id).isEmpty then advSt fou (doneSt s id oc) else doneSt s id oc)
      else s := rfl

theorem doneSt_invW {fou : Bool} {plan : List Group} {s : ExecSt} (h : ExecInvW fou plan s)
    {id : Nat} (hid : id ∈ s.running) (oc : Outcome) : ExecInvW fou plan (doneSt s id oc) := by
  have hperm_run : s.running.Perm (id :: s.running.erase id) := List.perm_cons_erase hid
  refine
    { perm := ?_, fail := ?_, live := ?_, mono := ?_, barrier := ?_, contig := ?_, truth := ?_,
      spawned := ?_, disp := ?_, entry := ?_, sub := h.sub, pos := h.pos, whereSpawn := ?_,
      ordered := ordered_append_done h.ordered id oc, skip := ?_ }
  rotate_right 2
  · intro g i hi
    simp only [doneSt, List.mem_append, List.mem_singleton] at hi
    rcases hi with hi | hi
    · exact h.whereSpawn g i hi
    · cases hi
  · intro e he hs
    simp only [doneSt] at he ⊢
    rcases List.mem_append.mp he with he | he
    · simp [h.skip e he hs]
    · simp at he; subst he
      cases oc with
      | code k => simp only [statusOf] at hs; split at hs <;> cases hs
      | aborted => cases hs
  · simp only [doneSt, rIds, List.map_append, List.map_cons, List.map_nil]
    refine List.Perm.trans ?_ h.perm
    simp only [rIds, List.append_assoc]
    apply List.Perm.append_left
    -- [id] ++ erase ++ rest ~ running ++ rest
    have : ([id] ++ (s.running.erase id ++ planIds s.rest)).Perm (s.running ++ planIds s.rest) := by
      rw [← List.append_assoc]
      exact List.Perm.append_right _ hperm_run.symm
    exact this
  · simp only [doneSt, Bool.or_eq_true, h.fail]
    constructor
    · rintro (⟨e, he, hf⟩ | hf)
      · exact ⟨e, List.mem_append_left _ he, hf⟩
      · exact ⟨(id, statusOf oc), by simp, by rw [isFailure_statusOf]; exact hf⟩
    · rintro ⟨e, he, hf⟩
      rcases List.mem_append.mp he with he | he
      · exact Or.inl ⟨e, he, hf⟩
      · simp at he; subst he
        rw [isFailure_statusOf] at hf
        exact Or.inr hf
  · intro g b hb
    simp only [doneSt, List.mem_append, List.mem_singleton] at hb ⊢
    rcases hb with hb | hb
    · rcases h.live g b hb with hr | ⟨oc', hd⟩
      · by_cases hbi : b = id
        · subst hbi; exact Or.inr ⟨oc, Or.inr rfl⟩
        · exact Or.inl ((List.mem_erase_of_ne hbi).mpr hr)
      · exact Or.inr ⟨oc', Or.inl hd⟩
    · cases hb
  · intro g b hb
    simp only [doneSt, List.mem_append, List.mem_singleton] at hb ⊢
    rcases hb with hb | hb
    · exact h.mono g b hb
    · cases hb
  · exact barrier_append_done h.barrier id oc
  · exact contig_append_done h.contig id oc
  · intro e he
    simp only [doneSt] at he ⊢
    rcases List.mem_append.mp he with he | he
    · obtain ⟨t1, t2, t3⟩ := h.truth e he
      exact ⟨fun x => List.mem_append_left _ (t1 x),
        fun k x => ⟨(t2 k x).1, List.mem_append_left _ (t2 k x).2⟩,
        fun x => List.mem_append_left _ (t3 x)⟩
    · simp at he; subst he
      cases oc with
      | code k =>
        simp only [statusOf]
        by_cases hk : k = 0
        · subst hk; simp
        · simp [hk]
      | aborted => simp [statusOf]
  · simp only [doneSt, spawnIds_append, spawnIds_done, List.append_nil, List.filter_append, rIds,
      List.map_append]
    have hst : List.filter (fun e => isSpawnStatus e.2) [(id, statusOf oc)] = [(id, statusOf oc)] := by
      simp [isSpawnStatus_statusOf]
    rw [hst]
    refine h.spawned.trans ?_
    simp only [rIds, List.map_cons, List.map_nil]
    -- running ++ F ~ erase ++ (F ++ [id])
    have h1 : (s.running ++ List.map (fun x => x.1) (List.filter (fun e => isSpawnStatus e.2) s.results)).Perm
        ((id :: s.running.erase id) ++ List.map (fun x => x.1) (List.filter (fun e => isSpawnStatus e.2) s.results)) :=
      List.Perm.append_right _ hperm_run
    refine h1.trans ?_
    simp only [List.cons_append]
    have : (id :: (s.running.erase id ++ List.map (fun x => x.1) (List.filter (fun e => isSpawnStatus e.2) s.results))).Perm
        ((s.running.erase id ++ List.map (fun x => x.1) (List.filter (fun e => isSpawnStatus e.2) s.results)) ++ [id]) :=
      (List.perm_append_singleton _ _).symm
    refine this.trans ?_
    simp [List.append_assoc]
  · intro g i hi
    simp only [doneSt, List.mem_append, List.mem_singleton] at hi
    rcases hi with hi | hi
    · exact h.disp g i hi
    · cases hi
  · intro e he hns
    simp only [doneSt] at he
    rcases List.mem_append.mp he with he | he
    · exact h.entry e he hns
    · simp at he; subst he
      rw [isSpawnStatus_statusOf] at hns
      cases hns

end Monorail

namespace Monorail

theorem advSt_inv {fou : Bool} {plan : List Group} {s : ExecSt} (h : ExecInvW fou plan s)
    (hrun : s.running = []) : ExecInv fou plan (advSt fou s) := by
  obtain ⟨a1, a2, a3, a4, a5, a6⟩ := advance_facts fou s.rest (s.gidx + 1) s.failed
  have hent : ∀ e ∈ (advance fou s.rest (s.gidx + 1) s.failed).results, isSpawnStatus e.2 = false := by
    intro e he
    obtain ⟨g, _, t, _, _, hok⟩ := a2 e he
    exact entryOk_not_spawnStatus hok
  have hcomplete : Complete s.trace := by
    intro g b hb
    rcases h.live g b hb with hr | hd
    · rw [hrun] at hr; cases hr
    · exact hd
  have hfresh : ∀ g' b, Ev.spawn g' b ∈ s.trace → g' ≠ (advance fou s.rest (s.gidx + 1) s.failed).gidx := by
    intro g' b hb
    have := h.mono g' b hb
    omega
  refine
    { perm := ?_, fail := ?_, live := ?_, mono := ?_, barrier := ?_, contig := ?_, truth := ?_,
      spawned := ?_, stop := a5, disp := ?_, entry := ?_, sub := ?_,
      pos := (advance_pos fou plan s.rest (s.gidx + 1) s.failed h.pos.symm).1, whereSpawn := ?_,
      ordered := ordered_append_spawns h.ordered _ (fun g' b hb => by have := h.mono g' b hb; omega) _,
      skip := ?_ }
  rotate_right 2
  · intro g i hi
    simp only [advSt, List.mem_append, List.mem_map] at hi
    rcases hi with hi | ⟨c, hc, he⟩
    · exact h.whereSpawn g i hi
    · cases he
      exact (advance_pos fou plan s.rest (s.gidx + 1) s.failed h.pos.symm).2 i hc
  · intro e he hs
    simp only [advSt] at he ⊢
    rcases List.mem_append.mp he with he | he
    · exact advance_failed_mono fou _ _ _ (h.skip e he hs)
    · exact advance_skipped fou _ _ _ e he hs
  · have hp := h.perm
    rw [hrun] at hp
    have ha := advance_perm fou s.rest (s.gidx + 1) s.failed
    simp only [advSt, rIds, List.map_append, List.append_assoc, List.append_nil] at hp ⊢
    refine List.Perm.trans ?_ hp
    apply List.Perm.append_left
    simp only [rIds, List.append_assoc] at ha
    refine List.Perm.trans ?_ ha
    rw [← List.append_assoc, ← List.append_assoc]
    exact List.Perm.append_right _ List.perm_append_comm
  · simp only [advSt, a3, h.fail]
    constructor
    · rintro (⟨e, he, hf⟩ | ⟨e, he, hf⟩)
      · exact ⟨e, List.mem_append_left _ he, hf⟩
      · exact ⟨e, List.mem_append_right _ he, hf⟩
    · rintro ⟨e, he, hf⟩
      rcases List.mem_append.mp he with he | he
      · exact Or.inl ⟨e, he, hf⟩
      · exact Or.inr ⟨e, he, hf⟩
  · intro g b hb
    simp only [advSt, List.mem_append, List.mem_map] at hb ⊢
    rcases hb with hb | ⟨c, hc, he⟩
    · obtain ⟨oc, hoc⟩ := hcomplete g b hb
      exact Or.inr ⟨oc, Or.inl hoc⟩
    · cases he; exact Or.inl hc
  · intro g b hb
    simp only [advSt, List.mem_append, List.mem_map] at hb ⊢
    rcases hb with hb | ⟨c, _, he⟩
    · have := h.mono g b hb; omega
    · cases he; exact Nat.le_refl _
  · exact barrier_append_spawns h.barrier hcomplete _ hfresh _
  · exact contig_append_spawns h.contig _ hfresh _
  · intro e he
    simp only [advSt] at he ⊢
    rcases List.mem_append.mp he with he | he
    · obtain ⟨t1, t2, t3⟩ := h.truth e he
      exact ⟨fun x => List.mem_append_left _ (t1 x),
        fun k x => ⟨(t2 k x).1, List.mem_append_left _ (t2 k x).2⟩,
        fun x => List.mem_append_left _ (t3 x)⟩
    · have := hent e he
      refine ⟨?_, ?_, ?_⟩
      · intro hx; rw [hx] at this; simp [isSpawnStatus] at this
      · intro k hx; rw [hx] at this; simp [isSpawnStatus] at this
      · intro hx; rw [hx] at this; simp [isSpawnStatus] at this
  · have hs := h.spawned
    rw [hrun] at hs
    simp only [advSt, spawnIds_append, spawnIds_block, List.filter_append, filter_entries_nil hent,
      List.append_nil, List.nil_append] at hs ⊢
    exact (List.Perm.append_right _ hs).trans List.perm_append_comm
  · intro g i hi
    simp only [advSt, List.mem_append, List.mem_map] at hi
    rcases hi with hi | ⟨c, hc, he⟩
    · exact h.disp g i hi
    · cases he
      obtain ⟨grp, hg, t, ht, hh⟩ := a1 i hc
      exact ⟨grp, h.sub grp hg, t, ht, hh⟩
  · intro e he hns
    simp only [advSt] at he
    rcases List.mem_append.mp he with he | he
    · exact h.entry e he hns
    · obtain ⟨grp, hg, t, ht, hh⟩ := a2 e he
      exact ⟨grp, h.sub grp hg, t, ht, hh⟩
  · intro g hg
    exact h.sub g (advance_rest_sub fou _ _ _ g hg)

theorem stepExec_inv {fou : Bool} {plan : List Group} {s : ExecSt} (h : ExecInv fou plan s)
    (id : Nat) (oc : Outcome) : ExecInv fou plan (stepExec fou s id oc) := by
  rw [stepExec_eq]
  split
  · rename_i hc
    have hid : id ∈ s.running := by simpa using hc
    have hw := doneSt_invW h.toExecInvW hid oc
    split
    · rename_i he
      exact advSt_inv hw (by simpa [doneSt] using he)
    · rename_i he
      exact { toExecInvW := hw, stop := fun hnil => absurd (by simpa [doneSt] using hnil) (by simpa using he) }
  · exact h

/-- the invariant holds in every reachable state -/
theorem runExec_inv (fou : Bool) (plan : List Group) (inputs : List (Nat × Outcome)) :
    ExecInv fou plan (runExec fou plan inputs) := by
  unfold runExec
  have : ∀ (s : ExecSt), ExecInv fou plan s →
      ExecInv fou plan (inputs.foldl (fun s io => stepExec fou s io.1 io.2) s) := by
    induction inputs with
    | nil => intro s hs; exact hs
    | cons io rest ih => intro s hs; exact ih _ (stepExec_inv hs io.1 io.2)
  exact this _ (startExec_inv fou plan)

end Monorail
