/-!
# Loading a configuration and the integrity check of generated configurations

`H` (SHA-256) and `parse` (serde_json + `deny_unknown_fields` decoding into `Config`) are
parameters. What is modelled is the decision logic of `Config::new`, `Config::check`,
`config generate` and of `cli::handle` (check before dispatch). Import-free.
-/
namespace Monorail

abbrev FileBytes := List Nat

/-- repaired `Config::new`: the whole file is read -/
def readAll (file : FileBytes) : FileBytes := file

/-- LEGACY `Config::new`: only what one `BufReader::fill_buf` returns (8 KiB) was parsed and hashed -/
def fillBufOnce (cap : Nat) (file : FileBytes) : FileBytes := file.take cap

/-- what the loader extracts from a parsed configuration, as far as the integrity check goes -/
structure ParsedCfg (V : Type) where
  value : V                       -- the decoded configuration (everything every API computes from)
  hasSource : Bool                -- a `source` object is present
  sourcePath : Nat                -- which file it names (abstract id)
  sourceChecksum : Option Nat     -- `source.checksum`

inductive LoadErr where
  | unreadable | invalid | sourceMissing | lockMissing | noChecksum | sourceModified | generatedModified
deriving Repr, DecidableEq

structure Disk where
  generated : Option FileBytes            -- the file passed with -f
  sources : Nat → Option FileBytes        -- source files by id
  lock : Option Nat                       -- checksum stored in the lockfile

/-- `Config::new` followed by `Config::check` -/
def loadAndCheck {V : Type} (H : FileBytes → Nat) (parse : FileBytes → Option (ParsedCfg V)) (d : Disk) :
    Except LoadErr V :=
  match d.generated with
  | none => .error .unreadable
  | some file =>
    let bytes := readAll file
    match parse bytes with
    | none => .error .invalid
    | some cfg =>
      if !cfg.hasSource then .ok cfg.value
      else match d.sources cfg.sourcePath with
        | none => .error .sourceMissing
        | some src =>
          match d.lock with
          | none => .error .lockMissing
          | some lk =>
            match cfg.sourceChecksum with
            | none => .error .noChecksum
            | some rs =>
              if H src ≠ rs then .error .sourceModified
              else if H bytes ≠ lk then .error .generatedModified
              else .ok cfg.value

/-- `config generate`: record the source's checksum inside the generated file, and the generated
file's checksum in the lockfile. `render` is the pretty printer; `withChecksum v c` the input value
with `source.checksum := c`. -/
def generate {V : Type} (H : FileBytes → Nat) (render : V → Nat → FileBytes) (v : V) (srcId : Nat)
    (d : Disk) : Option Disk :=
  match d.sources srcId with
  | none => none
  | some src =>
    let gen := render v (H src)
    some { d with generated := some gen, lock := some (H gen) }

/-- `cli::handle`: every sub-command except `config generate` loads and checks first; an error means
the sub-command's action is not performed -/
def handle {V A : Type} (H : FileBytes → Nat) (parse : FileBytes → Option (ParsedCfg V)) (d : Disk)
    (action : V → A) : Except LoadErr A :=
  match loadAndCheck H parse d with
  | .ok v => .ok (action v)
  | .error e => .error e

end Monorail
