//! Hand-written edge cases and minimised past failures; they run first.
use serde_json::Value;
use std::path::Path;

pub fn load(dir: &Path, prop: &str) -> Vec<Value> {
    let d = dir.join(prop);
    let mut files: Vec<_> = match std::fs::read_dir(&d) {
        Ok(rd) => rd.flatten().map(|e| e.path()).collect(),
        Err(_) => return vec![],
    };
    files.sort();
    let mut out = vec![];
    for f in files {
        if f.extension().map(|e| e == "json").unwrap_or(false) {
            let s = std::fs::read_to_string(&f).unwrap();
            let v: Value = serde_json::from_str(&s).unwrap_or_else(|e| panic!("corpus {:?}: {}", f, e));
            match v {
                Value::Array(a) => out.extend(a),
                other => out.push(other),
            }
        }
    }
    out
}
