#!/usr/bin/env python3
"""Writes /verif/MANIFEST.json from tools/registry.py (single source of truth for what is claimed)."""
import json
import os
import sys

sys.path.insert(0, os.path.dirname(os.path.abspath(__file__)))
from registry import PROPS  # noqa: E402

VERIF = os.path.join(os.path.dirname(os.path.abspath(__file__)), "..")
ALL = ["C%02d" % i for i in range(1, 21)]
checks = []
for pid in ALL:
    if pid not in PROPS:
        continue
    s = PROPS[pid]
    checks.append({
        "property_id": pid,
        "quick_cmd": "./check %s --tier quick" % pid,
        "thorough_cmd": "./check %s --tier thorough" % pid,
        "evidence_file": "/verif/evidence/%s.json" % pid,
        "replay_cmd_template": "./check %s --replay {path}" % pid,
        "engine": "lean-model",
        "level_claimed": {"category": "proof", "text": s["level_text"], "design_ref": "DESIGN.md section 9, %s" % pid},
        "level_note": s["level_note"],
        "technique": s.get("technique", "Lean 4 proof over hand-written model + differential correspondence check"),
    })
claimed = sorted(PROPS)
m = {
    "version": 1,
    "setup_cmd": "cd /verif && ./check --setup",
    "hooks": {
        "guard": "pnordahl_monorail_verif",
        "enable": "rustflags = [\"--cfg\", \"pnordahl_monorail_verif\"] in /verif/harness/.cargo/config.toml; the harness crate (path dependency on /repo, plus /repo/src/bin/monorail.rs via include!) is rebuilt by every check",
        "baseline_off_cmd": "cd /repo && cargo nextest run --workspace --no-fail-fast --test-threads 8 --offline",
        "source_commits": ["64ed106", "18246f8", "2f34e95"],
        "add_only": True,
    },
    "engines": [
        {"name": "lean-model", "path": "/verif/lean", "serves_properties": claimed,
         "kind_free_text": "Lean 4 model + property theorems (lake project, core Lean; single Mathlib modules only in proof files) and the mrmodel line-protocol driver"},
        {"name": "mrverif", "path": "/verif/harness", "serves_properties": [p for p in claimed if PROPS[p]["kind"] == "rust"],
         "kind_free_text": "Rust harness linking /repo in-process with hooks on: structured generators, differential comparison against the Lean driver, Lean-side property oracle on implementation output, shrinking"},
        {"name": "scenarios", "path": "/verif/tools", "serves_properties": [p for p in claimed if PROPS[p]["kind"] != "rust"],
         "kind_free_text": "Python scenario drivers running the real monorail binary (hooks-on build) in scratch git repositories with the mrhelper tracing executable, real git, sockets and SIGKILLs; observations are judged by the Lean driver"},
    ],
    "checks": checks,
    "not_applicable": [{"property_id": p, "reason": "not yet claimed: check under construction (design in DESIGN.md section 9); not judged inapplicable"} for p in ALL if p not in PROPS],
    "notes": "All 20 properties are claimed at level proof (none not_applicable). /repo carries twelve fix: commits for genuine defects found (D1-D12, recorded as fixed entries in known_findings.json) and three hook commits guarded by cfg(pnordahl_monorail_verif). Seeded changes used to test the checks are under /verif/seeded (never committed in /repo).",
}
json.dump(m, open(os.path.join(VERIF, "MANIFEST.json"), "w"), indent=1)
print("claimed:", " ".join(claimed))
