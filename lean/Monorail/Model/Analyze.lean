import Monorail.Model.Index
import Monorail.Model.Graph
import Monorail.Model.Sort
/-!
# `app::analyze`

`analyzeChange` mirrors `analyze_change`: the ignore set of the change, the direct trie hits, and
the `uses` hits expanded to the using target and its ancestors. `analyze` mirrors the chunked
(`par_chunks(batchSize)`) accumulation, the sorted summary, and the pruned target groups.
-/
namespace Monorail

inductive Reason where
  | target | uses | ignores
deriving Repr, DecidableEq

def Reason.code : Reason → Nat
  | .target => 0 | .uses => 1 | .ignores => 2

/-- keys of the `ignores` trie -/
def allIgnores (cfg : Config) : List Path := cfg.flatMap (·.ignores)
/-- `ignore2targets[s]` -/
def ignore2targets (cfg : Config) (s : Path) : List Path :=
  (cfg.filter (fun t => t.ignores.contains s)).map (·.path)
/-- `get_ignore_targets`: the targets that ignore change `p` -/
def ignoreTargets (cfg : Config) (p : Path) : List Path :=
  ((allIgnores cfg).filter (fun k => hit k p)).flatMap (ignore2targets cfg)

/-- keys of the `uses` trie -/
def allUses (cfg : Config) : List Path := cfg.flatMap (·.uses)
/-- `use2targets[s]` -/
def use2targets (cfg : Config) (s : Path) : List Path :=
  (cfg.filter (fun t => t.uses.contains s)).map (·.path)

structure ChangeResult where
  /-- what is inserted into the accumulated target set -/
  targets : List Path
  /-- the per-change breakdown (`changes[].targets`), as a set of (path, reason) -/
  breakdown : List (Path × Reason)

/-- the targets reached through `uses`: for every uses key hit by `p` that is not itself an ignoring
target, every non-ignoring target that declares it, and all of that target's enclosing targets -/
def viaUses (cfg : Config) (p : Path) : List Path :=
  let ign := ignoreTargets cfg p
  ((allUses cfg).filter (fun m => hit m p && !ign.contains m)).flatMap (fun m =>
    ((use2targets cfg m).filter (fun t => !ign.contains t)).flatMap (fun t => searchTargets cfg t))

def analyzeChange (cfg : Config) (p : Path) : ChangeResult :=
  let ign := ignoreTargets cfg p
  let direct := searchTargets cfg p
  let via := viaUses cfg p
  { targets := (direct ++ via).filter (fun t => !ign.contains t),
    breakdown :=
      direct.map (fun t => (t, if ign.contains t then Reason.ignores else Reason.target)) ++
      via.map (fun t => (t, if ign.contains t then Reason.ignores else Reason.uses)) }

def chunksAux {α : Type} (k : Nat) : Nat → List α → List (List α)
  | 0, _ => []
  | _+1, [] => []
  | f+1, x :: xs => (x :: xs).take k :: chunksAux k f ((x :: xs).drop k)

/-- `par_chunks(k)` -/
def chunks {α : Type} (k : Nat) (l : List α) : List (List α) := chunksAux k l.length l

/-- order on breakdown entries used to canonicalise the set -/
def entryLt (a b : Path × Reason) : Bool :=
  pathLt a.1 b.1 || (a.1 == b.1 && a.2.code < b.2.code)

structure AnalyzeOut where
  targets : List Path
  changes : List (Path × List (Path × Reason))
  groups : Except GraphErr (List (List Path))

def labelsOf (cfg : Config) (grp : List Nat) : List Path :=
  grp.filterMap (fun i => (cfg[i]?).map (·.path))

/-- `analyze` with a checkpoint (`changes = Some(..)`), batch size `k` -/
def analyze (cfg : Config) (cs : List Path) (k : Nat) : AnalyzeOut :=
  let perChunk := (chunks k cs).map (fun c => c.map (fun p => (p, analyzeChange cfg p)))
  let accumulated := perChunk.flatMap (fun c => c.flatMap (fun r => r.2.targets))
  let targets := sortDedupBy pathLt accumulated
  { targets := targets,
    changes := perChunk.flatMap (fun c => c.map (fun r => (r.1, sortDedupBy entryLt r.2.breakdown))),
    groups :=
      match labeledGroups ⟨adjacency cfg⟩ (List.range cfg.length) with
      | .error e => .error e
      | .ok gs => .ok ((gs.map (fun grp => (labelsOf cfg grp).filter (fun l => targets.contains l))).filter
                    (fun grp => !grp.isEmpty)) }

/-- `analyze` without a checkpoint: every configured target, all groups -/
def analyzeAll (cfg : Config) : AnalyzeOut :=
  { targets := sortDedupBy pathLt (cfg.map (·.path)),
    changes := [],
    groups :=
      match labeledGroups ⟨adjacency cfg⟩ (List.range cfg.length) with
      | .error e => .error e
      | .ok gs => .ok (gs.map (labelsOf cfg)) }

end Monorail
